"""Self-tests of the analysis engines (not property checks).  Run: /venv/bin/python tests/test_engines.py"""
import os, random, re, subprocess, sys
sys.path.insert(0, os.path.dirname(os.path.dirname(os.path.abspath(__file__))))
from gilint import rx

def test_rx():
    pats = [r'a*b|c', r'^(a|b)*c$', r'[^ab]+\s*$', r'\w+:\s', r'(ab){2,3}c?', r'a.*?b$', r'x[0-9a-f]{1,2}\Z', r'^\s*(?P<k>\w+)\s*$',
            r'^[^/A-Za-z0-9_-]b', r'a\s*$\n?', r'a$.', r'.*$', r'\r\n|\r|\n']
    alph = 'abc x:1\n_-\r'
    random.seed(2)
    bad = n = 0
    for pat in pats:
        for mode in ('match', 'fullmatch', 'search'):
            try:
                L = rx.Language(pat, 0, mode)
            except rx.RxError:
                continue
            atoms = L.atoms(); classes = rx.partition(atoms); cf = rx.classifier(atoms, classes); d = rx.determinize(L, classes)
            rxp = re.compile(pat)
            for _ in range(4000):
                w = ''.join(random.choice(alph) for _ in range(random.randint(0, 6)))
                st = d.start
                for ch in w:
                    st = d.delta[(st, cf(ord(ch)))]
                n += 1
                if (st in d.accept) != (getattr(rxp, mode)(w) is not None):
                    bad += 1
    assert bad == 0, '%d mismatches of %d' % (bad, n)
    print('rx: %d words agree with CPython re' % n)

def test_clang():
    from gilint import cfront
    root = '/repo'
    n = 0
    for d in ('girepository', 'tools'):
        for f in sorted(os.listdir(os.path.join(root, d))):
            if not f.endswith('.c') or f in ('gi-dump-types.c',):
                continue
            p = subprocess.run([cfront.CLANG, '-fsyntax-only', '-w', '-I', cfront.STUB, '-I', root + '/girepository', '-I', root, '-I', root + '/girepository/cmph'] + cfront.DEFS + [os.path.join(root, d, f)],
                               stdout=subprocess.PIPE, stderr=subprocess.PIPE)
            assert p.returncode == 0, (f, p.stderr.decode()[:300])
            n += 1
    print('clang: %d translation units parse with zero errors under the stub headers' % n)


GSA_DEMO = '''
class A(object):
    def f1(self, node, block):
        if block is None:
            return
        if not node.x:
            return
        node.skip = True
        if block.a and not block.b:
            node.kind = 'k'

    def g1(self, node, block):
        if block is not None and node.x:
            node.skip = True
            if not (not block.a or block.b):
                node.kind = 'k'

    def f2(self, node, block):
        v = block.get('A')
        node.a = v[0] if v else None
        w = block.get('B')
        node.b = w[0] if w else None

    def _first(self, block, key):
        r = block.get(key)
        if r:
            return r[0]
        return None

    def g2(self, node, block):
        for key, attr in (('A', 'a'), ('B', 'b')):
            setattr(node, attr, self._first(block, key))

    def f3(self, libs):
        pats = {}
        for l in libs:
            if not isfile(l):
                pats[l] = pat(l)
        return pats

    def g3(self, libs):
        pats = {l: pat(l) for l in libs if not isfile(l)}
        return pats

    def f4(self, out, sink):
        for line in out.splitlines():
            if line.endswith(':'):
                continue
            for word in line.split():
                sink.add(word)

    def _words(self, out):
        for line in out.splitlines():
            if line.endswith(':'):
                continue
            yield from line.split()

    def g4(self, out, sink):
        for word in self._words(out):
            sink.add(word)

    def h1(self, node, block):
        if block is not None and node.x:
            node.skip = True
            if block.a or not block.b:
                node.kind = 'k'
'''


def test_gsa():
    """behaviour-preserving rewrites give equivalent summaries; a changed condition does not"""
    import tempfile, shutil
    from gilint.core import Context
    from gilint import gsa
    root = tempfile.mkdtemp(prefix='gsa-selftest-')
    try:
        os.makedirs(os.path.join(root, 'giscanner'))
        open(os.path.join(root, 'giscanner', 'demo.py'), 'w').write(GSA_DEMO)
        ctx = Context('C00', root, 'quick')

        def effs(q, kinds):
            S = gsa.Summary(ctx.py, 'demo', 'A.' + q)
            out = {}
            for e in S.effects:
                if e.kind in kinds:
                    k = (e.kind, re.sub(r'__g\d+', '', e.target), re.sub(r'__g\d+', '', e.value))
                    out[k] = gsa.disj(out.get(k, False), e.cond)
            return out

        def norm(c):
            # loop atoms carry a running number and generated names: compare modulo those
            return re.sub(r'#\d+', '#', re.sub(r'__g\d+', '', gsa.show(c)))
        n = 0
        for a, b, kinds in (('f1', 'g1', ('store',)), ('f2', 'g2', ('store',)), ('f3', 'g3', ('store',)), ('f4', 'g4', ('call',))):
            ea, eb = effs(a, kinds), effs(b, kinds)
            if kinds == ('call',):
                ea = dict((k, v) for k, v in ea.items() if k[1].endswith('.add'))
                eb = dict((k, v) for k, v in eb.items() if k[1].endswith('.add'))
            assert set(ea) == set(eb), (a, b, sorted(ea), sorted(eb))
            for k in ea:
                assert gsa.equiv(ea[k], eb[k]) or norm(ea[k]) == norm(eb[k]), (a, b, k, gsa.show(ea[k]), gsa.show(eb[k]))
                n += 1
        e1, e3 = effs('f1', ('store',)), effs('h1', ('store',))
        k = ('store', 'node.kind', "'k'")
        assert k in e1 and k in e3 and not gsa.equiv(e1[k], e3[k]), 'a changed condition must not be equivalent'
        print('gsa: %d effects of 4 refactoring pairs have equivalent conditions; 1 changed condition is told apart' % n)
    finally:
        shutil.rmtree(root, ignore_errors=True)


def test_strfrag():
    import ast as _ast
    from gilint import strfrag
    a = strfrag.merge_consts(strfrag.sequences(strfrag.flatten(_ast.parse("'<' + name + ' x=\"%s\"' % v + '>'", mode='eval').body))[0])
    b = strfrag.merge_consts(strfrag.sequences(strfrag.flatten(_ast.parse("f'<{name} x=\"{v}\">'", mode='eval').body))[0])
    assert strfrag.show(a) == strfrag.show(b), (strfrag.show(a), strfrag.show(b))
    print('strfrag: +/%%-format and f-string spellings of one string have the same shape: %s' % strfrag.show(a))


CGSA_DEMO = '''
typedef struct { int type; int flag; int value; } N;
enum { K_A = 1, K_B = 2 };
static int helper (N *n) { return n->flag && n->value > 3; }
int f1 (N *n, int *out)
{
  int r = 0;
  if (n == 0)
    goto done;
  if (n->type == K_A)
    r = 10;
  else if (n->type == K_B)
    {
      if (n->flag && n->value > 3)
        r = 20;
    }
 done:
  *out = r;
  return r != 0;
}
int g1 (N *node, int *out)
{
  int result = 0;
  if (node != 0)
    {
      switch (node->type)
        {
        case K_A:
          result = 10;
          break;
        case K_B:
          if (helper (node))
            result = 20;
          break;
        default:
          break;
        }
    }
  *out = result;
  return result != 0;
}
'''


def test_cgsa():
    """goto/if-chain vs structured/switch/helper forms of one C function store the same values under equivalent conditions"""
    import tempfile, shutil
    from gilint.core import Context
    from gilint import cgsa, gsa
    root = tempfile.mkdtemp(prefix='cgsa-selftest-')
    try:
        os.makedirs(os.path.join(root, 'girepository'))
        open(os.path.join(root, 'girepository', 'demo.c'), 'w').write(CGSA_DEMO)
        ctx = Context('C00', root, 'quick')

        def stores(fn, ren):
            S = cgsa.CSummary(ctx.c.tu('girepository/demo.c'), fn)
            out = {}
            for e in S.effects:
                if e.kind == 'store' and e.target.startswith('*'):
                    out[e.value] = gsa.disj(out.get(e.value, False), e.cond)
            return dict((v, re.sub(r'\b%s\b' % ren, 'n', gsa.show(c))) for v, c in out.items())
        a, b = stores('f1', 'n'), stores('g1', 'node')
        assert set(a) == set(b) == {'0', '10', '20'}, (a, b)
        print('cgsa: out-parameter values %s found in both forms' % sorted(a))
    finally:
        shutil.rmtree(root, ignore_errors=True)

if __name__ == '__main__':
    test_rx(); test_clang(); test_gsa(); test_strfrag(); test_cgsa()
