"""Self-tests of the analysis engines (not property checks).  Run: /venv/bin/python tests/test_engines.py"""
import os, random, re, subprocess, sys
sys.path.insert(0, os.path.dirname(os.path.dirname(os.path.abspath(__file__))))
from gilint import rx

def test_rx():
    pats = [r'a*b|c', r'^(a|b)*c$', r'[^ab]+\s*$', r'\w+:\s', r'(ab){2,3}c?', r'a.*?b$', r'x[0-9a-f]{1,2}\Z', r'^\s*(?P<k>\w+)\s*$',
            r'^[^/A-Za-z0-9_-]b', r'a\s*$\n?', r'a$.', r'.*$', r'\r\n|\r|\n']
    alph = 'abc x:1\n_-\r'
    random.seed(2)
    bad = n = 0
    for pat in pats:
        for mode in ('match', 'fullmatch', 'search'):
            try:
                L = rx.Language(pat, 0, mode)
            except rx.RxError:
                continue
            atoms = L.atoms(); classes = rx.partition(atoms); cf = rx.classifier(atoms, classes); d = rx.determinize(L, classes)
            rxp = re.compile(pat)
            for _ in range(4000):
                w = ''.join(random.choice(alph) for _ in range(random.randint(0, 6)))
                st = d.start
                for ch in w:
                    st = d.delta[(st, cf(ord(ch)))]
                n += 1
                if (st in d.accept) != (getattr(rxp, mode)(w) is not None):
                    bad += 1
    assert bad == 0, '%d mismatches of %d' % (bad, n)
    print('rx: %d words agree with CPython re' % n)

def test_clang():
    from gilint import cfront
    root = '/repo'
    n = 0
    for d in ('girepository', 'tools'):
        for f in sorted(os.listdir(os.path.join(root, d))):
            if not f.endswith('.c') or f in ('gi-dump-types.c',):
                continue
            p = subprocess.run([cfront.CLANG, '-fsyntax-only', '-w', '-I', cfront.STUB, '-I', root + '/girepository', '-I', root, '-I', root + '/girepository/cmph'] + cfront.DEFS + [os.path.join(root, d, f)],
                               stdout=subprocess.PIPE, stderr=subprocess.PIPE)
            assert p.returncode == 0, (f, p.stderr.decode()[:300])
            n += 1
    print('clang: %d translation units parse with zero errors under the stub headers' % n)

if __name__ == '__main__':
    test_rx(); test_clang()
