#!/usr/bin/env python3
"""Copy confirmed seeded regressions from the sub-agents' output dir into /verif/seeded/<ID>/vN."""
import json, os, shutil, sys
src = sys.argv[1]
results = json.load(open(sys.argv[2]))
VERIF = os.path.dirname(os.path.dirname(os.path.abspath(__file__)))
for r in results:
    if r.get('error'):
        print('skip', r['variant'], r['error'][:80]); continue
    has_demo = r.get('demo_clean') is not None
    if has_demo and not (r.get('demo_clean') == 0 and r.get('demo_patched') not in (0, None) and r.get('tests_passed') == 267):
        print('NOT CONFIRMED', r['variant'], r); continue
    s = os.path.join(src, r['variant'])
    d = os.path.join(VERIF, 'seeded', r['variant'])
    os.makedirs(d, exist_ok=True)
    for fn in os.listdir(s):
        p = os.path.join(s, fn)
        if os.path.isfile(p) and os.path.getsize(p) < 200000 and not fn.endswith(('.pyc', '.o')):
            shutil.copy(p, os.path.join(d, fn))
        elif os.path.isdir(p) and fn in ('harness', 'shim'):
            shutil.copytree(p, os.path.join(d, fn), dirs_exist_ok=True, ignore=shutil.ignore_patterns('*.o', '*.pyc', '__pycache__'))
    mp = os.path.join(d, 'meta.json')
    try:
        meta = json.load(open(mp))
    except Exception:
        meta = {}
    meta.setdefault('property', r['property'])
    meta['confirmed_by_verif'] = {
        'ran': ['git worktree of /repo HEAD + git apply patch.diff',
                '/venv/bin/python demo.py /repo  -> exit %s' % r.get('demo_clean'),
                '/venv/bin/python demo.py <patched worktree> -> exit %s' % r.get('demo_patched'),
                'pinned pytest suite in patched worktree -> %s passed' % r.get('tests_passed')],
    }
    json.dump(meta, open(mp, 'w'), indent=1)
    print('imported', r['variant'])
