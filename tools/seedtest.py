#!/usr/bin/env python3
"""Run the checks against seeded regressions.

usage: tools/seedtest.py [--src DIR] [--no-demo] [--all-props] [variant dirs...]
For each variant (a directory with patch.diff, demo.py, meta.json): make a scratch git worktree of
/repo's HEAD under a temp dir, apply the patch, (optionally) run the demo on the clean tree and on the
patched tree and the pinned test-suite on the patched tree, run `gilint <ID> --root <scratch>`, remove
the worktree.  Nothing is ever applied to /repo itself.  Writes seeded/RESULTS.json and prints a table.
"""
import argparse, concurrent.futures, glob, json, os, re, shutil, subprocess, sys, tempfile

VERIF = os.path.dirname(os.path.dirname(os.path.abspath(__file__)))
PY = '/venv/bin/python'


def sh(cmd, cwd=None, timeout=900, env=None):
    e = dict(os.environ)
    if env:
        e.update(env)
    try:
        p = subprocess.run(cmd, cwd=cwd, stdout=subprocess.PIPE, stderr=subprocess.STDOUT, timeout=timeout, env=e)
        return p.returncode, p.stdout.decode('utf-8', 'replace')
    except subprocess.TimeoutExpired:
        return 124, 'timeout'


def run_variant(vdir, args):
    meta = {}
    try:
        meta = json.load(open(os.path.join(vdir, 'meta.json')))
    except Exception:
        pass
    prop = meta.get('property') or os.path.basename(os.path.dirname(vdir))
    res = {'variant': os.path.relpath(vdir, args.src), 'property': prop}
    tmp = tempfile.mkdtemp(prefix='gi-seed-')
    wt = os.path.join(tmp, 'wt')
    evd = os.path.join(tmp, 'ev')
    try:
        rc, out = sh(['git', '-C', '/repo', 'worktree', 'add', '--detach', '-q', wt, 'HEAD'])
        if rc:
            res['error'] = 'worktree: ' + out
            return res
        rc, out = sh(['git', 'apply', os.path.join(vdir, 'patch.diff')], cwd=wt)
        if rc:
            rc, out = sh(['git', 'apply', '-3', os.path.join(vdir, 'patch.diff')], cwd=wt)
        if rc:
            res['error'] = 'patch does not apply: ' + out[-300:]
            return res
        demo = os.path.join(vdir, 'demo.py')
        if not args.no_demo and os.path.exists(demo):
            rc0, o0 = sh([PY, demo, '/repo'], cwd=vdir, timeout=600)
            rc1, o1 = sh([PY, demo, wt], cwd=vdir, timeout=600)
            res['demo_clean'] = rc0
            res['demo_patched'] = rc1
            rc, out = sh([PY, '-m', 'pytest', '-q', '-p', 'no:cacheprovider', '--timeout=900', '--continue-on-collection-errors'], cwd=wt)
            m = re.search(r'(\d+) passed', out)
            res['tests_passed'] = int(m.group(1)) if m else None
        props = [prop]
        if args.all_props:
            props = sorted(set(['C%02d' % i for i in range(1, 21)]))
        fired = {}
        for p in props:
            if not os.path.exists(os.path.join(VERIF, 'gilint', 'props', p.lower() + '.py')):
                continue
            rc, out = sh([PY, '-m', 'gilint', p, '--tier', args.tier, '--root', wt], cwd=VERIF, env={'GILINT_EVIDENCE_DIR': evd})
            f = [l for l in out.splitlines() if l.startswith('FINDING') or l.startswith('ANALYSIS-ERROR')]
            if rc or f:
                fired[p] = {'exit': rc, 'lines': [l.replace(wt + '/', '')[:400] for l in f[:6]]}
        res['fired'] = fired
        res['detected'] = any(v['exit'] == 1 for v in fired.values())
        res['detected_by_own_property'] = fired.get(prop, {}).get('exit') == 1
    finally:
        sh(['git', '-C', '/repo', 'worktree', 'remove', '--force', wt])
        shutil.rmtree(tmp, ignore_errors=True)
    return res


def main():
    ap = argparse.ArgumentParser()
    ap.add_argument('--src', default=os.path.join(VERIF, 'seeded'))
    ap.add_argument('--no-demo', action='store_true')
    ap.add_argument('--all-props', action='store_true')
    ap.add_argument('--tier', default='quick')
    ap.add_argument('--jobs', type=int, default=8)
    ap.add_argument('--out', default=None)
    ap.add_argument('variants', nargs='*')
    args = ap.parse_args()
    vs = args.variants or sorted(glob.glob(os.path.join(args.src, 'C*', 'v*')))
    vs = [os.path.abspath(v) for v in vs if os.path.exists(os.path.join(v, 'patch.diff'))]
    with concurrent.futures.ThreadPoolExecutor(args.jobs) as ex:
        results = list(ex.map(lambda v: run_variant(v, args), vs))
    for r in results:
        own = r.get('fired', {}).get(r['property'], {})
        print('%-10s demo clean/patched=%s/%s tests=%s detected=%s %s' % (
            r['variant'], r.get('demo_clean'), r.get('demo_patched'), r.get('tests_passed'), r.get('detected'),
            r.get('error') or '; '.join(l.split('] ', 1)[0].split('[')[-1] for l in own.get('lines', [])[:3])))
        if args.all_props:
            for p, v in r.get('fired', {}).items():
                if p != r['property']:
                    print('           also %s exit=%s %s' % (p, v['exit'], v['lines'][:1]))
    if args.out:
        json.dump(results, open(args.out, 'w'), indent=1)
    n = sum(1 for r in results if r.get('detected'))
    print('detected %d / %d' % (n, len(results)))


if __name__ == '__main__':
    main()
