#!/usr/bin/env python3
"""Re-run, with the current checkers, only the (patch, check) pairs that alarmed in earlier tools/benigntest.py --out files,
and write the merged record:  tools/benign_recheck.py OUT.json IN1.json [IN2.json ...]"""
import concurrent.futures, json, os, shutil, subprocess, sys, tempfile
VERIF = os.path.dirname(os.path.dirname(os.path.abspath(__file__)))


def rerun(r):
    tmp = tempfile.mkdtemp(prefix='gi-benign-'); wt = os.path.join(tmp, 'wt')
    try:
        subprocess.run(['git', '-C', '/repo', 'worktree', 'add', '--detach', '-q', wt, 'HEAD'], check=True)
        if subprocess.run(['git', 'apply', os.path.join(VERIF, 'benign', r['variant'], 'patch.diff')], cwd=wt).returncode:
            r['error'] = 'patch does not apply'; return r
        r.pop('error', None)
        alarms = {}
        for p in sorted(r['alarms']) or ['C%02d' % i for i in range(1, 21)]:
            q = subprocess.run(['/venv/bin/python', '-m', 'gilint', p, '--root', wt], cwd=VERIF, stdout=subprocess.PIPE, stderr=subprocess.STDOUT,
                               env=dict(os.environ, GILINT_EVIDENCE_DIR=os.path.join(tmp, 'ev')))
            if q.returncode:
                alarms[p] = [l.replace(wt + '/', '')[:300] for l in q.stdout.decode().splitlines() if l.startswith(('FINDING', 'ANALYSIS-ERROR'))][:5]
        r['alarms'] = alarms; r['rechecked'] = True
        return r
    finally:
        subprocess.run(['git', '-C', '/repo', 'worktree', 'remove', '--force', wt], stdout=subprocess.DEVNULL, stderr=subprocess.DEVNULL)
        shutil.rmtree(tmp, ignore_errors=True)


def main():
    res = []
    for a in sys.argv[2:]:
        res.extend(json.load(open(a)))
    todo = [r for r in res if r.get('alarms') or r.get('error')]
    with concurrent.futures.ThreadPoolExecutor(int(os.environ.get('J', '8'))) as ex:
        list(ex.map(rerun, todo))
    json.dump(res, open(sys.argv[1], 'w'), indent=1)
    print('re-checked %d patches; %d still alarm' % (len(todo), sum(1 for r in res if r.get('alarms') or r.get('error'))))


if __name__ == '__main__':
    main()
