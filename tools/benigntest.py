#!/usr/bin/env python3
"""Run ALL checks against behaviour-preserving refactorings: every check must stay silent (exit 0).
usage: tools/benigntest.py [--src DIR] [dirs...]   (default: /verif/benign/*/b*)"""
import argparse, concurrent.futures, glob, json, os, shutil, subprocess, sys, tempfile
VERIF = os.path.dirname(os.path.dirname(os.path.abspath(__file__)))
PY = '/venv/bin/python'
PROPS = ['C%02d' % i for i in range(1, 21)]

def sh(cmd, cwd=None, env=None, timeout=900):
    e = dict(os.environ); e.update(env or {})
    p = subprocess.run(cmd, cwd=cwd, stdout=subprocess.PIPE, stderr=subprocess.STDOUT, env=e, timeout=timeout)
    return p.returncode, p.stdout.decode('utf-8', 'replace')

def run(vdir, args):
    res = {'variant': os.path.relpath(vdir, args.src), 'alarms': {}}
    tmp = tempfile.mkdtemp(prefix='gi-benign-')
    wt = os.path.join(tmp, 'wt')
    try:
        rc, out = sh(['git', '-C', '/repo', 'worktree', 'add', '--detach', '-q', wt, 'HEAD'])
        if rc:
            res['error'] = out; return res
        rc, out = sh(['git', 'apply', os.path.join(vdir, 'patch.diff')], cwd=wt)
        if rc:
            rc, out = sh(['git', 'apply', '-3', os.path.join(vdir, 'patch.diff')], cwd=wt)
        if rc:
            res['error'] = 'patch does not apply: ' + out[-200:]; return res
        if args.tests:
            rc, out = sh([PY, '-m', 'pytest', '-q', '-p', 'no:cacheprovider', '--timeout=900', '--continue-on-collection-errors'], cwd=wt)
            res['tests'] = out.strip().splitlines()[-1][:80]
        for p in PROPS:
            rc, out = sh([PY, '-m', 'gilint', p, '--root', wt], cwd=VERIF, env={'GILINT_EVIDENCE_DIR': os.path.join(tmp, 'ev')})
            if rc:
                res['alarms'][p] = [l.replace(wt + '/', '')[:300] for l in out.splitlines() if l.startswith(('FINDING', 'ANALYSIS-ERROR'))][:5]
    finally:
        sh(['git', '-C', '/repo', 'worktree', 'remove', '--force', wt])
        shutil.rmtree(tmp, ignore_errors=True)
    return res

def main():
    ap = argparse.ArgumentParser()
    ap.add_argument('--src', default=os.path.join(VERIF, 'benign'))
    ap.add_argument('--tests', action='store_true')
    ap.add_argument('--jobs', type=int, default=6)
    ap.add_argument('--out')
    ap.add_argument('dirs', nargs='*')
    args = ap.parse_args()
    vs = [os.path.abspath(d) for d in (args.dirs or sorted(glob.glob(os.path.join(args.src, 'C*', 'b*')))) if os.path.exists(os.path.join(d, 'patch.diff'))]
    with concurrent.futures.ThreadPoolExecutor(args.jobs) as ex:
        results = list(ex.map(lambda v: run(v, args), vs))
    bad = 0
    for r in results:
        if r.get('error'):
            print('%-12s ERROR %s' % (r['variant'], r['error'][:100])); continue
        if r['alarms']:
            bad += 1
            print('%-12s FALSE ALARM %s %s' % (r['variant'], sorted(r['alarms']), r.get('tests', '')))
            for p, lines in r['alarms'].items():
                for l in lines[:2]:
                    print('             ', l[:260])
        else:
            print('%-12s silent %s' % (r['variant'], r.get('tests', '')))
    if args.out:
        json.dump(results, open(args.out, 'w'), indent=1)
    print('false alarms on %d / %d refactorings' % (bad, len(results)))

if __name__ == '__main__':
    main()
