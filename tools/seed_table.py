#!/usr/bin/env python3
"""Write seeded/RESULTS.json, seeded/TABLE.md and the table of DESIGN.md §10 from a `seedtest.py --out` file.

    python3 tools/seedtest.py --no-demo --out /tmp/seeds.json
    python3 tools/seed_table.py /tmp/seeds.json
"""
import json
import os
import re
import sys

VERIF = os.path.dirname(os.path.dirname(os.path.abspath(__file__)))
BEGIN = '### Seeded changes and the rule that catches each\n'


def main():
    results = json.load(open(sys.argv[1]))
    rows = ['| seeded change | caught by | what it changes |', '|---|---|---|']
    for r in sorted(results, key=lambda r: (r['property'], int(r['variant'].split('/v')[1]))):
        own = r.get('fired', {}).get(r['property'], {})
        rules = []
        for l in own.get('lines', []):
            m = re.search(r'\[(C\d\d\.R\w+)\]', l)
            if m and m.group(1) not in rules:
                rules.append(m.group(1))
        others = sorted(p for p, v in r.get('fired', {}).items() if p != r['property'] and v.get('exit') == 1)
        meta = json.load(open(os.path.join(VERIF, 'seeded', r['variant'], 'meta.json')))
        what = ' '.join(str(meta.get('summary', '')).split())[:150].replace('|', '/')
        caught = ', '.join(rules) if r.get('detected') else '**missed**'
        if others:
            caught += ' (also %s)' % ', '.join(others)
        rows.append('| %s | %s | %s |' % (r['variant'], caught, what))
    table = '\n'.join(rows) + '\n'
    json.dump(results, open(os.path.join(VERIF, 'seeded', 'RESULTS.json'), 'w'), indent=1)
    open(os.path.join(VERIF, 'seeded', 'TABLE.md'), 'w').write(table)
    p = os.path.join(VERIF, 'DESIGN.md')
    s = open(p).read()
    i = s.index(BEGIN) + len(BEGIN)
    j = s.find('\n## ', i)
    j2 = s.find('\n### ', i)
    ends = [x for x in (j, j2) if x != -1]
    end = min(ends) if ends else len(s)
    s = s[:i] + '\n' + table + s[end:]
    open(p, 'w').write(s)
    n = sum(1 for r in results if r.get('detected'))
    print('%d / %d detected; tables written' % (n, len(results)))


if __name__ == '__main__':
    main()
