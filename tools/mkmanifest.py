#!/usr/bin/env python3
"""Regenerate MANIFEST.json from the table below (kept in one place so it is always valid)."""
import json, os
HERE = os.path.dirname(os.path.dirname(os.path.abspath(__file__)))

CLAIMED = {
 'C04': ('argument-binding provenance of C identifiers, guard-chain queries for rejecting rows, sibling symmetry of Namespace.track/remove, sort-key rule',
         'Decides only the structural clauses: every node built from a C symbol receives the symbol\'s identifier verbatim (incl. the typedef that promotes a tagged struct); underscore and foreign symbols are dropped; each precondition of method and constructor pairing has an unconditional rejecting row; prefix matches are ranked (current namespace, prefix length) and the last is taken; track/remove/float are inverses; moved-to is set once per compatibility copy.',
         'NOT decided (not applicable): the prefix-splitting results themselves, to_underscores on arbitrary CamelCase, uniqueness of C identifiers for concrete headers, typedef/struct ordering effects beyond the promotion rule. Trusted: CPython ast.',
         '§4 C04'),
 'C16': ('set-typed expression inference over all of giscanner + order-sensitivity lint of every iteration site, symbolic writer loop table, nondeterminism-source sweep, control-dependence rule at the cache call site',
         'Decides the structural necessary conditions for every run: no order-sensitive walk over a set in the modules that feed the writer (sorted/min/max wrappers, or bodies with only set updates and diagnostics; one reviewed exception); every emitting loop of GIRWriter iterates sorted(...) or a reviewed order-carrying list and the namespace is written aliases-first in sorted order; comma-joined attributes come from lists; no hash/id/random/time/unsorted listings; cache hit/miss controls only parse+store, included namespaces are registered in sorted order, cache freshness uses full-resolution mtimes; the first compound seen for a C tag stays in the tag namespace.',
         'NOT decided (not applicable): that permuting comment blocks, source files or declarations yields the same model (behavioural; duplicate comment blocks for one identifier are last-wins by documented design). Trusted: CPython ast.',
         '§4 C16'),
 'C05': ('guarded-effect tables (control dependence of every demotion store and warning), return-row queries on the type predicate, registered-pass coverage and round count, both-sides pairing rules',
         'Decides for every namespace the structural necessary conditions: each unbindable clause (unresolved, varargs, untyped list/array elements, callback without scope, callback return, owned bare struct, missing transfer) has a demoting row and every parameter warning is paired with the demotion; aliases are looked through; the type predicate rejects unresolved/unknown/va_list/long long/long double/missing or hidden targets and recurses into containers; aliases, parameters, returns, fields, embedded callbacks, properties and signals each have a demoting site in a registered pass and propagation runs twice; property accessors are recorded and cleared on both sides together, the emitter is compared pairwise, index and type names go through raising lookups.',
         'Not decided: that type resolution finds the right definition for a given input; transitive include introspectability; propagation chains deeper than the registered rounds. Trusted: CPython ast.',
         '§4 C05'),
 'C03': ('table closure docs->parser vocabulary->consumption (def-use from annotation lookup to attribute store)->symbolic writer table; def-use provenance of every block lookup key; guarded-effect queries for pairing and explicit-beats-heuristic rules',
         'Decides for every comment block the structural necessary conditions: every documented identifier annotation is accepted, consumed, stored into the documented model attribute and written under the documented XML key (19 annotation chains, 3 value tags with their doc elements, skip, attributes, constructor/method roles); each of the 14 block lookups builds its key only from the node being annotated with the separators the comment parser uses, and prefers the C name over the GType name; rename-to stores shadows/shadowed-by together, crossing, guarded on the target; heuristics never overwrite explicit sync/finish annotations (sibling agreement).',
         'Not decided: which of several competing rename-to annotations wins for a given input, constructor/method eligibility (C04). Trusted: CPython ast; the CHAIN/TAGS oracle tables in gilint/props/c03.py (from the property text).',
         '§4 C03'),
 'C02': ('module-level table reconstruction (folding ast.py), exhaustive finite-domain evaluation of the transfer-default functions, guarded-effect queries for callable roles, recursion-shape rule for pointer canonicalisation',
         'Decides for every un-annotated API the structural necessary conditions: the C spelling table maps stdint, signed/unsigned spellings and GLib aliases consistently and contains the documented semantic entries (char* utf8, void* gpointer, _Bool gboolean, returned char** array of utf8); pointer canonicalisation peels one level per step; transfer defaults equal the documented ones for every direction x caller-allocates and for every fundamental type x const (exhaustive, 95 valuations); trailing GError** is popped and throws set together; callback, *data and destroy-notify roles; async scope; untyped pointers nullable; the original spelling is kept as c:type.',
         'Not decided: canonicalisation results on arbitrary spellings and typedef chains, positions (value-level). Trusted: CPython ast; documented defaults encoded as the oracle in gilint/props/c02.py.',
         '§4 C02'),
 'C01': ('table closure (reST docs, parser vocabulary, call-graph consumption), guarded-effect tables (control dependence of every store and warning) queried for the documented rows, CFG reachability for the (not) override, symbolic writer table for the emission mapping',
         'Decides for every callable the structural necessary conditions: every documented parameter/return annotation is accepted and consumed; each annotation stores the documented model attribute under its validity guard (direction, caller-allocates, nullable/optional/not, skip, attributes, transfer incl. floating->none, array length/fixed-size/zero-terminated, length parameter follows the array direction, scope/closure/destroy, type/element-type); nothing stores nullable after the (not) block; every invalid annotation reaches a warning and no store; the writer emits each attribute under the documented XML key and computes indices only through raising lookups on the same parent; zero-terminated is explicit whenever the reader default would differ.',
         'Not decided: results of type resolution for (type)/(element-type) strings, interaction of passes, anything depending on the concrete C type. Trusted: CPython ast; the oracle rows in gilint/props/c01.py (taken from the property text and giannotations.rst).',
         '§4 C01'),
 'C12': ('producer/consumer table comparison: printf fragments of gdump.c (clang AST, with guards and argument types) vs tag-flow model of gdumpparser.py reads; argument-binding swap lint; guard-shape rules',
         'Decides for every dump: each attribute gdumpparser reads with [] is written unconditionally by gdump.c and everything written is read (or reviewed); G_PARAM_* equal GLib ABI values, each property flag is an independent bit test reaching the like-named Property argument; signal flags and run phases agree by name with the GLib flag guarding them in gdump.c; integers are printed with the signedness of their C type; boxed and pointer types pair with records and unions alike; class and class struct are linked both ways; get-type functions of registered types are removed; the parent chain is kept whole and walked to the first resolvable parent; vfuncs only where the first parameter is the instance.',
         'Not decided: any concrete merge, default-value text, type resolution of dumped names. Trusted: clang-14, stub GObject types (GEnumValue.value gint, GFlagsValue.value guint as in GLib), CPython ast.',
         '§4 C12'),
 'C08': ('clang AST statement-order and table rules over the layout algorithm (align/record/advance/tail-pad), failure propagation, tag->ffi type tables',
         'Decides only what is in the source: the struct layout loop aligns to the member, records the offset, then advances, and pads the tail; unions take maxima and pad the tail; GI_ALIGN is the power-of-two round-up; a failing member yields -1/-1 and 0xFFFF offsets; every type tag maps to the ffi type of its width and signedness (exhaustive over the tables); fixed-size arrays in fields are embedded and sized count*element; callbacks are pointers.',
         'NOT decided (not applicable to static analysis): equality with the numbers gcc/libffi produce on this platform, enum width thresholds (indistinguishable on this ABI). Trusted: clang-14, stub GLib/ffi headers.',
         '§4 C08'),
 'C06': ('clang AST sibling cross-checks (three switches), struct-field coverage of the writer, name-provenance lint with reviewed renames, compiler-evaluated sizeof comparison, de-duplication key coverage per type tag, 3-valued decoding tables of girparser.c',
         'Decides structural necessary conditions for every GIR: size, full-size and build switches agree per node kind and every written string is sized; all ~285 fields of the 26 blob/header structs are assigned (or reviewed: padding zeroed by g_malloc0, nested blobs, overlays); 91 blob<-node assignments are like-named or reviewed renames; header sizes, validator and CHECK_SIZE literals equal clang\'s sizeof; the type de-duplication key depends on every node field the type blob stores (per tag); boolean attributes decode "1"->set "0"->clear with consistent defaults and the zero-terminated default is !(length||fixed-size); the index buffer is fully cleared; the validator accepts class prerequisites.',
         'NOT decided (not applicable): the bytes of a concrete typelib, offsets inside the file, 16-bit limits, g_typelib_validate as a whole. Trusted: clang-14 record layout (x86-64) and constant evaluation; stub GLib headers; tables RENAMES/UNWRITTEN_OK in gilint/props/c06.py.',
         '§4 C06'),
 'C15': ('three-way static comparison: symbolic writer table (Python) x 3-valued decoding tables of girparser.c (clang AST) x RELAX-NG schema reader',
         'Decides for every namespace the producer/consumer agreement: each element the scanner can emit is handled by girparser.c; embedded callbacks only where start_function accepts them (union/interface: known finding F6); for every boolean attribute the writer\'s emission rule composed with the C decoding is the identity on the flag (exhaustive over absent/0/1); zero-terminated is explicit exactly when the C default would differ; every enumerated value written is recognised by the C strcmp chain; attributes with a typelib bit are fetched; writer vocabulary and nesting lie within docs/gir-1.2.rnc (reviewed exceptions listed).',
         'Not decided: dependency resolution, warnings on concrete files, the parser state machine as a whole, introspectable=0 propagation (C05). Trusted: clang-14, stub GLib headers, the rnc subset reader.',
         '§4 C15'),
 'C09': ('clang AST: writer section order extracted from the layout switch, accessor offsets normalised to polynomials and compared with the derived prefix sums; name/record-type agreement of count accessors; loop-condition and comparator rules for the attribute table',
         'Decides for every typelib the structural necessary conditions: all 23 offset computations of the object/interface/struct/union/enum accessors equal base + preceding sections + n*element size as laid out by the compiler (interface padding and embedded field callbacks included, exhaustive over the accessors); field walkers step over embedded callbacks and plain products are used only where girparser.c cannot embed a callback; count accessors return the like-named member of the right blob; attribute lookup uses the sort key of the writer and rewinds with >=; g-ir-generate writes closure/destroy for every index >= 0.',
         'Not decided (not applicable): results on concrete typelibs, type decoding, the rest of g-ir-generate. Trusted: clang-14, stub GLib headers.',
         '§4 C09'),
 'C14': ('clang AST rules: control dependence of non-NULL returns on strcmp, clamp-before-index ordering, builder/search layout and count-field agreement, integer-width lint on size variables, unconditional cache invalidation',
         'Decides the structural necessary conditions for every typelib: each non-NULL result of the three directory lookups is control-dependent on strcmp(key, that entry\'s string) == 0 in both the indexed and the linear branch; the hash value is clamped with >= n_entries before indexing; builder and search agree on layout and both count Header.n_local_entries; no size/offset lives in fewer than 32 bits; registration always clears the negative GType cache; repository finders use these lookups.',
         'Not decided (not applicable): perfectness of the CMPH function (vendored library), behaviour on huge key sets, concrete typelibs. Trusted: clang-14, stub GLib headers.',
         '§4 C14'),
 'C17': ('clang AST rules: exhaustive evaluation of the two comparators over all operand orderings, guard-chain (control dependence) rules for acceptance, loop-shape and who-precedes rules for search order and dependency loading, producer/consumer separator agreement',
         'Decides for every call history the structural necessary conditions: version comparison is lexicographic on (major, minor) and candidate election is newest-first then earliest-directory (exhaustive over the 9+9 orderings, comparison-only code); success in require_internal is control-dependent on file found, namespace match, version match and registration; conflict and not-found error codes; forward first-hit search, unconditional prepend, first directory wins among equal versions; every recorded dependency is required unconditionally at the version after the last dash; the compiler joins dependencies with the separator the loader splits on.',
         'Not decided (not applicable): what concrete directories contain, which files map successfully, histories of calls. Trusted: clang-14 parser; stub GLib headers (only shapes of types/macros; g_assert does not return when false).',
         '§4 C17'),
 'C07': ('symbolic interpretation of the writer into an element/attribute table, tag-flow analysis of the reader, finite-domain composition of emission and decoding tables',
         'Decides for every input, at element/attribute level: each attribute and child the writer can emit is read for that element (605 pairs); for 20 element kinds the writer\'s emission table composed with the reader\'s decoding (constructor bodies and stores, evaluated as expression trees over finite abstract domains) is a fixed point W(R(W(m)))=W(m) for every realisable valuation (exhaustive); namespace-relative names are stripped/qualified by the same rule; sibling order is sorted or order-carrying; values reach the text only through the stdlib escaping functions.',
         'Not decided: byte identity for arbitrary documentation text and positions, numeric re-formatting, nested type structure, indices (closure/destroy/length are carried through opaquely). Assumes types without transfer are not const-qualified and registered types have a get_type (reviewed). Trusted: CPython ast; tables KINDS/DERIVED in gilint/props/c07.py.',
         '§4 C07'),
 'C10': ('AST rule checking of serialiser/parser token agreement + regex automaton equivalence for line breaks + folded vocabulary tables',
         'Decides only the structural clauses: serialiser and parser agree on every token (separators, first-"=" split, names only lower-cased, parentheses, @name:, Tag:), CRLF/CR/LF are normalised before splitting (language equivalence), vocabulary tables are mutually consistent, accepted by TAG_RE and equal to the ast constants written to the GIR.',
         'NOT decided (not applicable to static analysis): layout independence, multi-line continuation, exact recovery of descriptions, the write/parse round trip as a whole. Trusted: CPython ast and re._parser.',
         '§4 C10'),
 'C11': ('reaching definitions over a hand-built CFG + regex automaton universality + coordinate-frame typing + dominance rules',
         'Decides for all inputs: every group reference exists in every pattern that can reach it; every match dereference is dominated by a truth test of the same match or the pattern is total on lines (automaton universality, exhaustive); every valid annotation has a validator and is known to the option parser; catch-all around each block; caret column and quoted line share a coordinate frame outside the deprecated tag branch; positions survive copies; every diagnostic is counted before suppression and warnings-as-errors consults the count; malformed annotation fields are all-or-nothing.',
         'Not decided: "never raises" beyond the enumerated raise sources (AttributeError on None match, IndexError on groups, missing validator, TypeError on option-less annotations); caret-within-line for arbitrary text. Trusted: CPython ast, re._parser; lines contain no newline (they come from split on newline).',
         '§4 C11'),
 'C18': ('AST/CFG pairing and ordering rules: temp-file-then-move, fstat-on-open-descriptor, handler breadth, purge-dominates-stamp, who-may-write, mode/cache pairing',
         'Decides the structural necessary conditions for every schedule and crash point: entries and stamp are only ever published by moving a closed temp file; freshness is decided on the descriptor that is unpickled with full-resolution mtimes and older-than-source rejected; any unpickling exception discards the entry; purge dominates publishing a new version stamp; cache hit/miss controls only parse+store and the cache is disabled when the parse mode differs.',
         'Not decided: actual interleavings, crash points, mtime granularity of the file system, cross-device move semantics (a torn copy is left to the unpickling failure rule). Trusted: rename atomicity of shutil.move on one file system.',
         '§4 C18'),
 'C19': ('regex automaton language equivalence (name symbolic) + AST path rules for the matching loop and failure',
         'The ldd pattern is compared for language equivalence with the rule stated in the property over all words (exhaustive, library name as opaque symbol); structural rules decide header-line skip, first-match-wins, one file per request, base-name reporting, SystemExit on any unresolved name, no swallowing handler, libtool dlname pattern.',
         'Not decided: loader output conventions (ldd/otool formats). Trusted: CPython re._parser, the homomorphism argument of DESIGN.md §4 C19.',
         '§4 C19'),
 'C20': ('taint-style AST rules (value -> stdlib quoteattr/escape -> sink), CFG ordering in push_tag, who-may-call over giscanner',
         'Decides for all inputs the escaping discipline (attribute values only through xml.sax.saxutils.quoteattr, text only through escape, untransformed, single sink), sibling None-skips, whitespace-only wrapping, exception-atomic element stack with try/finally pairing and no outside callers, utf-8 agreement.',
         'Not decided: element/attribute names that are not XML names, "--" inside comments. Trusted: xml.sax.saxutils semantics.',
         '§4 C20'),
 # id: (technique, level text, level_note, design_ref)
 'C13': ('AST rule checking: guard/modulus agreement, argument-binding and def-use of Member/Constant construction, writer loop order',
         'Decides from the source, for every input, the structural necessary conditions: each fixed-width unsigned wrap uses its own width; members are built from (ident, const_int) verbatim in declaration order and written unsorted; bitfield routing; constant typing rows. Exhaustive over the finite set of rule instances.',
         'Not decided: _enum_common_prefix results on arbitrary member names (value-level). Trusted: CPython ast; rule tables in gilint/props/c13.py.',
         '§4 C13'),
}

NOT_APPLICABLE = {
}

ALL = ['C%02d' % i for i in range(1, 21)]

def main():
    checks = []
    for pid in ALL:
        if pid not in CLAIMED:
            continue
        tech, text, note, ref = CLAIMED[pid]
        checks.append({
            'property_id': pid,
            'quick_cmd': '/venv/bin/python -m gilint %s --tier quick' % pid,
            'thorough_cmd': '/venv/bin/python -m gilint %s --tier thorough' % pid,
            'evidence_file': '/verif/evidence/%s.json' % pid,
            'replay_cmd_template': '/venv/bin/python -m gilint %s --tier thorough  # findings listed in {path}' % pid,
            'engine': 'gilint',
            'level_claimed': {'category': 'other', 'text': text, 'design_ref': 'DESIGN.md ' + ref},
            'level_note': note,
            'technique': 'static analysis: ' + tech + '; rules are queries on gated effect summaries of the resolved functions (gsa.py / cgsa.py: helpers inlined, locals copy-propagated, conditions as formulas over canonical atoms, feasibility by case split - no execution, no solver), see DESIGN.md §3',
        })
    na = []
    for pid in ALL:
        if pid in CLAIMED:
            continue
        na.append({'property_id': pid, 'reason': NOT_APPLICABLE.get(pid, 'checker not built yet (static rules designed in DESIGN.md §4; not claimed until armed)')})
    m = {
        'version': 1,
        'setup_cmd': '/venv/bin/python -c "import ast, json, sys; sys.exit(0)" && (command -v clang >/dev/null || command -v clang-14 >/dev/null)',
        'hooks': {'guard': 'GI_VERIF_HOOKS', 'enable': 'none needed: every check is a static analysis of /repo\'s working tree (no hooks, no instrumentation)',
                  'baseline_off_cmd': 'cd /repo && /venv/bin/python -m pytest -ra -q -p no:cacheprovider --timeout=900 --continue-on-collection-errors',
                  'source_commits': [], 'add_only': True},
        'engines': [{'name': 'gilint', 'path': '/verif/gilint', 'serves_properties': sorted(CLAIMED),
                     'kind_free_text': 'repository-specific static analysis: gated effect summaries for Python and C (gsa/cgsa), string-shape fragments (strfrag), Python ast + constant folder + guard chains/CFG (E-py), clang-14 JSON AST over stub GLib headers (E-c), regex automata (E-rx), in-repo tables (rst / rnc)'}],
        'checks': checks,
        'not_applicable': na,
        'notes': 'Exit codes: 0 held, 1 VIOLATION, 2 ANALYSIS-ERROR (anchor vanished / unrecognised shape / instance floor not met). known_findings.json lists genuine defects (known/fixed).',
    }
    with open(os.path.join(HERE, 'MANIFEST.json'), 'w') as f:
        json.dump(m, f, indent=1)
    print('checks=%d not_applicable=%d' % (len(checks), len(na)))

if __name__ == '__main__':
    main()
