#!/usr/bin/env python3
"""Summarise a tools/benigntest.py --out JSON into benign/RESULTS.txt (committed record of the last full run)."""
import json, sys, os, collections
res = []
for a_ in sys.argv[1:]:
    res.extend(json.load(open(a_)))   # several runs may be concatenated (e.g. rounds 1-4 and round 5)
HERE = os.path.dirname(os.path.dirname(os.path.abspath(__file__)))
lines = ['Last full run of all 20 checks on every behaviour-preserving patch under benign/ (tools/benigntest.py).',
         'A patch counts as an alarm when any check exits non-zero on the patched tree (1 = VIOLATION, 2 = ANALYSIS-ERROR).', '']
by_round = collections.defaultdict(lambda: [0, 0])
alarms = []
for r in res:
    v = r['variant']
    n = int(v.split('/b')[1])
    rd = 1 if n <= 5 else 2 if n <= 9 else 3 if n <= 13 else 4 if n <= 17 else 5
    by_round[rd][0] += 1
    if r.get('error'):
        alarms.append('%-10s ERROR %s' % (v, r['error'][:120])); by_round[rd][1] += 1
    elif r['alarms']:
        by_round[rd][1] += 1
        for p, ls in sorted(r['alarms'].items()):
            alarms.append('%-10s %s: %s' % (v, p, (ls[0] if ls else '')[:220]))
for rd in sorted(by_round):
    lines.append('round %d: %d patches, %d with an alarm' % (rd, by_round[rd][0], by_round[rd][1]))
lines.append('')
lines.extend(alarms or ['no alarms'])
open(os.path.join(HERE, 'benign', 'RESULTS.txt'), 'w').write('\n'.join(lines) + '\n')
print('\n'.join(lines[:12]))
