"""F9: enum members that share no leading word are named by chopping one character instead of the namespace prefix."""
import sys, types
sys.path.insert(0, sys.argv[1])
fake = types.ModuleType('giscanner._giscanner')
class SourceScanner: pass
fake.SourceScanner = SourceScanner
sys.modules['giscanner._giscanner'] = fake
from giscanner import ast
from giscanner.transformer import Transformer
ns = ast.Namespace('Foo', '1.0', identifier_prefixes=['Foo'], symbol_prefixes=['foo'])
t = Transformer(ns)
class Child:
    def __init__(s, ident, v): s.ident=ident; s.const_int=v; s.private=False; s.type=0; s.source_filename='foo.h'; s.line=1
class BT:
    child_list=[Child('FOO_ALPHA', 0), Child('BAR_BETA', 1)]; is_bitfield=False
class Sym:
    ident='FooMixed'; base_type=BT(); type=0; source_filename='foo.h'; line=1
prefix = t._enum_common_prefix(Sym())
print('common prefix:', repr(prefix))
sys.exit(0 if not prefix else 1)
