#!/usr/bin/env python
"""F3 demonstration (C14): directory index for a namespace with 30000 entries. Adapted from the C06/v3 harness.

ORIGINAL DOC: C06 / v3 demonstration  ("compiling the same GIR twice gives identical bytes").

The last thing _g_ir_module_build_typelib() does is append the directory-index
section: add_directory_index_section() (girmodule.c) rounds the size reported by the
hash builder up to a multiple of 4, g_realloc()s the typelib image to make room and
asks _gi_typelib_hash_builder_pack() (gthash.c) to fill those `required_size` bytes.
The bytes handed back by g_realloc() beyond the old size are indeterminate, so every
one of them must be written by pack() - otherwise whatever the allocator left there
(stale heap data, free-list pointers that move with ASLR) is copied verbatim into the
.typelib file and two compilations of the same GIR need not be byte-identical.

This program builds, from the tree under test and WITHOUT modification:
  * girepository/gthash.c            (whole file, verbatim copy)
  * girepository/cmph/*.c            (the real vendored perfect-hash library)
  * alloc_section() and add_directory_index_section(), extracted textually from
    girepository/girmodule.c
against a ~100 line stand-in for the handful of GLib things they use.  The stand-in
g_realloc() fills the newly exposed tail with a configurable "heap residue" byte.
For namespaces with 1..12 local entries it builds the same typelib image twice, with
residue 0x00 and residue 0xA5, and requires (a) the index to resolve every name and
(b) the two images to be identical over all header->size bytes.

exit 0 = property holds, non-zero = broken.
usage: demo.py <path-to-tree>
"""
import os
import shutil
import subprocess
import sys
import tempfile

CMPH_SOURCES = ['bdz', 'bdz_ph', 'bmz8', 'bmz', 'brz', 'buffer_entry', 'buffer_manager',
                'chd', 'chd_ph', 'chm', 'cmph', 'cmph_structs', 'compressed_rank',
                'compressed_seq', 'fch_buckets', 'fch', 'graph', 'hash', 'jenkins_hash',
                'miller_rabin', 'select', 'vqueue', 'vstack']

GLIB_H = r'''
#pragma once
#include <stdint.h>
#include <stdio.h>
#include <stdlib.h>
#include <string.h>
typedef int8_t gint8; typedef uint8_t guint8; typedef int16_t gint16; typedef uint16_t guint16;
typedef int32_t gint32; typedef uint32_t guint32; typedef int64_t gint64; typedef uint64_t guint64;
typedef int gint; typedef unsigned int guint; typedef int gboolean; typedef char gchar;
typedef void *gpointer; typedef const void *gconstpointer; typedef size_t gsize;
#define TRUE 1
#define FALSE 0
#define G_GNUC_UNUSED __attribute__((unused))
#define GUINT_TO_POINTER(u) ((gpointer) (uintptr_t) (u))
#define GPOINTER_TO_UINT(p) ((guint) (uintptr_t) (p))
#define g_assert(e) do { if (!(e)) { fprintf (stderr, "assertion failed: %s\n", #e); abort (); } } while (0)
#define g_assert_not_reached() abort ()
#define g_return_if_fail(e) do { if (!(e)) return; } while (0)
#define g_return_val_if_fail(e, v) do { if (!(e)) return (v); } while (0)
#define g_new(T, n) ((T *) malloc (sizeof (T) * (n)))
#define g_slice_new0(T) ((T *) calloc (1, sizeof (T)))
#define g_slice_free(T, p) free (p)
#define g_free free
#define g_strdup strdup

/* insertion-ordered string->pointer table: enough for gthash.c */
typedef struct { char *keys[70000]; gpointer values[70000]; guint n; } GHashTable;
typedef struct { GHashTable *t; guint pos; } GHashTableIter;
#define g_str_hash NULL
#define g_str_equal NULL
static inline GHashTable *g_hash_table_new_full (void *h, void *e, void *kf, void *vf)
{ return calloc (1, sizeof (GHashTable)); }
static inline void g_hash_table_insert (GHashTable *t, gpointer key, gpointer value)
{
  guint i;
  (void) i;
  t->keys[t->n] = key; t->values[t->n] = value; t->n++;
}
static inline guint g_hash_table_size (GHashTable *t) { return t->n; }
static inline void g_hash_table_iter_init (GHashTableIter *it, GHashTable *t) { it->t = t; it->pos = 0; }
static inline gboolean g_hash_table_iter_next (GHashTableIter *it, gpointer *k, gpointer *v)
{
  if (it->pos >= it->t->n) return FALSE;
  *k = it->t->keys[it->pos]; *v = it->t->values[it->pos]; it->pos++;
  return TRUE;
}
static inline void g_hash_table_destroy (GHashTable *t)
{ guint i; for (i = 0; i < t->n; i++) free (t->keys[i]); free (t); }

gpointer g_realloc (gpointer mem, gsize n_bytes);   /* provided by driver.c */
'''

# the parts of gitypelib-internal.h that gthash.c and the two girmodule.c functions need
INTERNAL_H = r'''
#pragma once
#include <glib.h>
typedef struct _GITypelibHashBuilder GITypelibHashBuilder;
GITypelibHashBuilder * _gi_typelib_hash_builder_new (void);
void _gi_typelib_hash_builder_add_string (GITypelibHashBuilder *builder, const char *str, guint16 value);
gboolean _gi_typelib_hash_builder_prepare (GITypelibHashBuilder *builder);
guint32 _gi_typelib_hash_builder_get_buffer_size (GITypelibHashBuilder *builder);
void _gi_typelib_hash_builder_pack (GITypelibHashBuilder *builder, guint8* mem, guint32 size);
void _gi_typelib_hash_builder_destroy (GITypelibHashBuilder *builder);
guint16 _gi_typelib_hash_search (guint8* memory, const char *str, guint n_entries);

typedef enum { GI_SECTION_END = 0, GI_SECTION_DIRECTORY_INDEX = 1 } SectionType;
typedef struct { guint32 id; guint32 offset; } Section;
typedef struct { guint16 blob_type; guint16 local : 1; guint16 reserved : 15; guint32 name; guint32 offset; } DirEntry;
typedef struct {   /* only the members used here; layout is irrelevant for this check */
  guint16 n_entries; guint16 n_local_entries; guint32 directory; guint32 size;
  guint16 entry_blob_size; guint32 sections;
} Header;
'''

DRIVER_HEAD = r'''
#include <glib.h>
#include "gitypelib-internal.h"

typedef struct { int dummy; } GIrModule;

/* g_realloc stand-in: like realloc(), but the content of the newly exposed tail is
 * a chosen "heap residue" instead of whatever the allocator happens to leave there */
static unsigned char heap_residue = 0;
static gsize cur_size = 0;
gpointer g_realloc (gpointer mem, gsize n_bytes)
{
  unsigned char *n = malloc (n_bytes);
  memset (n, heap_residue, n_bytes);
  memcpy (n, mem, cur_size < n_bytes ? cur_size : n_bytes);
  free (mem);
  cur_size = n_bytes;
  return n;
}
'''

DRIVER_MAIN = r'''
/* a minimal image as _g_ir_module_build_typelib() has it just before the call:
 * header, section table, directory with n local entries, entry names */
static guint8 *build_image (guint n, unsigned char residue, guint32 *size_out)
{
  guint32 offset2, i;
  guint8 *data;
  Header *header;
  gsize size = sizeof (Header) + NUM_SECTIONS * sizeof (Section) + n * sizeof (DirEntry) + n * 12;

  srand (1);                         /* every build is a fresh process: cmph draws its seeds from rand() */
  heap_residue = residue;
  data = calloc (1, size);           /* g_malloc0 */
  cur_size = size;
  header = (Header *) data;
  header->n_entries = header->n_local_entries = n;
  header->entry_blob_size = sizeof (DirEntry);
  header->sections = ALIGN_VALUE (sizeof (Header), 4);
  header->directory = header->sections + NUM_SECTIONS * sizeof (Section);
  offset2 = header->directory + n * sizeof (DirEntry);
  for (i = 0; i < n; i++)
    {
      DirEntry *e = (DirEntry *) &data[header->directory + i * sizeof (DirEntry)];
      e->local = 1; e->name = offset2;
      sprintf ((char *) &data[offset2], "Entry%u", i);
      offset2 += 12;
    }
  data = add_directory_index_section (data, NULL, &offset2);
  ((Header *) data)->size = offset2;
  *size_out = offset2;
  return data;
}

int main (int argc, char **argv)
{
  guint n = 30000;   /* well inside the 1..65535 entries a typelib directory can hold */
  guint32 size_a, i, section = 0; int lookup_ok = 1;
  guint8 *a = build_image (n, 0x00, &size_a);
  Header *h = (Header *) a;
  Section *s = (Section *) &a[h->sections];
  for (i = 0; i < NUM_SECTIONS; i++)
    if (s[i].id == GI_SECTION_DIRECTORY_INDEX) section = s[i].offset;
  if (!section) { printf ("no index section\n"); return 2; }
  for (i = 0; i < n; i++)
    {
      char name[16]; sprintf (name, "Entry%u", i);
      if (_gi_typelib_hash_search (&a[section], name, n) != i) lookup_ok = 0;
    }
  printf ("n=%u size=%u every entry found through the index: %s\n", n, size_a, lookup_ok ? "yes" : "NO");
  return lookup_ok ? 0 : 1;
}
'''


def extract_function(lines, name_prefix):
    for i, line in enumerate(lines):
        if line.startswith(name_prefix):
            for j in range(i, len(lines)):
                if lines[j] == '}':
                    return '\n'.join(lines[i - 1:j + 1])
    raise SystemExit('cannot find %r in girmodule.c' % name_prefix)


def main():
    if len(sys.argv) != 2:
        raise SystemExit(__doc__)
    tree = os.path.abspath(sys.argv[1])
    girepo = os.path.join(tree, 'girepository')
    with open(os.path.join(girepo, 'girmodule.c')) as f:
        src = f.read()
    lines = src.split('\n')
    # macros as defined at the top of girmodule.c
    macros = []
    for i, line in enumerate(lines):
        if line.startswith('#define ALIGN_VALUE'):
            macros.append(line)
            k = i
            while lines[k].endswith('\\'):
                k += 1
                macros.append(lines[k])
        if line.startswith('#define NUM_SECTIONS'):
            macros.append(line)
    funcs = [extract_function(lines, 'alloc_section ('),
             extract_function(lines, 'add_directory_index_section (')]

    with tempfile.TemporaryDirectory() as tmp:
        with open(os.path.join(tmp, 'glib.h'), 'w') as f:
            f.write(GLIB_H)
        with open(os.path.join(tmp, 'glib-object.h'), 'w') as f:
            f.write('#pragma once\n#include <glib.h>\n')
        with open(os.path.join(tmp, 'gitypelib-internal.h'), 'w') as f:
            f.write(INTERNAL_H)
        # verbatim copy, so that its "gitypelib-internal.h" resolves to the stand-in
        shutil.copy(os.path.join(girepo, 'gthash.c'), os.path.join(tmp, 'gthash.c'))
        with open(os.path.join(tmp, 'driver.c'), 'w') as f:
            f.write(DRIVER_HEAD + '\n' + '\n'.join(macros) + '\n\n' + '\n\n'.join(funcs) + '\n' + DRIVER_MAIN)
        exe = os.path.join(tmp, 'harness')
        cmd = ['cc', '-w', '-O0', '-I', tmp, '-I', girepo, '-o', exe,
               os.path.join(tmp, 'driver.c'), os.path.join(tmp, 'gthash.c')]
        cmd += [os.path.join(girepo, 'cmph', s + '.c') for s in CMPH_SOURCES]
        cmd += ['-lm']
        subprocess.check_call(cmd)
        rc = subprocess.call([exe])
    print('RESULT:', 'property holds' if rc == 0 else 'property BROKEN')
    sys.exit(0 if rc == 0 else 1)


if __name__ == '__main__':
    main()
