"""F7: (copy-func)/(free-func) without option makes parse_comment_block raise; F8: diagnostics for annotations continued on a second line have no file/line."""
import sys, types, io
tree = sys.argv[1]
sys.path.insert(0, tree)
sys.modules['giscanner._giscanner'] = types.ModuleType('giscanner._giscanner')
from giscanner import message
from giscanner.annotationparser import GtkDocCommentBlockParser
out = io.StringIO()
logger = message.MessageLogger.get(namespace=None, output=out)
logger.enable_warnings(True)
p = GtkDocCommentBlockParser()
rc = 0
# F7
try:
    b = p.parse_comment_block('/**\n * FooBar: (copy-func)\n */', 'foo.h', 10)
    print('F7 ok, block parsed:', b.name)
except Exception as e:
    print('F7 BROKEN: parse_comment_block raised', type(e).__name__, e); rc |= 1
# F8
out.seek(0); out.truncate()
b = p.parse_comment_block('/**\n * foo_bar:\n * @p: (transfer full)\n *   (nullable bogus)\n *\n * Desc.\n */', 'foo.h', 20)
txt = out.getvalue()
print(txt.strip())
if '<unknown>' in txt or 'foo.h' not in txt:
    print('F8 BROKEN: diagnostic does not name file and line'); rc |= 2
sys.exit(rc)
