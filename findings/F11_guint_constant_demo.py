import sys, types
sys.path.insert(0, sys.argv[1])
fake = types.ModuleType('giscanner._giscanner')
class SourceScanner: pass
fake.SourceScanner = SourceScanner
sys.modules['giscanner._giscanner'] = fake
from giscanner import ast
from giscanner.transformer import Transformer
class BT:  # guint8 typedef
    def __init__(self): self.type=None
ns = ast.Namespace('Foo','1.0', identifier_prefixes=['Foo'], symbol_prefixes=['foo'])
t = Transformer(ns)
class Sym:
    ident='FOO_X'; source_filename='foo.h'; const_string=None; const_int=-1; const_boolean=None; const_double=None; base_type=object(); line=1; type=0; source_filename='foo.h'
t._create_type_from_base = lambda bt: ast.Type(target_fundamental=sys.argv[2], ctype=sys.argv[2])
c = t._create_const(Sym())
print(c.value_type, c.value)
sys.exit(0 if int(c.value) >= 0 else 1)
