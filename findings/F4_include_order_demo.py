"""F4: the order in which included namespaces are registered follows the iteration order of a set of Include objects
(string hashes, PYTHONHASHSEED dependent); with two dependencies defining the same C type the emitted GIR differs from run to run."""
import os, subprocess, sys, tempfile
tree = os.path.abspath(sys.argv[1])
CHILD = r'''
import sys, types, os
sys.path.insert(0, %(tree)r)
fake = types.ModuleType('giscanner._giscanner')
class SourceScanner: pass
fake.SourceScanner = SourceScanner
sys.modules['giscanner._giscanner'] = fake
os.environ['GI_SCANNER_DISABLE_CACHE'] = '1'
import builtins; builtins.GIR_DIR = '/nonexistent'; builtins.DATADIR = '/nonexistent'
from giscanner import ast, message
from giscanner.transformer import Transformer
ns = ast.Namespace('Main', '1.0', identifier_prefixes=['Main'], symbol_prefixes=['main'])
message.MessageLogger.get(namespace=ns)
t = Transformer(ns)
t.set_include_paths([%(d)r])
t.register_include(ast.Include('Umbrella', '1.0'))
typ = t.create_type_from_ctype_string('XThing*')
t.resolve_type(typ)
print(typ.target_giname)
'''
def gir(name, includes, body):
    inc = ''.join('<include name="%s" version="1.0"/>' % i for i in includes)
    return ('<?xml version="1.0"?><repository version="1.2" xmlns="http://www.gtk.org/introspection/core/1.0" '
            'xmlns:c="http://www.gtk.org/introspection/c/1.0" xmlns:glib="http://www.gtk.org/introspection/glib/1.0">%s'
            '<namespace name="%s" version="1.0" c:identifier-prefixes="X" c:symbol-prefixes="x">%s</namespace></repository>' % (inc, name, body))
with tempfile.TemporaryDirectory() as d:
    rec = '<record name="Thing" c:type="XThing"/>'
    for n in ('Alpha', 'Beta', 'Gamma', 'Delta'):
        open(os.path.join(d, n + '-1.0.gir'), 'w').write(gir(n, [], rec))
    open(os.path.join(d, 'Umbrella-1.0.gir'), 'w').write(gir('Umbrella', ['Alpha', 'Beta', 'Gamma', 'Delta'], ''))
    seen = set()
    for seed in range(8):
        env = dict(os.environ, PYTHONHASHSEED=str(seed))
        out = subprocess.run([sys.executable, '-c', CHILD % {'tree': tree, 'd': d}], env=env, stdout=subprocess.PIPE, stderr=subprocess.PIPE, universal_newlines=True)
        seen.add(out.stdout.strip() or out.stderr.strip()[-200:])
    print('resolutions of XThing* over 8 hash seeds:', sorted(seen))
    sys.exit(0 if len(seen) == 1 else 1)
