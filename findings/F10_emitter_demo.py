"""F10: (emitter) on a signal with parameters: the consistency check indexes one past the method's parameters and its type test is inverted."""
import sys, types
sys.path.insert(0, sys.argv[1])
fake = types.ModuleType('giscanner._giscanner')
class SourceScanner: pass
fake.SourceScanner = SourceScanner
sys.modules['giscanner._giscanner'] = fake
from giscanner import ast, message
from giscanner.transformer import Transformer
from giscanner.introspectablepass import IntrospectablePass
ns = ast.Namespace('Foo', '1.0', identifier_prefixes=['Foo'], symbol_prefixes=['foo'])
message.MessageLogger.get(namespace=ns)
t = Transformer(ns); t.disable_cache()
def gint(): return ast.Type(target_fundamental='gint', ctype='gint')
def none(): return ast.Type(target_fundamental='none', ctype='void')
cls = ast.Class('Obj', None, gtype_name='FooObj', get_type='foo_obj_get_type', c_symbol_prefix='obj', ctype='FooObj')
inst = ast.Parameter('self', ast.Type(target_giname='Foo.Obj', ctype='FooObj*'), transfer='none')
m = ast.Function('frob', ast.Return(none(), transfer='none'), [ast.Parameter('x', gint(), transfer='none')], False, 'foo_obj_frob')
m.is_method = True; m.instance_parameter = inst
cls.methods.append(m)
sig = ast.Signal('frob', ast.Return(none(), transfer='none'), [ast.Parameter('x', gint(), transfer='none')])
sig.emitter = 'frob'
cls.signals.append(sig)
ns.append(cls)
rc = 0
try:
    IntrospectablePass(t, {}).validate()
except Exception as e:
    print('BROKEN: IntrospectablePass raised', type(e).__name__, e); rc = 1
print('emitter after the pass:', sig.emitter)
if sig.emitter != 'frob':
    print('BROKEN: a consistent (emitter) annotation was dropped'); rc |= 2
sys.exit(rc)
