"""F5: stale entry served when a fresh entry is renamed into place between open() and the freshness stat()."""
import os, sys, types, tempfile, pickle, shutil
tree = sys.argv[1]
sys.path.insert(0, tree)
fake = types.ModuleType('giscanner._giscanner'); sys.modules['giscanner._giscanner'] = fake
tmp = tempfile.mkdtemp()
os.environ['XDG_CACHE_HOME'] = tmp; os.environ['HOME'] = tmp
from giscanner import cachestore
cs = cachestore.CacheStore()
src = os.path.join(tmp, 'Dep-1.0.gir'); open(src, 'w').write('v1')
cs.store(src, 'PARSE-OF-V1')
entry = cs._get_filename(src)
t0 = os.stat(entry).st_mtime
# the source changes (v2) AFTER the entry was written: entry is now stale
open(src, 'w').write('v2'); os.utime(src, (t0 + 10, t0 + 10))
assert cs.load(src) is None, 'sequential: stale entry must be rejected'
# schedule: process A opens the stale entry; before A stats, process B publishes a fresh entry (parse of v2)
real_stat = os.stat
fired = []
def racing_stat(p, *a, **k):
    if not fired and (p == entry or isinstance(p, int)):
        fired.append(1)
        fd, tn = tempfile.mkstemp(dir=tmp)
        with os.fdopen(fd, 'wb') as f: pickle.dump('PARSE-OF-V2', f)
        os.utime(tn, (t0 + 20, t0 + 20))
        shutil.move(tn, entry)            # process B's atomic publish
    return real_stat(p, *a, **k)
cachestore.os.stat = racing_stat
got = cs.load(src)
cachestore.os.stat = real_stat
print('load under the race returned:', got)
shutil.rmtree(tmp)
# v1 was replaced before this load started; only None or the parse of v2 are acceptable
sys.exit(0 if got in (None, 'PARSE-OF-V2') else 1)
