#!/usr/bin/env python
"""F13 (C04): a function that carries the symbol prefix of a registered boxed record but returns a GObject class
(`FooButton *foo_rect_new_button (void)`) must simply not become a constructor (the property: "a constructor only
of the type whose prefix it carries and only when it returns that type or one of its ancestors").
MainTransformer._is_constructor walks `origin_node.parent_type` although origin_node is the Record: AttributeError,
the scanner aborts and no symbol at all is described.

usage: F13_constructor_record_prefix_demo.py <path-to-tree>     exit 0 = handled, 1 = crash / wrong pairing
"""
import os
import sys
import types

tree = os.path.abspath(sys.argv[1])
sys.path.insert(0, tree)
os.environ['GI_SCANNER_DISABLE_CACHE'] = '1'
fake = types.ModuleType('giscanner._giscanner')
fake.SourceScanner = object
sys.modules['giscanner._giscanner'] = fake

from giscanner import ast, message                       # noqa: E402
from giscanner.transformer import Transformer            # noqa: E402
from giscanner.maintransformer import MainTransformer    # noqa: E402

gobject = ast.Namespace('GObject', '2.0', identifier_prefixes=['G'], symbol_prefixes=['g'])
gobject.append(ast.Class('Object', None, ctype='GObject', gtype_name='GObject', get_type='g_object_get_type', c_symbol_prefix='object'))
foo = ast.Namespace('Foo', '1.0', identifier_prefixes=['Foo'], symbol_prefixes=['foo'])
message.MessageLogger.get(namespace=foo)
tr = Transformer(foo)
tr.disable_cache()
tr._parsed_includes['GObject'] = gobject
foo.includes.add(ast.Include('GObject', '2.0'))
button = ast.Class('Button', ast.Type(target_giname='GObject.Object'), ctype='FooButton', gtype_name='FooButton',
                   get_type='foo_button_get_type', c_symbol_prefix='button')
foo.append(button)
rect = ast.Record('Rect', 'FooRect')
foo.append(rect)
rect.add_gtype('FooRect', 'foo_rect_get_type')
rect.c_symbol_prefix = 'rect'
f = ast.Function('rect_new_button', ast.Return(ast.Type(ctype='FooButton*')), [], False, 'foo_rect_new_button')
foo.append(f)
try:
    MainTransformer(tr, {}).transform()
except AttributeError as e:
    print('PROPERTY BROKEN: the scanner aborts with AttributeError(%s) for `FooButton *foo_rect_new_button (void)`' % e)
    sys.exit(1)
owners = [o.name for o in (button, rect) if any(c.symbol == 'foo_rect_new_button' for c in o.constructors)]
if owners:
    print('PROPERTY BROKEN: foo_rect_new_button became a constructor of %s although it returns an unrelated class' % owners)
    sys.exit(1)
print('OK: foo_rect_new_button is not a constructor; it is described as %s' %
      ('a function' if any(isinstance(n, ast.Function) and n.symbol == 'foo_rect_new_button' for n in foo.values()) else
       'a static method' if any(m.symbol == 'foo_rect_new_button' for m in rect.static_methods) else '?'))
