"""F2: girparser.c start_field decodes readable="0" as readable and readable="1" as unreadable.
Uses the mini g-ir-compiler harness written by the C15 seeding agent (seeded/C15/v2/harness): the tree's real
girparser.c/girnode.c/girmodule.c/gitypelib.c linked against a small GLib stand-in.
usage: demo.py <tree>    exit 0 = field flags in the typelib equal the GIR, 1 = broken"""
import os, sys, tempfile, re
HERE = os.path.dirname(os.path.abspath(__file__))
for cand in (os.path.join(HERE, '..', 'seeded', 'C15', 'v2', 'harness'), '/verif/seeded/C15/v2/harness'):
    if os.path.isdir(cand):
        sys.path.insert(0, cand); break
import gircheck
tree = os.path.abspath(sys.argv[1])
GIR = '''<?xml version="1.0"?>
<repository version="1.2" xmlns="http://www.gtk.org/introspection/core/1.0" xmlns:c="http://www.gtk.org/introspection/c/1.0" xmlns:glib="http://www.gtk.org/introspection/glib/1.0">
  <namespace name="Demo" version="1.0" shared-library="" c:identifier-prefixes="Demo" c:symbol-prefixes="demo">
    <record name="Rec" c:type="DemoRec">
      <field name="pub" writable="1"><type name="gint" c:type="gint"/></field>
      <field name="priv" readable="0" private="1"><type name="gint" c:type="gint"/></field>
      <field name="explicit" readable="1"><type name="gint" c:type="gint"/></field>
    </record>
  </namespace>
</repository>
'''
with tempfile.TemporaryDirectory() as tmp:
    binary = gircheck.build_harness(tree, tmp)
    gir = os.path.join(tmp, 'Demo-1.0.gir'); open(gir, 'w').write(GIR)
    res = gircheck.run_compiler(binary, gir)
    out = res[1] if isinstance(res, tuple) else res
    text = out if isinstance(out, str) else str(res)
    got = dict(re.findall(r'field \S*?\.?(pub|priv|explicit) readable=(\d)', text))
    print(got)
    want = {'pub': '1', 'priv': '0', 'explicit': '1'}
    sys.exit(0 if got == want else 1)
