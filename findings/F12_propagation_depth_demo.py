"""F12: introspectability is propagated in two fixed rounds; a dependency chain of depth three leaves a function introspectable
although it uses a callback type that ends up introspectable="0"."""
import sys, types
sys.path.insert(0, sys.argv[1])
fake = types.ModuleType('giscanner._giscanner')
class SourceScanner: pass
fake.SourceScanner = SourceScanner
sys.modules['giscanner._giscanner'] = fake
from giscanner import ast, message
from giscanner.transformer import Transformer
from giscanner.introspectablepass import IntrospectablePass
ns = ast.Namespace('Foo', '1.0', identifier_prefixes=['Foo'], symbol_prefixes=['foo'])
message.MessageLogger.get(namespace=ns)
t = Transformer(ns); t.disable_cache()
def none(): return ast.Return(ast.Type(target_fundamental='none', ctype='void'), transfer='none')
def cbparam(name, giname, ctype):
    p = ast.Parameter(name, ast.Type(target_giname=giname, ctype=ctype), transfer='none'); p.scope = 'call'; return p
# names chosen so that namespace order is: function a_run, callback BOuter, callback CInner (walk order = insertion order)
f = ast.Function('a_run', none(), [cbparam('cb', 'Foo.BOuter', 'FooBOuter')], False, 'foo_a_run')
outer = ast.Callback('BOuter', none(), [cbparam('inner', 'Foo.CInner', 'FooCInner')], False, 'FooBOuter')
inner = ast.Callback('CInner', none(), [ast.Parameter('args', ast.Type(target_fundamental='va_list', ctype='va_list'), transfer='none')], False, 'FooCInner')
for n in (f, outer, inner):
    ns.append(n)
IntrospectablePass(t, {}).validate()
print('a_run introspectable=%s  BOuter introspectable=%s  CInner introspectable=%s' % (f.introspectable, outer.introspectable, inner.introspectable))
# property: an introspectable callable only uses types whose definitions are themselves introspectable
sys.exit(1 if (f.introspectable and not outer.introspectable) else 0)
