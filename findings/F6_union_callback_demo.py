import os, sys, tempfile, re
sys.path.insert(0, '/verif/seeded/C15/v2/harness')
import gircheck
tree = os.path.abspath(sys.argv[1])
def gir(kind):
    return '''<?xml version="1.0"?>
<repository version="1.2" xmlns="http://www.gtk.org/introspection/core/1.0" xmlns:c="http://www.gtk.org/introspection/c/1.0" xmlns:glib="http://www.gtk.org/introspection/glib/1.0">
  <namespace name="Demo" version="1.0" shared-library="" c:identifier-prefixes="Demo" c:symbol-prefixes="demo">
    <%s name="U" c:type="DemoU">
      <field name="a" writable="1"><type name="gint" c:type="gint"/></field>
      <field name="cb">
        <callback name="cb"><return-value transfer-ownership="none"><type name="none" c:type="void"/></return-value>
          <parameters><parameter name="x" transfer-ownership="none"><type name="gint" c:type="gint"/></parameter></parameters>
        </callback>
      </field>
    </%s>
  </namespace>
</repository>
''' % (kind, kind)
with tempfile.TemporaryDirectory() as tmp:
    binary = gircheck.build_harness(tree, tmp)
    for kind in ('record', 'union'):
        p = os.path.join(tmp, 'Demo-1.0.gir'); open(p, 'w').write(gir(kind))
        rc, out, err = gircheck.run_compiler(binary, p)
        print(kind, 'rc=%s' % rc, (err.strip().splitlines() or [''])[-1][:200])
