"""Attribute decoding tables of girepository/girparser.c.

For every start_* function: the attributes fetched with find_attribute ("k", ...) and, for every store
`node->field = <expr>` whose value or guards depend on such an attribute variable, the value stored for
the attribute being absent / "0" / "1" / another string (3-valued evaluation: '?' = not determined by this
attribute alone).  Extracted from clang's AST; nothing is executed.
"""
from . import cfront as C

UNK = '?'
OTHER = 'other-string'


def truth(v):
    return v is not None and v != 0


def ev(n, env):
    """env: {variable name: None | str}.  Returns int / None / UNK"""
    n = C.strip(n)
    k = n.get('kind')
    if k == 'IntegerLiteral':
        return int(n['value'])
    if k == 'DeclRefExpr':
        v = n['referencedDecl']['name']
        if v in env:
            return env[v]
        if n['referencedDecl'].get('kind') == 'EnumConstantDecl':
            return ('enum', v)
        defs = _LOCALS.get(v)
        if defs is not None and len(defs) == 1 and _DEPTH[0] < 3:
            # a flag local computed once (`dir_out = direction != NULL && strcmp (direction, "out") == 0;`): its definition when it depends on
            # the attribute under study, otherwise "the other attribute has the value that takes this path" (same approximation as for guards)
            if any(uses(defs[0], x) for x in env):
                _DEPTH[0] += 1
                try:
                    return ev(defs[0], env)
                finally:
                    _DEPTH[0] -= 1
            return 1
        return UNK
    if k == 'UnaryOperator' and n.get('opcode') == '!':
        a = ev(C.kids(n)[0], env)
        if a == UNK:
            return UNK
        return 0 if truth(a) else 1
    if k == 'CallExpr':
        f = C.callee(n)
        args = C.call_args(n)
        if f in ('strcmp', 'g_ascii_strcasecmp', 'g_strcmp0', 'g_str_equal') and len(args) == 2:
            a = ev(args[0], env)
            b = C.string_value(args[1])
            if b is None:
                a, b = ev(args[1], env), C.string_value(args[0])
            if a == UNK or b is None:
                return UNK
            if a is None:
                return UNK if f != 'g_strcmp0' else -1
            if isinstance(a, str):
                eq = (a == b)
                if f == 'g_str_equal':
                    return 1 if eq else 0
                return 0 if eq else 1
            return UNK
        if _TU is not None and f in _TU.functions and _DEPTH[0] < 3 and _TU.in_main_file(_TU.functions[f]):
            # small pure helper of the same file (e.g. `return value != NULL && strcmp (value, "1") == 0;`): evaluate its body
            g = _TU.functions[f]
            params = [p_['name'] for p_ in _TU.params(g)]
            if len(params) == len(args):
                env2 = dict((p_, ev(a, env)) for p_, a in zip(params, args))
                _DEPTH[0] += 1
                try:
                    r_ = _ev_body(C.kids(_TU.body(g)), env2)
                    return UNK if r_ is _NORET else r_
                finally:
                    _DEPTH[0] -= 1
        if f in ('atoi', 'strtol', 'g_ascii_strtoll', 'parse_value') and args:
            a = ev(args[0], env)
            if isinstance(a, str) and a.lstrip('-').isdigit():
                return int(a)
            return UNK
        return UNK
    if k == 'BinaryOperator':
        op = n['opcode']
        L, R = C.kids(n)
        if op in ('||', '&&'):
            a = ev(L, env)
            if a != UNK:
                if op == '||' and truth(a):
                    return 1
                if op == '&&' and not truth(a):
                    return 0
            b = ev(R, env)
            if a == UNK or b == UNK:
                if b != UNK and ((op == '||' and truth(b)) or (op == '&&' and not truth(b))):
                    return int(truth(b))
                return UNK
            return int(truth(b))
        if op in ('==', '!='):
            ln, rn = C.declref(L), C.declref(R)
            if _isnull(R) and ln in env:
                r = env[ln] is None
                return int(r if op == '==' else not r)
            if _isnull(L) and rn in env:
                r = env[rn] is None
                return int(r if op == '==' else not r)
            a, b = ev(L, env), ev(R, env)
            if a == UNK or b == UNK:
                return UNK
            return int((a == b) if op == '==' else (a != b))
        if op in ('>', '<', '>=', '<='):
            a, b = ev(L, env), ev(R, env)
            if isinstance(a, int) and isinstance(b, int):
                return int({'>': a > b, '<': a < b, '>=': a >= b, '<=': a <= b}[op])
            return UNK
    if k == 'ConditionalOperator':
        c = ev(C.kids(n)[0], env)
        if c == UNK:
            return UNK
        return ev(C.kids(n)[1] if truth(c) else C.kids(n)[2], env)
    return UNK


_TU = None
_DEPTH = [0]
_LOCALS = {}
_NORET = object()


def _ev_body(stmts, env):
    """value returned by a straight-line / if-return helper body; UNK when anything else is met"""
    for st in stmts:
        k = st.get('kind')
        if k == 'ReturnStmt':
            return ev(C.kids(st)[0], env) if C.kids(st) else UNK
        if k == 'CompoundStmt':
            r = _ev_body(C.kids(st), env)
            if r is not _NORET:
                return r
        elif k == 'IfStmt':
            ch = C.kids(st)
            c = ev(ch[0], env)
            if c == UNK:
                return UNK
            br = ch[1] if truth(c) else (ch[2] if len(ch) > 2 else None)
            if br is not None:
                r = _ev_body([br], env)
                if r is not _NORET:
                    return r
        elif k in ('NullStmt', 'DeclStmt'):
            if k == 'DeclStmt' and any(C.kids(d) for d in C.kids(st)):
                return UNK
        else:
            return UNK
    return _NORET


def _isnull(n):
    n = C.strip(n)
    return n is not None and n.get('kind') == 'IntegerLiteral' and n.get('value') == '0'


def uses(n, var):
    return any(x.get('kind') == 'DeclRefExpr' and x.get('referencedDecl', {}).get('name') == var for x in C.walk(n))


def lhs_path(n):
    return C.member_path(n)


class Row(object):
    def __init__(self, function, attr, var, field, record, table, line):
        self.function = function
        self.attr = attr
        self.var = var
        self.field = field
        self.record = record
        self.table = table          # {None: v, '0': v, '1': v, OTHER: v}
        self.line = line

    def __repr__(self):
        return '<%s @%s -> %s.%s %s>' % (self.function, self.attr, self.record, self.field, self.table)


def attr_vars(tu, f):
    """{variable: attribute name} for `v = find_attribute ("name", ...)` in f"""
    out = {}
    body = tu.body(f)
    for l, r, st in C.assignments(body):
        c = C.strip(r)
        if c.get('kind') == 'CallExpr' and C.callee(c) == 'find_attribute':
            name = C.string_value(C.call_args(c)[0])
            v = C.declref(l)
            if v and name is not None:
                out[v] = name
    for d in C.walk(body):
        if d.get('kind') == 'VarDecl' and C.kids(d):
            c = C.strip(C.kids(d)[-1])
            if c.get('kind') == 'CallExpr' and C.callee(c) == 'find_attribute':
                name = C.string_value(C.call_args(c)[0])
                if name is not None:
                    out[d['name']] = name
    return out


def decode_tables(tu):
    global _TU
    _TU = tu
    rows = []
    for fname, f in sorted(tu.functions.items()):
        if not tu.in_main_file(f):
            continue
        attrs = attr_vars(tu, f)
        if not attrs:
            continue
        # boolean/flag locals of this function and their definitions
        _LOCALS.clear()
        params_ = set(p_['name'] for p_ in tu.params(f))
        for d in C.walk(tu.body(f)):
            if d.get('kind') == 'VarDecl' and d.get('name') not in attrs and d.get('name') not in params_:
                _LOCALS.setdefault(d['name'], [])
                if C.kids(d) and d.get('init'):
                    _LOCALS[d['name']].append(C.kids(d)[-1])
        for l, r, st in C.assignments(tu.body(f)):
            nm_ = C.declref(l)
            if nm_ in _LOCALS:
                _LOCALS[nm_].append(r)
        for nm_ in list(_LOCALS):
            tq = ''
            for d in C.walk(tu.body(f)):
                if d.get('kind') == 'VarDecl' and d.get('name') == nm_:
                    tq = (d.get('type', {}).get('qualType') or '')
            if tq not in ('gboolean', 'int', 'gint', 'guint', 'bool', '_Bool'):
                del _LOCALS[nm_]
        stores = {}
        for l, r, st in C.assignments(tu.body(f)):
            lp = C.strip(l)
            if lp.get('kind') != 'MemberExpr' or st.get('opcode') != '=':
                continue
            gs = C.guards(tu, st)
            anc = set(id(a) for a in tu.ancestors(st))
            for v in attrs:
                # involvement through an enclosing condition or the value itself; an earlier `if (x == NULL) return` is not a decoding
                if uses(r, v) or any(uses(c, v) for c, pol, o in gs if id(o) in anc):
                    stores.setdefault((C.base_record_type(lp), lp['name'], v), []).append((r, gs, st))
        for (rec, field, v), lst in sorted(stores.items()):
            table = {}
            for val in (None, '0', '1', OTHER):
                env = {v: val}
                res = 'unset'
                for r, gs, st in sorted(lst, key=lambda x: tu.line(x[2])):
                    ok = True
                    for c, pol, o in gs:
                        if not uses(c, v):
                            continue
                        e = ev(c, env)
                        if e == UNK:
                            ok = None
                            break
                        if truth(e) != pol:
                            ok = False
                            break
                    if ok is None:
                        res = UNK
                        break
                    if ok:
                        res = ev(r, env) if uses(r, v) else ev(r, {})
                table[val] = res
            rows.append(Row(fname, attrs[v], v, field, rec, table, tu.line(lst[0][2])))
    return rows
