"""String-shape abstraction: the sequence of fragments a string-valued expression is assembled from.

flatten(expr) -> list of fragments
   ('const', text)                  literal text (from constants, %-format templates, f-string literals)
   ('expr', node)                   a value that is inserted (argument of %s / {..} / operand of +)
   ('join', sep_fragments, item_fragments)    sep.join(<items>)   (items from a list display, comprehension or generator)
Only str-building operators are interpreted (+, %, f-strings, str.join, str.format with positional {} / {0});
everything else is an 'expr' fragment.  No evaluation takes place.
"""
import ast
import re

_FMT = re.compile(r'%(?:\((\w+)\))?[-#0 +]*(?:\d+|\*)?(?:\.\d+)?([sdrifxXo%])')


def flatten(n, resolve=None, depth=0):
    """`resolve(name) -> node or None` supplies definitions of locals (single definition) for copy propagation"""
    if depth > 12:
        return [('expr', n)]
    f = lambda x: flatten(x, resolve, depth + 1)
    if isinstance(n, ast.Constant):
        if isinstance(n.value, str):
            return [('const', n.value)] if n.value != '' else []
        return [('expr', n)]
    if isinstance(n, ast.JoinedStr):
        out = []
        for v in n.values:
            if isinstance(v, ast.Constant):
                out.extend(f(v))
            elif isinstance(v, ast.FormattedValue):
                out.extend(f(v.value) if _is_strish(v.value) else [('expr', v.value)])
        return out
    if isinstance(n, ast.BinOp) and isinstance(n.op, ast.Add):
        return f(n.left) + f(n.right)
    if isinstance(n, ast.BinOp) and isinstance(n.op, ast.Mod) and isinstance(n.left, ast.Constant) and isinstance(n.left.value, str):
        args = list(n.right.elts) if isinstance(n.right, ast.Tuple) else [n.right]
        out = []
        pos = 0
        i = 0
        for m in _FMT.finditer(n.left.value):
            if m.start() > pos:
                out.append(('const', n.left.value[pos:m.start()]))
            pos = m.end()
            if m.group(2) == '%':
                out.append(('const', '%'))
                continue
            if i < len(args):
                a = args[i]
                out.extend(f(a) if _is_strish(a) else [('expr', a)])
            else:
                out.append(('expr', n))
            i += 1
        if pos < len(n.left.value):
            out.append(('const', n.left.value[pos:]))
        return out
    if isinstance(n, ast.Call) and isinstance(n.func, ast.Attribute) and n.func.attr == 'format' and isinstance(n.func.value, ast.Constant) \
            and isinstance(n.func.value.value, str) and not any(isinstance(a, ast.Starred) for a in n.args) and all(k.arg for k in n.keywords):
        # 'lib{name}'.format(name=x) / '{} {}'.format(a, b): literal pieces and the substituted expressions
        import string as _string
        out = []
        auto = 0
        kw = dict((k.arg, k.value) for k in n.keywords)
        try:
            pieces = list(_string.Formatter().parse(n.func.value.value))
        except ValueError:
            return [('expr', n)]
        for lit, field, spec, conv in pieces:
            if lit:
                out.append(('const', lit))
            if field is None:
                continue
            if spec or conv or '.' in field or '[' in field:
                return [('expr', n)]
            if field == '':
                a = n.args[auto] if auto < len(n.args) else None
                auto += 1
            elif field.isdigit():
                a = n.args[int(field)] if int(field) < len(n.args) else None
            else:
                a = kw.get(field)
            if a is None:
                return [('expr', n)]
            out.extend(f(a) if _is_strish(a) else [('expr', a)])
        return out
    if isinstance(n, ast.Call) and isinstance(n.func, ast.Attribute) and n.func.attr == 'join' and len(n.args) == 1:
        sep = f(n.func.value)
        items = n.args[0]
        if isinstance(items, (ast.GeneratorExp, ast.ListComp)):
            return [('join', sep, f(items.elt), items)]
        if isinstance(items, (ast.List, ast.Tuple)):
            its = []
            for e in items.elts:
                its.extend(f(e))
            if not sep and not any(isinstance(e, ast.Starred) for e in items.elts):
                # ''.join((a, b, c)) is the concatenation a + b + c
                return its
            return [('join', sep, its, items)]
        if isinstance(items, ast.Name) and resolve is not None:
            r = resolve(items.id, 'list')
            if r is not None:
                its = []
                for e in r:
                    its.extend(f(e))
                return [('join', sep, its, items)]
        return [('join', sep, [('expr', items)], items)]
    if isinstance(n, ast.Call) and isinstance(n.func, ast.Attribute) and n.func.attr in ('strip', 'rstrip', 'lstrip', 'split', 'splitlines') \
            and isinstance(n.func.value, (ast.Name, ast.Call, ast.BinOp, ast.JoinedStr)):
        # content-preserving string methods: the text is that of the receiver
        return f(n.func.value)
    if isinstance(n, ast.Name) and resolve is not None:
        r = resolve(n.id, 'str')
        if r is not None:
            out = []
            for alt in r:
                out.append(flatten(alt, resolve, depth + 1))
            if len(out) == 1:
                return out[0]
            return [('alt', out)]
    if isinstance(n, ast.IfExp):
        return [('alt', [f(n.body), f(n.orelse)])]
    return [('expr', n)]


def _is_strish(n):
    return isinstance(n, (ast.JoinedStr, ast.BinOp)) or (isinstance(n, ast.Constant) and isinstance(n.value, str)) or \
        (isinstance(n, ast.Call) and isinstance(n.func, ast.Attribute) and n.func.attr == 'join') or isinstance(n, (ast.Name, ast.IfExp))


def leaves(frags):
    """all ('const', text) and ('expr', node) leaves"""
    for fr in frags:
        if fr[0] == 'join':
            for x in leaves(fr[1]):
                yield x
            for x in leaves(fr[2]):
                yield x
        elif fr[0] == 'alt':
            for a in fr[1]:
                for x in leaves(a):
                    yield x
        else:
            yield fr


def sequences(frags, limit=64):
    """expand alternatives: list of flat sequences (joins kept as one element)"""
    seqs = [[]]
    for fr in frags:
        if fr[0] == 'alt':
            new = []
            for a in fr[1]:
                for s2 in sequences(a, limit):
                    for s in seqs:
                        new.append(s + s2)
            seqs = new[:limit]
        else:
            seqs = [s + [fr] for s in seqs]
    return seqs


def merge_consts(seq):
    out = []
    for fr in seq:
        if fr[0] == 'const' and out and out[-1][0] == 'const':
            out[-1] = ('const', out[-1][1] + fr[1])
        else:
            out.append(fr)
    return out


def show(frags):
    out = []
    for fr in frags:
        if fr[0] == 'const':
            out.append(repr(fr[1]))
        elif fr[0] == 'expr':
            try:
                out.append('{%s}' % ast.unparse(fr[1]))
            except Exception:
                out.append('{?}')
        elif fr[0] == 'join':
            out.append('join(%s; %s)' % (show(fr[1]), show(fr[2])))
        else:
            out.append('(' + ' | '.join(show(a) for a in fr[1]) + ')')
    return ' '.join(out)


def universe(func, methods=None, depth=2):
    """expressions whose text can flow into the value returned by `func`: the returned expressions, everything assigned or
    appended to a name that occurs as a string leaf of one of them, and the same for in-class helpers called in leaf position"""
    from . import pyfront as P
    flow = set()
    exprs = []
    for n in P.walk_no_nested(func):
        if isinstance(n, ast.Return) and n.value is not None:
            exprs.append(n.value)
    seen = set()
    changed = True
    while changed:
        changed = False
        for e in list(exprs):
            if id(e) in seen:
                continue
            seen.add(id(e))
            for leaf in leaves(flatten(e)):
                x = leaf[1] if leaf[0] == 'expr' else None
                if isinstance(x, ast.Name) and x.id not in flow:
                    flow.add(x.id)
                    changed = True
                elif isinstance(x, ast.Call) and methods and depth > 0:
                    nm = P.call_name(x) or ''
                    if nm.startswith('self.') and nm[5:] in methods and methods[nm[5:]] is not func:
                        for sub in universe(methods[nm[5:]], methods, depth - 1)[0]:
                            if sub not in exprs:
                                exprs.append(sub)
                                changed = True
        for n in P.walk_no_nested(func):
            if isinstance(n, (ast.Assign, ast.AugAssign, ast.AnnAssign)):
                tg = n.targets if isinstance(n, ast.Assign) else [n.target]
                if any(isinstance(t, ast.Name) and t.id in flow for t in tg) and n.value is not None and id(n.value) not in seen and n.value not in exprs:
                    exprs.append(n.value)
                    changed = True
            elif isinstance(n, ast.Call) and isinstance(n.func, ast.Attribute) and n.func.attr in ('append', 'extend', 'insert') and isinstance(n.func.value, ast.Name) \
                    and n.func.value.id in flow:
                for a_ in n.args:
                    if id(a_) not in seen and a_ not in exprs:
                        exprs.append(a_)
                        changed = True
    return exprs, flow
