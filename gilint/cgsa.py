"""E-cgsa: gated effect summaries of C functions over clang's JSON AST (the C twin of gsa.py).

One walk over the statement tree of a function records every store through a pointer / member / array element, every call
that is not inlined and every return, each with the condition (formula over canonical atoms) under which it happens.
Locals are copy-propagated with gated definitions (keyed by clang declaration ids, so names never collide), static
helpers of the same translation unit are inlined (out-parameters written through `*p` in a helper become stores on the
caller's objects), `?:` and switch/if chains become alternatives, loops are summarised by an iteration atom and `goto
label` forwards the path condition to the label.  Expressions are rendered as canonical text (no casts, no redundant
parentheses, macros already expanded by clang).  The formula algebra and the query helpers are those of gsa.py.
"""
import itertools
import re

from .core import AnalysisError
from . import cfront as C
from . import gsa
from .gsa import atom, neg, conj, disj, sat, Eff

MAXALT = 48


class Frame(object):
    def __init__(self, fnode, stack):
        self.f = fnode
        self.name = fnode.get('name')
        self.stack = stack
        self.returns = []
        self.exits = []
        self.loopctl = []
        self.ctl_kinds = []
        self.pending = {}       # label -> condition of the gotos seen so far


class CSummary(object):
    def __init__(self, tu, fname, opaque=(), inline=(), depth=3, inline_static=True, keep_ptr_casts=False):
        self.tu = tu
        self.keep_ptr_casts = keep_ptr_casts
        self.qual = fname
        self.func = tu.func(fname)
        self.opaque = set(opaque)
        self.inline = set(inline)
        self.inline_static = inline_static
        self.depth = depth
        self.effects = []
        self.loops = []
        self.notes = []
        self.inlined = set()
        self.tmp = 0
        self.env = {}           # decl id -> [(cond, text)]
        self.names = {}         # decl id -> name
        self.addr = {}          # '&name#id' text -> decl id
        self.params = [p.get('name') for p in tu.params(self.func)]
        fr = Frame(self.func, (fname,))
        body = tu.body(self.func)
        if body is None:
            raise AnalysisError('%s has no body in %s' % (fname, tu.rel))
        out = self.stmt(body, True, fr)
        self.returns = list(fr.returns)
        self.falls = out

    # ------------------------------------------------------------------ plumbing
    def P(self, i):
        return self.params[i]

    def atoms(self):
        acc = []
        for e in self.effects:
            gsa.atoms(e.cond, acc)
        return acc

    def emit(self, kind, target, value, cond, node, fr, args=None):
        if cond is False:
            return None
        e = Eff(kind, target, value, cond, node, fr.name, fr.stack, tuple(self.loops), len(self.effects), None, args)
        e.line = self.tu.line(node) if node is not None else 0
        self.effects.append(e)
        return e

    # ------------------------------------------------------------------ expressions -> alternatives of canonical text
    def alts(self, n, pc=True):
        """[(cond, text)]"""
        n = C.strip(n, casts=False)
        if n is None:
            return [(True, '')]
        k = n.get('kind')
        if k == 'CStyleCastExpr':
            ty = (n.get('type', {}).get('qualType') or '?').replace(' ', '')
            sub = C.kids(n)[-1]
            inner = self.alts(sub, pc)
            # casts between pointer types / to void are transparent for the analysis; arithmetic casts are kept (they change values)
            if ('*' in ty and not self.keep_ptr_casts) or ty in ('void', 'gpointer', 'gconstpointer'):
                return inner
            return [(g, '(%s)%s' % (ty, wrap(t))) for g, t in inner]
        if k == 'IntegerLiteral':
            return [(True, str(n.get('value')))]
        if k in ('FloatingLiteral', 'CharacterLiteral'):
            return [(True, str(n.get('value')))]
        if k == 'StringLiteral':
            return [(True, n.get('value', '""'))]
        if k == 'DeclRefExpr':
            rd = n.get('referencedDecl', {})
            did = rd.get('id')
            if did in self.env:
                val = [(g, t) for g, t in self.env[did] if conj(pc, g) is not False]
                if len(val) > 1:
                    val = [(g, t) for g, t in val if sat(conj(pc, g))] or val
                if val:
                    return val
            return [(True, rd.get('name', '?'))]
        if k == 'MemberExpr':
            return [(g, member_text(t, n.get('isArrow'), n.get('name'))) for g, t in self.alts(C.kids(n)[0], pc)]
        if k == 'ArraySubscriptExpr':
            ch = C.kids(n)
            return self.combine([ch[0], ch[1]], pc, lambda a, b: '%s[%s]' % (wrap_postfix(a), b))
        if k == 'UnaryOperator':
            op = n.get('opcode')
            sub = C.kids(n)[0]
            if op == '&':
                s = C.strip(sub)
                if s.get('kind') == 'DeclRefExpr' and s.get('referencedDecl', {}).get('kind') in ('VarDecl', 'ParmVarDecl'):
                    rd = s['referencedDecl']
                    t = '&%s' % rd.get('name')
                    self.addr[t] = rd.get('id')
                    self.names[rd.get('id')] = rd.get('name')
                    return [(True, t)]
            out = []
            for g, t in self.alts(sub, pc):
                if op == '*' and t.startswith('&') and re.match(r'^&\w+$', t):
                    did = self.addr.get(t)
                    if did in self.env:
                        for g2, t2 in self.env[did]:
                            if conj(pc, g, g2) is not False:
                                out.append((conj(g, g2), t2))
                        continue
                    out.append((g, t[1:]))
                elif n.get('isPostfix'):
                    out.append((g, '%s%s' % (wrap(t), op)))
                else:
                    out.append((g, '%s%s' % (op, wrap(t))))
            return out
        if k in ('BinaryOperator', 'CompoundAssignOperator'):
            op = n.get('opcode')
            ch = C.kids(n)
            if op == ',':
                return self.alts(ch[1], pc)
            return self.combine(ch, pc, lambda a, b: '%s%s%s' % (wrap(a), op, wrap(b)))
        if k == 'ConditionalOperator':
            ch = C.kids(n)
            c = self.cond(ch[0], pc)
            out = [(conj(c, g), t) for g, t in self.alts(ch[1], conj(pc, c))] + [(conj(neg(c), g), t) for g, t in self.alts(ch[2], conj(pc, neg(c)))]
            return [(g, t) for g, t in out if g is not False]
        if k == 'BinaryConditionalOperator':
            ch = C.kids(n)
            return self.combine([ch[0], ch[-1]], pc, lambda a, b: '(%s?:%s)' % (a, b))
        if k == 'CallExpr':
            r = self.call(n, pc, self._cur)
            return r
        if k == 'UnaryExprOrTypeTraitExpr':
            t = C.sizeof_type(n)
            return [(True, '%s(%s)' % (n.get('name', 'sizeof'), (t or '?').replace(' ', '')))]
        if k in ('InitListExpr', 'CompoundLiteralExpr'):
            return [(True, '{%s}' % ','.join(self.alts(c, pc)[0][1] for c in C.kids(n)))]
        if k == 'StmtExpr':
            return [(True, re.sub(r'\s+', '', self.tu.text_of(n)))]
        if k in ('OpaqueValueExpr', 'PredefinedExpr', 'VAArgExpr', 'OffsetOfExpr', 'ImplicitValueInitExpr', 'GNUNullExpr'):
            return [(True, re.sub(r'\s+', '', self.tu.text_of(n)) or k)]
        return [(True, re.sub(r'\s+', '', self.tu.text_of(n)) or k)]

    def combine(self, nodes, pc, fmt):
        lists = [self.alts(x, pc) for x in nodes]
        combos = [(True, [])]
        for val in lists:
            new = []
            for g0, ts in combos:
                for g, t in val:
                    gg = conj(g0, g)
                    if gg is False or conj(pc, gg) is False:
                        continue
                    new.append((gg, ts + [t]))
            if len(new) > MAXALT:
                new = [(g, ts) for g, ts in new if sat(conj(pc, g))][:MAXALT]
            combos = new or [(True, [val[0][1] for val in lists])]
        return [(g, fmt(*ts)) for g, ts in combos]

    def text1(self, n, pc=True):
        a = self.alts(n, pc)
        return a[0][1] if len(a) == 1 else '|'.join(sorted(set(t for g, t in a)))

    # ------------------------------------------------------------------ conditions
    def cond(self, n, pc=True):
        n = C.strip(n)
        if n is None:
            return True
        k = n.get('kind')
        if k == 'UnaryOperator' and n.get('opcode') == '!':
            return neg(self.cond(C.kids(n)[0], pc))
        if k == 'BinaryOperator':
            op = n.get('opcode')
            ch = C.kids(n)
            if op == '&&':
                a = self.cond(ch[0], pc)
                return conj(a, self.cond(ch[1], conj(pc, a)))
            if op == '||':
                a = self.cond(ch[0], pc)
                return disj(a, self.cond(ch[1], conj(pc, neg(a))))
            if op in ('==', '!=', '<', '>', '<=', '>='):
                out = []
                for g, (l, r) in [(g, ts) for g, ts in self._pairs(ch, pc)]:
                    out.append(conj(g, compare_atom(l, op, r)))
                return disj(*out)
        if k == 'ConditionalOperator':
            ch = C.kids(n)
            c = self.cond(ch[0], pc)
            return disj(conj(c, self.cond(ch[1], conj(pc, c))), conj(neg(c), self.cond(ch[2], conj(pc, neg(c)))))
        out = []
        for g, t in self.alts(n, pc):
            out.append(conj(g, truth_atom(t)))
        return disj(*out)

    def _pairs(self, ch, pc):
        la, ra = self.alts(ch[0], pc), self.alts(ch[1], pc)
        out = []
        for g1, l in la:
            for g2, r in ra:
                g = conj(g1, g2)
                if g is not False and conj(pc, g) is not False:
                    out.append((g, (l, r)))
        return out

    # ------------------------------------------------------------------ calls
    def call(self, n, pc, fr):
        name = C.callee(n)
        args = C.call_args(n)
        f = self.tu.functions.get(name) if name else None
        can = f is not None and self.tu.body(f) is not None and name not in self.opaque and name not in fr.stack and len(fr.stack) <= self.depth and \
            (name in self.inline or (self.inline_static and f.get('storageClass') == 'static') or (self.inline_static and f.get('inline')))
        if f is not None and any(p.get('name') is None for p in self.tu.params(f)):
            can = False
        if f is not None and f.get('variadic'):
            can = False
        if not can:
            # a local whose address is handed to an opaque callee may be overwritten by it
            for a in args:
                s_ = C.strip(a)
                if s_.get('kind') == 'UnaryOperator' and s_.get('opcode') == '&':
                    t = C.strip(C.kids(s_)[0])
                    if t.get('kind') == 'DeclRefExpr' and t.get('referencedDecl', {}).get('id') in self.env:
                        rd = t['referencedDecl']
                        self.env[rd['id']] = [(True, rd.get('name'))]
            cname = name or self.text1(C.kids(n)[0], pc)
            out = []
            combos = self.combine(list(args), pc, lambda *ts: '\x00'.join(ts)) if args else [(True, '')]
            for g, joined in combos:
                texts = joined.split('\x00') if args else []
                val = '%s(%s)' % (cname, ','.join(texts))
                self.emit('call', cname, val, conj(pc, g), n, fr, args=texts)
                out.append((g, val))
            return out
        # inline
        self.inlined.add(name)
        params = self.tu.params(f)
        for p, a in zip(params, args):
            self.env[p['id']] = [(g, t) for g, t in self.alts(a, pc)]
            self.names[p['id']] = p.get('name')
        nfr = Frame(f, fr.stack + (name,))
        prev = self._cur
        self._cur = nfr
        out = self.stmt(self.tu.body(f), pc, nfr)
        self._cur = prev
        rets = list(nfr.returns)
        if not rets:
            rets = [(True, '')]
        return rets

    # ------------------------------------------------------------------ statements
    _cur = None

    def assign_var(self, did, name, alts, pc):
        old = self.env.get(did)
        self.names[did] = name
        new = [(conj(pc, g), t) for g, t in alts]
        if pc is not True:
            np = neg(pc)
            for g, t in (old if old is not None else [(True, name)]):
                c = conj(g, np)
                if c is not False:
                    new.append((c, t))
        self.env[did] = [(g, t) for g, t in new if g is not False]

    def store(self, lhs, rhs_alts, pc, node, fr, op='='):
        l = C.strip(lhs)
        if l.get('kind') == 'DeclRefExpr' and l.get('referencedDecl', {}).get('kind') in ('VarDecl', 'ParmVarDecl') and not _is_global(self.tu, l):
            rd = l['referencedDecl']
            if op != '=':
                cur = self.alts(l, pc)
                rhs_alts = [(conj(g1, g2), '%s%s%s' % (wrap(a), op[:-1], wrap(b))) for g1, a in cur for g2, b in rhs_alts if conj(g1, g2) is not False]
            self.assign_var(rd['id'], rd.get('name'), rhs_alts, pc)
            if any(rd['id'] in c for c in self._carried):
                for g, t in rhs_alts:
                    self.emit('local', rd.get('name'), t, conj(pc, g), node, fr)
            return
        for tg, tt, did in self.lvalue(l, pc):
            if did is not None:
                # `*(&local) = v` written by an inlined helper through an out-parameter
                ra = rhs_alts
                if op != '=':
                    cur = self.env.get(did, [(True, self.names.get(did, tt))])
                    ra = [(conj(g1, g2), '%s%s%s' % (wrap(a), op[:-1], wrap(b))) for g1, a in cur for g2, b in rhs_alts if conj(g1, g2) is not False]
                self.assign_var(did, self.names.get(did, tt), ra, conj(pc, tg))
                continue
            for g, t in rhs_alts:
                self.emit('store' if op == '=' else 'aug', tt, t if op == '=' else '%s%s' % (op, t), conj(pc, tg, g), node, fr)

    def lvalue(self, l, pc):
        """[(cond, target text, decl id or None)] of an assignable expression"""
        l = C.strip(l)
        k = l.get('kind')
        if k == 'UnaryOperator' and l.get('opcode') == '*':
            out = []
            for g, t in self.alts(C.kids(l)[0], pc):
                if re.match(r'^&\w+$', t) and t in self.addr:
                    out.append((g, t[1:], self.addr[t]))
                else:
                    out.append((g, '*%s' % wrap(t), None))
            return out
        if k == 'MemberExpr':
            return [(g, member_text(t, l.get('isArrow'), l.get('name')), None) for g, t in self.alts(C.kids(l)[0], pc)]
        if k == 'ArraySubscriptExpr':
            ch = C.kids(l)
            return [(g, t, None) for g, t in self.combine([ch[0], ch[1]], pc, lambda a, b: '%s[%s]' % (wrap_postfix(a), b))]
        return [(g, t, None) for g, t in self.alts(l, pc)]

    _carried = ()

    def expr_stmt(self, n, pc, fr):
        s = C.strip(n)
        if s is None:
            return
        k = s.get('kind')
        if k == 'BinaryOperator' and s.get('opcode') == '=':
            ch = C.kids(s)
            inner = C.strip(ch[1])
            if inner.get('kind') == 'BinaryOperator' and inner.get('opcode') == '=':     # a = b = v
                self.expr_stmt(inner, pc, fr)
                self.store(ch[0], self.alts(C.kids(inner)[0], pc), pc, s, fr)
                return
            self.store(ch[0], self.alts(ch[1], pc), pc, s, fr)
            return
        if k == 'CompoundAssignOperator':
            ch = C.kids(s)
            self.store(ch[0], self.alts(ch[1], pc), pc, s, fr, op=s.get('opcode'))
            return
        if k == 'UnaryOperator' and s.get('opcode') in ('++', '--'):
            self.store(C.kids(s)[0], [(True, '1')], pc, s, fr, op='+=' if s.get('opcode') == '++' else '-=')
            return
        if k == 'BinaryOperator' and s.get('opcode') == ',':
            for c in C.kids(s):
                self.expr_stmt(c, pc, fr)
            return
        if k == 'ConditionalOperator':
            ch = C.kids(s)
            c = self.cond(ch[0], pc)
            self.expr_stmt(ch[1], conj(pc, c), fr)
            self.expr_stmt(ch[2], conj(pc, neg(c)), fr)
            return
        self.alts(s, pc)       # calls inside are recorded / inlined

    def mark(self, fr):
        return (len(fr.exits), len(fr.loopctl[-1]) if fr.loopctl else 0)

    def after(self, pc, fr, mark):
        gone = [c for c, k in fr.exits[mark[0]:]] + (fr.loopctl[-1][mark[1]:] if fr.loopctl else [])
        return conj(pc, neg(disj(*gone))) if gone else pc

    def stmt(self, n, pc, fr):
        if n is None or pc is False:
            return pc
        prev = self._cur
        self._cur = fr
        try:
            return self._stmt(n, pc, fr)
        finally:
            self._cur = prev

    def _stmt(self, n, pc, fr):
        k = n.get('kind')
        if k == 'CompoundStmt':
            for c in C.kids(n):
                if pc is False and c.get('kind') != 'LabelStmt' and not _has_label(c):
                    continue
                pc = self.stmt(c, pc, fr) if pc is not False or c.get('kind') == 'LabelStmt' or _has_label(c) else pc
            return pc
        if k == 'DeclStmt':
            for d in C.kids(n):
                if d.get('kind') == 'VarDecl':
                    self.names[d['id']] = d.get('name')
                    ch = C.kids(d)
                    if ch and d.get('init'):
                        self.assign_var(d['id'], d.get('name'), self.alts(ch[-1], pc), pc)
                    else:
                        self.env[d['id']] = [(True, d.get('name'))]
            return pc
        if k == 'IfStmt':
            ch = C.kids(n)
            ci = 1 if (n.get('hasVar') or n.get('hasInit')) else 0
            c = self.cond(ch[ci], pc)
            mark = self.mark(fr)
            a = self.stmt(ch[ci + 1], conj(pc, c), fr)
            b = self.stmt(ch[ci + 2], conj(pc, neg(c)), fr) if len(ch) > ci + 2 else conj(pc, neg(c))
            if pc is False:
                return disj(a if a is not None else False, b if b is not None else False)
            return self.after(pc, fr, mark)
        if k == 'ReturnStmt':
            ch = C.kids(n)
            if ch:
                for g, t in self.alts(ch[0], pc):
                    fr.returns.append((conj(pc, g), t))
                    self.emit('return', fr.name, t, conj(pc, g), n, fr)
            else:
                fr.returns.append((pc, ''))
                self.emit('return', fr.name, '', pc, n, fr)
            fr.exits.append((pc, 'return'))
            return False
        if k in ('BreakStmt', 'ContinueStmt'):
            if fr.loopctl:
                fr.loopctl[-1].append(pc)
                fr.ctl_kinds.append(k)
            self.emit('break' if k == 'BreakStmt' else 'continue', fr.name, '', pc, n, fr)
            return False
        if k == 'GotoStmt':
            label = n.get('targetLabelDeclId')
            fr.pending[label] = disj(fr.pending.get(label, False), pc)
            self.emit('goto', fr.name, str(label), pc, n, fr)
            fr.exits.append((pc, 'goto'))
            return False
        if k == 'LabelStmt':
            inc = fr.pending.pop(n.get('declId'), False)
            here = disj(pc, inc)
            ch = C.kids(n)
            return self.stmt(ch[0], here, fr) if ch else here
        if k in ('ForStmt', 'WhileStmt', 'DoStmt'):
            return self.loop(n, pc, fr)
        if k == 'SwitchStmt':
            return self.switch(n, pc, fr)
        if k == 'NullStmt':
            return pc
        if k in ('CaseStmt', 'DefaultStmt'):
            ch = C.kids(n)
            return self.stmt(ch[-1], pc, fr)
        if k == 'AttributedStmt':
            return self.stmt(C.kids(n)[-1], pc, fr)
        # expression statement
        mark = self.mark(fr)
        self.expr_stmt(n, pc, fr)
        if C.always_exits(n):
            return False
        return pc

    def loop(self, n, pc, fr):
        k = n.get('kind')
        ch = C.kids(n)
        self.tmp += 1
        if k == 'DoStmt':
            body, test = ch[0], ch[1]
            tv = C.int_value(test)
            if tv == 0:       # do { ... } while (0): a plain block (macro idiom)
                fr.loopctl.append([])
                out = self.stmt(body, pc, fr)
                brk = fr.loopctl.pop()
                return disj(out, *brk) if brk else out
        L = atom('@iter:%s#%d' % (fr.name, self.tmp))
        raw = n.get('inner', [])
        if k == 'ForStmt':
            init, test, inc, body = raw[0], raw[2], raw[3], raw[4]
            if isinstance(init, dict) and init:
                pc = self.stmt(init, pc, fr) if init.get('kind') == 'DeclStmt' else (self.expr_stmt(init, pc, fr) or pc)
        elif k == 'WhileStmt':
            test, body, inc = ch[0], ch[1], None
        else:
            body, test, inc = ch[0], ch[1], None
        assigned = set()
        for x in C.walk(body):
            if x.get('kind') in ('BinaryOperator', 'CompoundAssignOperator') and x.get('opcode', '').endswith('=') and x.get('opcode') not in ('==', '!=', '<=', '>='):
                l = C.strip(C.kids(x)[0])
                if l.get('kind') == 'DeclRefExpr':
                    assigned.add(l['referencedDecl'].get('id'))
            elif x.get('kind') == 'UnaryOperator' and x.get('opcode') in ('++', '--'):
                l = C.strip(C.kids(x)[0])
                if l.get('kind') == 'DeclRefExpr':
                    assigned.add(l['referencedDecl'].get('id'))
        if isinstance(inc, dict) and inc:
            for x in C.walk(inc):
                if x.get('kind') == 'DeclRefExpr':
                    assigned.add(x['referencedDecl'].get('id'))
        carried = set()
        for did in assigned:
            # inside the body a local may hold what an earlier iteration left: kept opaque under its own name
            nm = self.names.get(did)
            if nm is None:
                continue
            c = atom('@carried:%s#%d' % (nm, self.tmp))
            old = self.env.get(did, [(True, nm)])
            self.env[did] = [(conj(g, neg(c)), t) for g, t in old] + [(c, nm)]
            carried.add(did)
        self._carried = tuple(self._carried) + (carried,)
        body_pc = conj(pc, L)
        if isinstance(test, dict) and test and k != 'DoStmt':
            body_pc = conj(body_pc, self.cond(test, body_pc))
        self.loops.append('%s#%d' % (self.tu.text_of(test)[:60].replace('\n', ' ') if isinstance(test, dict) and test else 'loop', self.tmp))
        fr.loopctl.append([])
        n0 = len(fr.exits)
        self.stmt(body, body_pc, fr)
        if isinstance(inc, dict) and inc:
            self.expr_stmt(inc, body_pc, fr)
        fr.loopctl.pop()
        self.loops.pop()
        self._carried = self._carried[:-1]
        gone = [c for c, kk in fr.exits[n0:]]
        return conj(pc, neg(disj(*gone))) if gone else pc

    def switch(self, n, pc, fr):
        ch = C.kids(n)
        ci = 1 if (n.get('hasVar') or n.get('hasInit')) else 0
        subj = self.alts(ch[ci], pc)
        body = ch[-1]
        stmts = C.kids(body) if body.get('kind') == 'CompoundStmt' else [body]
        # collect labels
        seen = []           # conditions of all case labels so far (for default)
        fr.loopctl.append([])
        n0 = len(fr.exits)
        cur = False          # condition under which control is inside the switch body at this point
        default_nodes = []
        label_conds = []
        for st in stmts:
            node = st
            while node.get('kind') in ('CaseStmt', 'DefaultStmt'):
                if node.get('kind') == 'CaseStmt':
                    lab = self.alts(C.kids(node)[0], pc)[0][1]
                    c = disj(*[conj(g, compare_atom(t, '==', lab)) for g, t in subj])
                    label_conds.append(c)
                node = C.kids(node)[-1]
        anycase = disj(*label_conds) if label_conds else False
        for st in stmts:
            node = st
            enter = False
            while node.get('kind') in ('CaseStmt', 'DefaultStmt'):
                if node.get('kind') == 'CaseStmt':
                    lab = self.alts(C.kids(node)[0], pc)[0][1]
                    enter = disj(enter, *[conj(pc, g, compare_atom(t, '==', lab)) for g, t in subj])
                else:
                    enter = disj(enter, conj(pc, neg(anycase)))
                node = C.kids(node)[-1]
            cur = disj(cur, enter)
            if cur is False:
                continue
            cur = self.stmt(node, cur, fr)
            if cur is None:
                cur = False
        brk = fr.loopctl.pop()
        out = disj(cur, *brk) if brk else cur
        # no label matched and no default
        has_default = any(_has_default(st) for st in stmts)
        if not has_default:
            out = disj(out, conj(pc, neg(anycase)))
        gone = [c for c, kk in fr.exits[n0:]]
        if gone:
            out = conj(out, neg(disj(*gone)))
        return out


def _has_default(st):
    node = st
    while node.get('kind') in ('CaseStmt', 'DefaultStmt'):
        if node.get('kind') == 'DefaultStmt':
            return True
        node = C.kids(node)[-1]
    return False


def _has_label(n):
    return any(x.get('kind') == 'LabelStmt' for x in C.walk(n))


def _is_global(tu, declref):
    rd = declref.get('referencedDecl', {})
    d = tu.by_id.get(rd.get('id'))
    if d is None:
        return rd.get('kind') == 'VarDecl' and False
    p = tu.par(d)
    return p is not None and p.get('kind') == 'TranslationUnitDecl'


def wrap(t):
    """parenthesise a sub-expression text when it contains a top-level binary operator"""
    depth = 0
    for i, ch in enumerate(t):
        if ch in '([':
            depth += 1
        elif ch in ')]':
            depth -= 1
        elif depth == 0 and ch in '+-*/%&|^<>=?!~' and i > 0:
            if ch in '-' and t[i - 1] in '([':
                continue
            if ch == '>' and t[i - 1] == '-':
                continue
            if ch == '-' and i + 1 < len(t) and t[i + 1] == '>':
                continue
            return '(%s)' % t
    return t


def member_text(base, arrow, name):
    if arrow and base.startswith('&') and not base.startswith('&&'):
        return '%s.%s' % (wrap_postfix(base[1:]), name)       # (&x)->f  ==  x.f
    return '%s%s%s' % (wrap_postfix(base), '->' if arrow else '.', name)


def wrap_postfix(t):
    """operand of a postfix operator (->, ., []): a unary-prefixed or binary expression needs parentheses"""
    if t[:1] in '&*-!~' or (t.startswith('(') and not _balanced(t[1:-1])):
        return '(%s)' % t if not (t.startswith('(') and t.endswith(')') and _balanced(t[1:-1])) else t
    return wrap(t)


_NULLS = ('0', '((void*)0)', 'NULL', "'\\0'", '0L', '0U', '0UL')


def truth_atom(t):
    if t in ('0',):
        return False
    if re.match(r'^-?\d+$', t):
        return True
    if t.startswith('!'):
        return neg(truth_atom(unwrap(t[1:])))
    if t.startswith('&') and not t.startswith('&&'):
        return True          # the address of an object is never NULL
    return atom(t)


def unwrap(t):
    while t.startswith('(') and t.endswith(')') and _balanced(t[1:-1]):
        t = t[1:-1]
    return t


def _balanced(t):
    d = 0
    for ch in t:
        if ch == '(':
            d += 1
        elif ch == ')':
            d -= 1
            if d < 0:
                return False
    return d == 0


def compare_atom(l, op, r):
    l, r = unwrap(l), unwrap(r)
    if re.match(r'^-?\d+$', l) and re.match(r'^-?\d+$', r):
        a, b = int(l), int(r)
        return {'==': a == b, '!=': a != b, '<': a < b, '>': a > b, '<=': a <= b, '>=': a >= b}[op]
    if op in ('==', '!='):
        if l in _NULLS and r not in _NULLS:
            l, r = r, l
        if r in _NULLS:
            f = neg(truth_atom(l))
        else:
            if re.match(r'^-?\d+$|^[A-Z][A-Z0-9_]*$', l) and not re.match(r'^-?\d+$|^[A-Z][A-Z0-9_]*$', r):
                l, r = r, l
            f = atom('%s == %s' % (l, r))
        return f if op == '==' else neg(f)
    # all four orderings are expressed with the one atom `a < b`
    if op == '<':
        return atom('%s < %s' % (l, r))
    if op == '>':
        return atom('%s < %s' % (r, l))
    if op == '>=':
        return neg(atom('%s < %s' % (l, r)))
    return neg(atom('%s < %s' % (r, l)))


def summarise(ctx, rel, fname, **kw):
    cache = ctx.__dict__.setdefault('_cgsa_cache', {})
    key = (rel, fname, tuple(sorted(kw.get('opaque', ()))), tuple(sorted(kw.get('inline', ()))), kw.get('depth', 3), kw.get('inline_static', True), kw.get('keep_ptr_casts', False))
    if key not in cache:
        cache[key] = CSummary(ctx.c.tu(rel), fname, **kw)
    return cache[key]
