"""E-tab: reader for reST `list-table` directives (docs/website/annotations/giannotations.rst)."""
import re


def list_tables(text):
    """yield tables as lists of rows, each row a list of cell strings"""
    lines = text.split('\n')
    i = 0
    tables = []
    while i < len(lines):
        if lines[i].strip().startswith('.. list-table::'):
            i += 1
            rows = []
            cur = None
            cell = None
            while i < len(lines) and (lines[i].startswith(' ') or not lines[i].strip()):
                ln = lines[i]
                m = re.match(r'^\s+\* -\s?(.*)$', ln)
                m2 = re.match(r'^\s+-\s?(.*)$', ln)
                if m:
                    cur = [m.group(1).strip()]
                    rows.append(cur)
                elif m2 and cur is not None and not ln.strip().startswith(':'):
                    cur.append(m2.group(1).strip())
                elif cur is not None and ln.strip() and not ln.strip().startswith(':'):
                    cur[-1] = (cur[-1] + ' ' + ln.strip()).strip()
                i += 1
            tables.append(rows)
        else:
            i += 1
    return tables


def annotation_rows(text):
    """[(annotation name, applies-to text)] from the annotation tables; a blank first cell continues the previous annotation"""
    out = []
    for rows in list_tables(text):
        if not rows or not rows[0] or rows[0][0].lower() != 'annotation':
            continue
        last = None
        for r in rows[1:]:
            if len(r) < 2:
                continue
            first = r[0]
            m = re.match(r'``\(([\w-]+)', first)
            if m:
                last = m.group(1)
            elif first.strip():
                last = None
            if last:
                out.append((last, r[1]))
    return out
