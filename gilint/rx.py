"""E-rx: regular-expression automata built from CPython's own regex parse tree (re._parser).

Supports the constructs used in giscanner: literals, classes (ranges, categories, negation), `.`,
greedy/lazy/possessive repeats, groups, alternation, ^, $, \\Z, \\b is NOT supported, look-ahead is
supported only as a trailing/leading intersection via `lookahead_ok`.  Anything else -> RxError
(mapped to ANALYSIS-ERROR by callers, never to a verdict).

A *symbol* outside the character alphabet can be introduced for a placeholder literal (used for the
opaque NAME in C19): code points listed in `symbols` are excluded from `.`, negated classes and
categories and only match themselves.
"""
import re
import sys

try:
    import re._parser as sre_parse
    import re._constants as sre_c
except ImportError:  # python < 3.11
    import sre_parse
    import sre_constants as sre_c

MAXCP = sys.maxunicode + 1
_ALL = None
_CAT_CACHE = {}


class RxError(Exception):
    pass


def _allchars():
    global _ALL
    if _ALL is None:
        _ALL = ''.join(map(chr, range(MAXCP)))
    return _ALL


def _intervals_of(pattern, flags=0):
    """sorted list of [lo, hi) code point intervals matched by a one-character regex"""
    key = (pattern, flags)
    if key not in _CAT_CACHE:
        rx = re.compile('(?:%s)+' % pattern, flags | re.DOTALL)
        _CAT_CACHE[key] = [(m.start(), m.end()) for m in rx.finditer(_allchars())]
    return _CAT_CACHE[key]


CATEGORY_RX = {
    'CATEGORY_DIGIT': r'\d', 'CATEGORY_NOT_DIGIT': r'\D',
    'CATEGORY_SPACE': r'\s', 'CATEGORY_NOT_SPACE': r'\S',
    'CATEGORY_WORD': r'\w', 'CATEGORY_NOT_WORD': r'\W',
}


class CharSet(object):
    """set of code points as sorted disjoint [lo, hi) intervals"""
    def __init__(self, ivs=()):
        self.ivs = self._norm(ivs)

    @staticmethod
    def _norm(ivs):
        out = []
        for lo, hi in sorted(ivs):
            if lo >= hi:
                continue
            if out and lo <= out[-1][1]:
                out[-1] = (out[-1][0], max(out[-1][1], hi))
            else:
                out.append((lo, hi))
        return out

    def union(self, o):
        return CharSet(self.ivs + o.ivs)

    def complement(self):
        out = []
        cur = 0
        for lo, hi in self.ivs:
            if cur < lo:
                out.append((cur, lo))
            cur = hi
        if cur < MAXCP:
            out.append((cur, MAXCP))
        return CharSet(out)

    def minus(self, o):
        return self.intersect(o.complement())

    def intersect(self, o):
        out = []
        i = j = 0
        a, b = self.ivs, o.ivs
        while i < len(a) and j < len(b):
            lo = max(a[i][0], b[j][0])
            hi = min(a[i][1], b[j][1])
            if lo < hi:
                out.append((lo, hi))
            if a[i][1] < b[j][1]:
                i += 1
            else:
                j += 1
        return CharSet(out)

    def contains(self, cp):
        for lo, hi in self.ivs:
            if lo <= cp < hi:
                return True
        return False

    def empty(self):
        return not self.ivs

    def __repr__(self):
        return 'CharSet(%s)' % ','.join('%x-%x' % (lo, hi - 1) for lo, hi in self.ivs[:6])


def _opname(op):
    return str(op)


_CAT_TXT = {'CATEGORY_DIGIT': r'\d', 'CATEGORY_NOT_DIGIT': r'\D', 'CATEGORY_SPACE': r'\s',
            'CATEGORY_NOT_SPACE': r'\S', 'CATEGORY_WORD': r'\w', 'CATEGORY_NOT_WORD': r'\W'}


def _cls_escape(cp):
    ch = chr(cp)
    if ch in '\\]^-[':
        return '\\' + ch
    if cp < 32 or cp == 127:
        return '\\x%02x' % cp
    return ch


def atom_text(op, av):
    """regex source text of a single-character atom (used to query CPython's matcher for its exact set)"""
    name = _opname(op)
    if name == 'LITERAL':
        return '[' + _cls_escape(av) + ']'
    if name == 'NOT_LITERAL':
        return '[^' + _cls_escape(av) + ']'
    if name == 'ANY':
        return '.'
    if name == 'IN':
        out = ''
        neg = False
        for o, a in av:
            on = _opname(o)
            if on == 'NEGATE':
                neg = True
            elif on == 'LITERAL':
                out += _cls_escape(a)
            elif on == 'RANGE':
                out += _cls_escape(a[0]) + '-' + _cls_escape(a[1])
            elif on == 'CATEGORY':
                out += _CAT_TXT[_opname(a)]
            else:
                raise RxError('class item %s' % on)
        return '[' + ('^' if neg else '') + out + ']'
    raise RxError('not a character atom: %s' % name)


class NFA(object):
    def __init__(self):
        self.n = 0
        self.eps = {}      # state -> set(state)
        self.trans = {}    # state -> list of (CharSet, state)

    def new(self):
        s = self.n
        self.n += 1
        self.eps[s] = set()
        self.trans[s] = []
        return s


class Builder(object):
    def __init__(self, flags, symbols=()):
        self.flags = flags
        self.nfa = NFA()
        self.symbols = CharSet([(s, s + 1) for s in symbols])
        self.nosym = self.symbols.complement()
        self.groups = {}
        self.at_end_states = []   # (state, kind)

    def charset_of(self, op, av):
        name = _opname(op)
        ic = bool(self.flags & re.IGNORECASE)
        if ic:
            # exact case-insensitive semantics: ask CPython's own matcher about the single-character atom
            txt = atom_text(op, av)
            f = re.IGNORECASE | (re.ASCII if (self.flags & re.ASCII) else 0) | (re.DOTALL if (self.flags & re.DOTALL) else 0)
            return CharSet(_intervals_of(txt, f)).intersect(self.nosym)
        if name == 'LITERAL':
            return CharSet([(av, av + 1)])
        if name == 'NOT_LITERAL':
            return CharSet([(av, av + 1)]).complement().intersect(self.nosym)
        if name == 'ANY':
            if self.flags & re.DOTALL:
                return self.nosym
            return CharSet([(10, 11)]).complement().intersect(self.nosym)
        if name == 'IN':
            neg = False
            cs = CharSet()
            for o, a in av:
                on = _opname(o)
                if on == 'NEGATE':
                    neg = True
                elif on == 'LITERAL':
                    cs = cs.union(CharSet([(a, a + 1)]))
                elif on == 'RANGE':
                    cs = cs.union(CharSet([(a[0], a[1] + 1)]))
                elif on == 'CATEGORY':
                    cn = _opname(a)
                    if cn not in CATEGORY_RX:
                        raise RxError('category %s' % cn)
                    f = re.ASCII if (self.flags & re.ASCII) else 0
                    cs = cs.union(CharSet(_intervals_of(CATEGORY_RX[cn], f)).intersect(self.nosym))
                else:
                    raise RxError('class item %s' % on)
            if neg:
                cs = cs.complement().intersect(self.nosym)
            return cs
        raise RxError('not a character atom: %s' % name)

    def seq(self, items, start):
        cur = start
        for op, av in items:
            cur = self.item(op, av, cur)
        return cur

    def item(self, op, av, start):
        nfa = self.nfa
        name = _opname(op)
        if name in ('LITERAL', 'NOT_LITERAL', 'ANY', 'IN'):
            end = nfa.new()
            nfa.trans[start].append((self.charset_of(op, av), end))
            return end
        if name == 'SUBPATTERN':
            group, add_flags, del_flags, p = av
            if add_flags or del_flags:
                raise RxError('inline flags')
            return self.seq(p, start)
        if name == 'BRANCH':
            end = nfa.new()
            for alt in av[1]:
                s = nfa.new()
                nfa.eps[start].add(s)
                e = self.seq(alt, s)
                nfa.eps[e].add(end)
            return end
        if name in ('MAX_REPEAT', 'MIN_REPEAT', 'POSSESSIVE_REPEAT'):
            lo, hi, p = av
            cur = start
            if lo > 64 or (hi != sre_c.MAXREPEAT and hi > 64):
                raise RxError('repeat bound too large')
            for _ in range(lo):
                cur = self.seq(p, cur)
            if hi == sre_c.MAXREPEAT:
                loop = nfa.new()
                nfa.eps[cur].add(loop)
                e = self.seq(p, loop)
                nfa.eps[e].add(loop)
                return loop
            end = nfa.new()
            nfa.eps[cur].add(end)
            for _ in range(hi - lo):
                cur = self.seq(p, cur)
                nfa.eps[cur].add(end)
            return end
        if name == 'AT':
            an = _opname(av)
            if an in ('AT_BEGINNING', 'AT_BEGINNING_STRING'):
                if self.flags & re.MULTILINE and an == 'AT_BEGINNING':
                    raise RxError('^ with MULTILINE')
                # only valid at the very start: callers make sure the pattern is anchored there
                self.begin_anchor_states = getattr(self, 'begin_anchor_states', [])
                self.begin_anchor_states.append(start)
                return start
            if an in ('AT_END', 'AT_END_STRING'):
                if self.flags & re.MULTILINE and an == 'AT_END':
                    raise RxError('$ with MULTILINE')
                end = nfa.new()
                self.at_end_states.append((start, end, an))
                return end
            raise RxError('anchor %s' % an)
        if name == 'ATOMIC_GROUP':
            return self.seq(av, start)
        raise RxError('unsupported regex construct %s' % name)


class DFA(object):
    """deterministic automaton over an explicit partition of the alphabet"""
    def __init__(self, start, accept, delta, nclasses):
        self.start = start
        self.accept = accept
        self.delta = delta
        self.nclasses = nclasses


def parse(pattern, flags=0):
    try:
        return sre_parse.parse(pattern, flags)
    except Exception as e:
        raise RxError('regex does not parse: %s' % e)


class Language(object):
    """The set of strings s for which `re.compile(pattern, flags).<mode>(s)` succeeds."""
    def __init__(self, pattern, flags=0, mode='match', symbols=()):
        self.pattern = pattern
        self.mode = mode
        p = parse(pattern, flags)
        self.flags = p.state.flags if hasattr(p, 'state') else flags
        self.groupdict = dict(p.state.groupdict) if hasattr(p, 'state') else {}
        b = Builder(self.flags, symbols)
        self.builder = b
        nfa = b.nfa
        s0 = nfa.new()
        start = s0
        items = list(p)
        if mode == 'search' and items and _opname(items[0][0]) == 'AT' and _opname(items[0][1]).startswith('AT_BEGINNING'):
            mode = 'match'
        self.mode = mode
        if mode == 'search':
            pre = nfa.new()
            nfa.trans[pre].append((CharSet([(0, MAXCP)]), pre))
            nfa.eps[pre].add(s0)
            start = pre
        end = b.seq(list(p), s0)
        # ^ anchors must be at a position reachable only with no input consumed (mode match/fullmatch)
        if getattr(b, 'begin_anchor_states', []):
            if mode == 'search':
                raise RxError('^ inside a pattern used with search() not supported')
            reach = set([s0])
            stack = [s0]
            while stack:
                q = stack.pop()
                for t in nfa.eps[q]:
                    if t not in reach:
                        reach.add(t)
                        stack.append(t)
            for st in b.begin_anchor_states:
                if st not in reach:
                    raise RxError('^ after consumed input not supported')
        self.nfa = nfa
        self.start = start
        self.final = nfa.new()
        nfa.eps[end].add(self.final)
        if mode in ('match', 'search'):
            nfa.trans[self.final].append((CharSet([(0, MAXCP)]), self.final))
        # $ : the rest of the input must be '' or '\n' (non-MULTILINE); \Z: ''.  We implement $ by
        # letting the automaton continue only if what follows can be completed: since after `$` the
        # repo's patterns have nothing but the end, we model `$`/`\Z` as end-constraints.
        self.end_constraints = b.at_end_states
        for (a, e, kind) in b.at_end_states:
            # a --eps--> e requires "at end": handled in determinisation through a marker state
            pass

    def atoms(self):
        out = [CharSet([(10, 11)])]
        for s, lst in self.nfa.trans.items():
            for cs, t in lst:
                out.append(cs)
        return out


def partition(charsets):
    """elementary intervals of the union of boundaries; returns list of representative code points
    and a function mapping a CharSet to the frozenset of class ids it contains"""
    bounds = set([0, MAXCP, 10, 11])
    for cs in charsets:
        for lo, hi in cs.ivs:
            bounds.add(lo)
            bounds.add(hi)
    bl = sorted(bounds)
    reps = []
    for i in range(len(bl) - 1):
        reps.append(bl[i])
    # merge classes with identical signature
    sig = {}
    for r in reps:
        k = tuple(cs.contains(r) for cs in charsets)
        sig.setdefault(k, r)
    # surrogates: keep as ordinary code points
    classes = sorted(sig.values())
    return classes


def classifier(charsets, classes):
    sig = {}
    for i, c in enumerate(classes):
        sig[tuple(cs.contains(c) for cs in charsets)] = i
    return lambda cp: sig[tuple(cs.contains(cp) for cs in charsets)]


def determinize(lang, classes):
    """subset construction; `$` edges are taken only when remaining input is '' or '\\n' -
    implemented with a two-layer state: (set of nfa states, pending end-obligation)"""
    nfa = lang.nfa
    endmap = {}
    for a, e, kind in lang.end_constraints:
        endmap.setdefault(a, []).append((e, kind))

    # NFA states extended: (q, mode) mode 0 = free, 1 = after `$` (only an optional single '\n' may
    # follow, then end), 2 = after '\n' following `$` or after \Z (nothing may follow)
    def closure(states):
        stack = list(states)
        seen = set(states)
        while stack:
            q, md = stack.pop()
            for t in nfa.eps[q]:
                if (t, md) not in seen:
                    seen.add((t, md))
                    stack.append((t, md))
            for e, kind in endmap.get(q, ()):
                nm = max(md, 1 if kind == 'AT_END' else 2)
                if (e, nm) not in seen:
                    seen.add((e, nm))
                    stack.append((e, nm))
        return frozenset(seen)

    def step(S, cp):
        out = set()
        for q, md in S:
            if md == 2:
                continue
            for cs, t in nfa.trans[q]:
                if md == 1:
                    # after `$`: only the trailing newline may be consumed, by nothing (input just ends)
                    continue
                if cs.contains(cp):
                    out.add((t, md))
            if md == 1 and cp == 10 and lang.mode != 'fullmatch':
                # `$` matched before a final newline: consume it, then must be at end;
                # in `match` mode trailing free run is irrelevant (match already succeeded)
                out.add((q, 2))
        return closure(out)

    start = closure({(lang.start, 0)})
    ids = {start: 0}
    order = [start]
    delta = {}
    i = 0
    while i < len(order):
        S = order[i]
        for ci, cp in enumerate(classes):
            T = step(S, cp)
            if T not in ids:
                ids[T] = len(order)
                order.append(T)
            delta[(ids[S], ci)] = ids[T]
        i += 1
        if len(order) > 20000:
            raise RxError('automaton too large')
    accept = set()
    for S, k in ids.items():
        if any(q == lang.final for q, md in S):
            accept.add(k)
    return DFA(0, accept, delta, len(classes))


def compare(l1, l2):
    """None if the two languages are equal, else a shortest distinguishing word (as str) and which side accepts it"""
    cs = l1.atoms() + l2.atoms()
    classes = partition(cs)
    d1 = determinize(l1, classes)
    d2 = determinize(l2, classes)
    start = (d1.start, d2.start)
    seen = {start: None}
    queue = [start]
    qi = 0
    while qi < len(queue):
        a, b = queue[qi]
        qi += 1
        if (a in d1.accept) != (b in d2.accept):
            word = []
            cur = (a, b)
            while seen[cur] is not None:
                prev, ci = seen[cur]
                word.append(chr(classes[ci]))
                cur = prev
            return ''.join(reversed(word)), ('first' if a in d1.accept else 'second')
        for ci in range(len(classes)):
            nxt = (d1.delta[(a, ci)], d2.delta[(b, ci)])
            if nxt not in seen:
                seen[nxt] = ((a, b), ci)
                queue.append(nxt)
    return None


def stats(l1, l2):
    classes = partition(l1.atoms() + l2.atoms())
    d1 = determinize(l1, classes)
    d2 = determinize(l2, classes)
    return {'alphabet_classes': len(classes), 'dfa_states': [len(set(k[0] for k in d1.delta)), len(set(k[0] for k in d2.delta))]}


def universal(lang, over=None):
    """Is every string (over code points in `over`, default all but newline) accepted? Returns None or a counterexample."""
    allow = over or CharSet([(10, 11)]).complement()
    classes = [c for c in partition(lang.atoms()) if allow.contains(c)]
    d = determinize(lang, classes)
    seen = {d.start: None}
    queue = [d.start]
    qi = 0
    while qi < len(queue):
        a = queue[qi]
        qi += 1
        if a not in d.accept:
            word = []
            cur = a
            while seen[cur] is not None:
                prev, ci = seen[cur]
                word.append(chr(classes[ci]))
                cur = prev
            return ''.join(reversed(word))
        for ci in range(len(classes)):
            n = d.delta[(a, ci)]
            if n not in seen:
                seen[n] = (a, ci)
                queue.append(n)
    return None
