"""E-attr (writer side): symbolic interpretation of GIRWriter's attribute-list building.

Executes the writer's methods over *symbolic* model objects: attribute lists are tracked exactly
(append/extend/insert/list()/helper calls), conditions are collected as guards (source text after
substituting actual arguments for parameters), tag names are constant-propagated through the
`_write_*` wrappers.  Result: a tree of Element objects = every XML element the writer can emit,
with for each attribute the guard under which it is emitted and the model expression it carries.
Nothing is executed; unknown statements are ignored, unknown list operations raise AnalysisError.
"""
import ast
import copy

from .core import AnalysisError
from . import pyfront as P


class Row(object):
    def __init__(self, key, value, guards, line, method):
        self.key = key
        self.value = value          # source text (after substitution)
        self.guards = list(guards)  # [(text, polarity)]
        self.line = line
        self.method = method

    def guard_text(self):
        return ' and '.join((t if pol else 'not (%s)' % t) for t, pol in self.guards) or 'always'

    def __repr__(self):
        return '<%s=%s if %s>' % (self.key, self.value, self.guard_text())


class SymList(object):
    def __init__(self, rows=None):
        self.rows = list(rows or [])


class Element(object):
    def __init__(self, tag, rows, guards, method, line, data=None, repeat=None):
        self.tag = tag
        self.rows = rows
        self.guards = list(guards)
        self.method = method
        self.line = line
        self.data = data            # source text of element text, if any
        self.children = []
        self.repeat = repeat        # list of enclosing loop iterables (source text)
        self.parent = None

    def keys(self):
        return [r.key for r in self.rows]

    def walk(self):
        yield self
        for c in self.children:
            if isinstance(c, Element):
                for x in c.walk():
                    yield x

    def __repr__(self):
        return '<Element %s %s>' % (self.tag, self.keys())


class Ref(object):
    """recursive call that was not expanded again"""
    def __init__(self, method, args, guards):
        self.method = method
        self.args = args
        self.guards = list(guards)


class Phi(object):
    """value of a local that depends on the branch taken: [(text, guard)]"""
    def __init__(self, alts):
        self.alts = alts


class _Subst(ast.NodeTransformer):
    def __init__(self, env):
        self.env = env

    def visit_Name(self, n):
        if isinstance(n.ctx, ast.Load) and n.id in self.env and isinstance(self.env[n.id], str):
            try:
                return ast.parse(self.env[n.id], mode='eval').body
            except SyntaxError:
                return n
        return n


def clone(n):
    """structural copy along _fields only (nodes carry _parent back-pointers, so copy.deepcopy would copy the module)"""
    if isinstance(n, ast.AST):
        new = type(n)()
        for f in n._fields:
            if hasattr(n, f):
                setattr(new, f, clone(getattr(n, f)))
        for a in ('lineno', 'col_offset', 'end_lineno', 'end_col_offset'):
            if hasattr(n, a):
                setattr(new, a, getattr(n, a))
        return new
    if isinstance(n, list):
        return [clone(x) for x in n]
    return n


def subst(node, env):
    if node is None:
        return None
    if not any(isinstance(x, ast.Name) and x.id in env and isinstance(env[x.id], str) for x in ast.walk(node)):
        return P.src(node)
    return P.src(_Subst(env).visit(clone(node)))


class WriterModel(object):
    def __init__(self, py, modname='girwriter', cname='GIRWriter', entry='_write_repository', entry_args=('namespace',)):
        self.py = py
        self.modname = modname
        self.cname = cname
        self.mod = py.mod(modname)
        self.methods = py.methods(modname, cname)
        if entry not in self.methods:
            raise AnalysisError('%s.%s missing' % (cname, entry))
        self.root = Element('#document', [], [], entry, 0)
        self.stack = []
        self.loops = []
        self.list_sites = []     # (method, lineno, iter text, sorted?) for every for-loop that emits
        f = self.methods[entry]
        env = {}
        for p, a in zip([x.arg for x in f.args.args][1:], entry_args):
            env[p] = a
        self.call(entry, env, {}, [], self.root)

    # ------------------------------------------------------------------ helpers
    def fold_text(self, text):
        try:
            node = ast.parse(text, mode='eval').body
        except SyntaxError:
            return None
        return self.py.try_fold(node, self.mod)

    def tuple_row(self, node, env, guards, method):
        if isinstance(node, ast.Name) and isinstance(env.get(node.id), str):
            try:
                sub = ast.parse(env[node.id], mode='eval').body
                if isinstance(sub, ast.Tuple):
                    ast.copy_location(sub, node)
                    for x in ast.walk(sub):
                        if not hasattr(x, 'lineno'):
                            x.lineno = node.lineno
                    node, env = sub, {}
            except SyntaxError:
                pass
        if isinstance(node, ast.Tuple) and len(node.elts) == 2:
            k = self.py.try_fold(node.elts[0], self.mod)
            if k is None:
                k = self.fold_text(subst(node.elts[0], env))
            if isinstance(k, str):
                return Row(k, subst(node.elts[1], env), guards, node.lineno, method)
        raise AnalysisError('%s:%d: attribute tuple with non-constant key: %s' % (method, node.lineno, P.src(node)))

    def rows_of(self, node, env, lists, guards, method):
        if isinstance(node, (ast.List, ast.Tuple)):
            return [self.tuple_row(e, env, guards, method) for e in node.elts]
        if isinstance(node, ast.Name) and node.id in lists:
            return [Row(r.key, r.value, r.guards + [g for g in guards if g not in r.guards], r.line, r.method) for r in lists[node.id].rows]
        if node is None:
            return []
        if isinstance(node, ast.Constant) and node.value is None:
            return []
        if isinstance(node, ast.Call) and (P.call_name(node) or '').startswith('self.') and P.call_name(node)[5:] in self.methods and '.' not in P.call_name(node)[5:]:
            # an attribute list produced by a helper and used in place: self.write_tag(tag, self._helper(x))
            got = self.call_returning_list(P.call_name(node)[5:], node, env, lists, guards, Element('#scratch', [], [], method, 0))
            if got is not None:
                return [Row(r.key, r.value, r.guards + [g for g in guards if g not in r.guards], r.line, r.method) for r in got.rows]
        if isinstance(node, (ast.GeneratorExp, ast.ListComp)) and len(node.generators) == 1:
            # (key, value) pairs produced from a literal table, possibly filtered
            gen = node.generators[0]
            its = self.literal_items(gen.iter, env)
            if its is not None:
                items, ienv = its
                rows = []
                for it in items:
                    e2 = self.bind_target(gen.target, it, ienv, env)
                    if e2 is None:
                        break
                    gs = list(guards) + [(subst(c, e2), True) for c in gen.ifs]
                    rows.append(self.tuple_row(node.elt, e2, gs, method))
                else:
                    return rows
        raise AnalysisError('%s:%d: cannot interpret attribute list expression %s' % (method, getattr(node, 'lineno', 0), P.src(node)))

    def literal_items(self, node, env):
        """elements of a literal tuple/list (directly, or through a local bound to one): (elements, env to read them in)"""
        if isinstance(node, (ast.Tuple, ast.List)) and not any(isinstance(e, ast.Starred) for e in node.elts) and len(node.elts) <= 24:
            return list(node.elts), env
        if isinstance(node, ast.Attribute) and isinstance(node.value, ast.Name) and node.value.id in ('self', 'cls'):
            # a class-level literal table that no method rebinds
            try:
                cm, cv = self.py.class_attr(self.modname, self.cname, node.attr)
            except Exception:
                cv = None
            rebinds = any(isinstance(x, ast.Attribute) and x.attr == node.attr and isinstance(x.ctx, (ast.Store, ast.Del)) for mf in self.methods.values() for x in ast.walk(mf))
            if isinstance(cv, (ast.Tuple, ast.List)) and not rebinds and len(cv.elts) <= 24 and not any(isinstance(e, ast.Starred) for e in cv.elts):
                return list(cv.elts), {}
        if isinstance(node, ast.Name) and isinstance(env.get(node.id), str):
            try:
                sub = ast.parse(env[node.id], mode='eval').body
            except SyntaxError:
                return None
            if isinstance(sub, (ast.Tuple, ast.List)) and len(sub.elts) <= 24:
                for x in ast.walk(sub):
                    if not hasattr(x, 'lineno'):
                        x.lineno = getattr(node, 'lineno', 0)
                        x.col_offset = 0
                return list(sub.elts), {}
        return None

    def bind_target(self, target, item, ienv, env):
        """environment of one iteration over a literal table: loop names bound to the source text of the components"""
        e2 = dict(env)
        if isinstance(target, ast.Name):
            e2[target.id] = subst(item, ienv)
            return e2
        if isinstance(target, ast.Tuple) and all(isinstance(t, ast.Name) for t in target.elts) and isinstance(item, ast.Tuple) and len(item.elts) == len(target.elts):
            for t, c in zip(target.elts, item.elts):
                e2[t.id] = subst(c, ienv)
            return e2
        return None

    def const_alts(self, ifexp, env):
        """both arms of a conditional expression are string constants (a tag name chosen by a condition)"""
        for arm in (ifexp.body, ifexp.orelse):
            v = self.py.try_fold(arm, self.mod)
            if v is None:
                v = self.fold_text(subst(arm, env))
            if not isinstance(v, str):
                return False
        return True

    def is_pair(self, e, env):
        if isinstance(e, ast.Tuple):
            return True
        if isinstance(e, ast.Name) and isinstance(env.get(e.id), str):
            try:
                return isinstance(ast.parse(env[e.id], mode='eval').body, ast.Tuple)
            except SyntaxError:
                return False
        return False

    # ------------------------------------------------------------------ interpreter
    def call(self, name, env, lists, guards, sink):
        f = self.methods[name]
        if self.stack.count(name) >= 1:
            sink.children.append(Ref(name, dict((k, v) for k, v in env.items() if isinstance(v, str)), guards))
            return
        self.stack.append(name)
        try:
            self.block(f.body, dict(env), lists, list(guards), sink, name)
        finally:
            self.stack.pop()

    def call_returning_list(self, name, call, env, lists, guards, sink):
        """`attrs = self._helper(node)`: a helper that builds an attribute list and returns it"""
        f = self.methods[name]
        rets = [n for n in P.walk_no_nested(f) if isinstance(n, ast.Return) and n.value is not None]
        if len(rets) != 1 or not isinstance(rets[0].value, ast.Name) or self.stack.count(name) >= 1:
            return None
        made = [t.id for t, v, st in P.stores_in(f) if isinstance(t, ast.Name) and isinstance(v, ast.List) and t.id == rets[0].value.id]
        if not made:
            return None
        nenv, nlists = self.bind(name, call, env, lists)
        self.stack.append(name)
        try:
            self.block(f.body, nenv, nlists, list(guards), sink, name)
        finally:
            self.stack.pop()
        return nlists.get(rets[0].value.id)

    def block(self, stmts, env, lists, guards, sink, method):
        guards = list(guards)
        for st in stmts:
            self.stmt(st, env, lists, guards, sink, method)
            if isinstance(st, ast.If):
                be, oe = P.always_exits(st.body), P.always_exits(st.orelse)
                if be and not oe:
                    guards.append((subst(st.test, env), False))
                elif oe and not be:
                    guards.append((subst(st.test, env), True))
            if isinstance(st, (ast.Return, ast.Raise)):
                break

    def bind(self, callee, call, env, lists):
        f = self.methods[callee]
        params = [a.arg for a in f.args.args][1:]
        defaults = P.param_defaults(f)
        nenv, nlists = {}, {}
        bound = P.bind_call(call, f)
        for p in params:
            a = bound.get(p)
            if a is None:
                d = defaults.get(p)
                if d is not None:
                    if isinstance(d, (ast.List, ast.Tuple)) and not d.elts:
                        nlists[p] = SymList()
                    else:
                        nenv[p] = P.src(d)
                continue
            if isinstance(a, ast.Name) and a.id in lists:
                nlists[p] = lists[a.id]
            elif isinstance(a, (ast.List,)) and all(self.is_pair(e, env) for e in a.elts):
                nlists[p] = SymList(self.rows_of(a, env, lists, [], callee))
            elif isinstance(a, ast.Name) and isinstance(env.get(a.id), Phi):
                nenv[p] = env[a.id]
            elif isinstance(a, ast.IfExp) and self.const_alts(a, env):
                t = subst(a.test, env)
                nenv[p] = Phi([(subst(a.body, env), [(t, True)]), (subst(a.orelse, env), [(t, False)])])
            else:
                nenv[p] = subst(a, env)
        return nenv, nlists

    def stmt(self, st, env, lists, guards, sink, method):
        if isinstance(st, ast.Assign) and len(st.targets) == 1 and isinstance(st.targets[0], ast.Name):
            v = st.targets[0].id
            val = st.value
            if isinstance(val, ast.List) and (not val.elts or all(self.is_pair(e, env) for e in val.elts)):
                lists[v] = SymList(self.rows_of(val, env, lists, guards_for_new_list(guards), method))
                env.pop(v, None)
                return
            if isinstance(val, ast.IfExp) and all(isinstance(a, ast.List) and all(self.is_pair(e, env) for e in a.elts) for a in (val.body, val.orelse)):
                # attrs = [pairs] if cond else [other pairs]
                t = subst(val.test, env)
                lists[v] = SymList(self.rows_of(val.body, env, lists, [(t, True)], method) + self.rows_of(val.orelse, env, lists, [(t, False)], method))
                env.pop(v, None)
                return
            if isinstance(val, ast.Call) and P.call_name(val) == 'list' and len(val.args) == 1 and isinstance(val.args[0], ast.Name) \
                    and val.args[0].id in lists:
                lists[v] = SymList(lists[val.args[0].id].rows)
                return
            if isinstance(val, ast.Call) and (P.call_name(val) or '').startswith('self.') and P.call_name(val)[5:] in self.methods and '.' not in P.call_name(val)[5:]:
                got = self.call_returning_list(P.call_name(val)[5:], val, env, lists, guards, sink)
                if got is not None:
                    lists[v] = got
                    env.pop(v, None)
                    return
            self.expr_calls(val, env, lists, guards, sink, method)
            if isinstance(val, ast.IfExp) and self.const_alts(val, env):
                t = subst(val.test, env)
                env[v] = Phi([(subst(val.body, env), [(t, True)]), (subst(val.orelse, env), [(t, False)])])
            elif isinstance(val, ast.Name) and isinstance(env.get(val.id), Phi):
                env[v] = env[val.id]
            else:
                env[v] = subst(val, env)
            lists.pop(v, None)
            return
        if isinstance(st, ast.Assign):
            self.expr_calls(st.value, env, lists, guards, sink, method)
            return
        if isinstance(st, ast.Expr):
            self.expr_calls(st.value, env, lists, guards, sink, method)
            return
        if isinstance(st, ast.If):
            t = subst(st.test, env)
            benv, oenv = dict(env), dict(env)
            self.block(st.body, benv, lists, guards + [(t, True)], sink, method)
            self.block(st.orelse, oenv, lists, guards + [(t, False)], sink, method)
            for var in set(benv) | set(oenv):
                b, o = benv.get(var), oenv.get(var)
                if b is o or (isinstance(b, str) and b == o):
                    if b is not None:
                        env[var] = b
                    continue
                alts = []
                for val, g in ((b, (t, True)), (o, (t, False))):
                    if val is None:
                        continue
                    if isinstance(val, Phi):
                        alts.extend((tx, gs + [g]) for tx, gs in val.alts)
                    else:
                        alts.append((val, [g]))
                env[var] = Phi(alts)
            return
        if isinstance(st, (ast.With, ast.AsyncWith)):
            ctxs = [it.context_expr for it in st.items if isinstance(it.context_expr, ast.Call)
                    and P.call_name(it.context_expr) == 'self.tagcontext']
            if len(ctxs) == 1 and ctxs[0].args and isinstance(ctxs[0].args[0], ast.Name) and isinstance(env.get(ctxs[0].args[0].id), Phi):
                var = ctxs[0].args[0].id
                for text, gs in env[var].alts:
                    e2 = dict(env)
                    e2[var] = text
                    inner = self.element(ctxs[0], e2, lists, guards + gs, sink, method, data=False)
                    self.block(st.body, e2, lists, guards + gs, inner, method)
                return
            inner = sink
            for c in ctxs:
                inner = self.element(c, env, lists, guards, inner, method, data=False)
            self.block(st.body, env, lists, guards, inner, method)
            return
        if isinstance(st, (ast.For, ast.AsyncFor)) and not st.orelse and self.literal_items(st.iter, env) is not None \
                and not any(isinstance(n, ast.Break) for n in ast.walk(st)):
            # a loop over a literal table is the sequence of its iterations
            items, ienv = self.literal_items(st.iter, env)
            envs = [self.bind_target(st.target, it, ienv, env) for it in items]
            if all(e is not None for e in envs):
                for e2 in envs:
                    self.block(st.body, e2, lists, guards, sink, method)
                return
        if isinstance(st, (ast.For, ast.AsyncFor)):
            it = subst(st.iter, env)
            self.loops.append(it)
            before = len(list(sink.walk())) if isinstance(sink, Element) else 0
            e2 = dict(env)
            for nm in ast.walk(st.target):
                if isinstance(nm, ast.Name):
                    e2.pop(nm.id, None)
            self.block(st.body, e2, lists, guards, sink, method)
            after = len(list(sink.walk())) if isinstance(sink, Element) else 0
            if after > before:
                self.list_sites.append({'method': method, 'line': st.lineno, 'iter': it, 'raw_iter': P.src(st.iter),
                                        'target': P.src(st.target)})
            self.loops.pop()
            return
        if isinstance(st, ast.Try):
            self.block(st.body, env, lists, guards, sink, method)
            for h in st.handlers:
                self.block(h.body, dict(env), lists, guards + [('except %s' % P.src(h.type), True)], sink, method)
            self.block(st.finalbody, env, lists, guards, sink, method)
            return
        if isinstance(st, ast.Return):
            if st.value is not None:
                self.expr_calls(st.value, env, lists, guards, sink, method)
            return
        # FunctionDef (nested helper), Assert, Raise, Pass ...: no effect on emitted XML

    def expr_calls(self, e, env, lists, guards, sink, method):
        """interpret the calls inside an expression statement (outermost first for self.* calls)"""
        if not isinstance(e, ast.Call):
            for c in ast.iter_child_nodes(e):
                if isinstance(c, ast.expr):
                    self.expr_calls(c, env, lists, guards, sink, method)
            return
        fn = e.func
        nm = P.call_name(e)
        if isinstance(fn, ast.Name) and isinstance(env.get(fn.id), str) and env[fn.id].startswith('self.') and env[fn.id][5:] in self.methods:
            nm = env[fn.id]          # a bound method taken from a dispatch table: `write_node = self._write_x; write_node(node)`
        if isinstance(fn, ast.Call) and P.call_name(fn) == 'getattr' and len(fn.args) == 2 and P.src(fn.args[0]) == 'self':
            mn_ = self.fold_text(subst(fn.args[1], env))     # getattr(self, writer_name)(node) with the name taken from a table
            if isinstance(mn_, str) and mn_ in self.methods:
                nm = 'self.' + mn_
        if isinstance(fn, ast.Attribute) and isinstance(fn.value, ast.Name) and fn.value.id in lists:
            lst = lists[fn.value.id]
            if fn.attr == 'append' and len(e.args) == 1:
                lst.rows.append(self.tuple_row(e.args[0], env, guards, method))
                return
            if fn.attr == 'insert' and len(e.args) == 2:
                lst.rows.insert(0, self.tuple_row(e.args[1], env, guards, method))
                return
            if fn.attr == 'extend' and len(e.args) == 1:
                lst.rows.extend(self.rows_of(e.args[0], env, lists, guards, method))
                return
            raise AnalysisError('%s:%d: unsupported list operation %s' % (method, e.lineno, P.src(e)))
        if nm == 'self.write_tag':
            if e.args and isinstance(e.args[0], ast.Name) and isinstance(env.get(e.args[0].id), Phi):
                var = e.args[0].id
                for text, gs in env[var].alts:
                    e2 = dict(env)
                    e2[var] = text
                    self.element(e, e2, lists, guards + gs, sink, method, data=True)
                return
            self.element(e, env, lists, guards, sink, method, data=True)
            return
        if nm == 'self.tagcontext':
            self.element(e, env, lists, guards, sink, method, data=False)
            return
        if nm and nm.startswith('self.') and nm[5:] in self.methods and '.' not in nm[5:]:
            callee = nm[5:]
            nenv, nlists = self.bind(callee, e, env, lists)
            self.call(callee, nenv, nlists, guards, sink)
            return
        for c in list(e.args) + [k.value for k in e.keywords]:
            self.expr_calls(c, env, lists, guards, sink, method)

    def element(self, call, env, lists, guards, sink, method, data):
        if not call.args:
            raise AnalysisError('%s:%d: element call without a tag' % (method, call.lineno))
        tag = self.py.try_fold(call.args[0], self.mod)
        if tag is None:
            tag = self.fold_text(subst(call.args[0], env))
        if not isinstance(tag, str):
            raise AnalysisError('%s:%d: element name does not fold to a constant: %s' % (method, call.lineno, subst(call.args[0], env)))
        attrs_node = call.args[1] if len(call.args) > 1 else None
        for k in call.keywords:
            if k.arg == 'attributes':
                attrs_node = k.value
        rows = self.rows_of(attrs_node, env, lists, [], method) if attrs_node is not None else []
        # guards local to the row that are already implied by the element's guards are dropped
        eg = list(guards)
        # rows added on a branch that contradicts the branch on which the element is emitted are infeasible
        rows = [r for r in rows if not any((t, not pol) in eg or (t, not pol) in r.guards for t, pol in r.guards)]
        rows = [Row(r.key, r.value, [g for g in r.guards if g not in eg], r.line, r.method) for r in rows]
        d = None
        if data and len(call.args) > 2:
            d = subst(call.args[2], env)
        el = Element(tag, rows, eg, method, call.lineno, d, list(self.loops))
        el.parent = sink
        sink.children.append(el)
        return el

    # ------------------------------------------------------------------ views
    def elements(self):
        return [e for e in self.root.walk() if e is not self.root]

    def by_tag(self):
        out = {}
        for e in self.elements():
            out.setdefault(e.tag, []).append(e)
        return out

    def nesting(self):
        """set of (parent tag, child tag)"""
        out = set()
        for e in self.elements():
            p = e.parent.tag if isinstance(e.parent, Element) else '#document'
            out.add((p, e.tag))
        return out


def guards_for_new_list(guards):
    # rows of a freshly built list carry no guards of their own: the guards of the statement that
    # builds the list are guards of the element (added when the element is emitted)
    return []
