"""E-tab: reader for the subset of RELAX-NG compact syntax used by docs/gir-1.2.rnc.

Yields, per element name, the attribute names it may carry and the element names it may contain
(through named patterns).  It is the repository's own statement of the GIR format.
"""
import re

from .core import AnalysisError

KEYWORDS = set(['element', 'attribute', 'empty', 'text', 'string', 'token', 'default', 'namespace', 'start', 'mixed', 'list', 'notAllowed'])
TOKEN = re.compile(r'''\s*(?:(\#[^\n]*)|("(?:[^"\\]|\\.)*")|([A-Za-z_][\w.\-]*(?::[A-Za-z_*][\w.\-]*)?)|([{}()|&,?*+=]))''')


def tokens(text):
    pos = 0
    out = []
    while pos < len(text):
        m = TOKEN.match(text, pos)
        if not m:
            if text[pos:].strip() == '':
                break
            pos += 1
            continue
        pos = m.end()
        if m.group(1):
            continue
        if m.group(2):
            out.append(('str', m.group(2)))
        elif m.group(3):
            out.append(('id', m.group(3)))
        else:
            out.append(('op', m.group(4)))
    return out


class Pattern(object):
    def __init__(self):
        self.attrs = set()
        self.refs = set()
        self.elements = []      # (name, Pattern)


def parse(text):
    toks = tokens(text)
    defs = {}
    i = 0
    n = len(toks)

    def parse_body(i, stop):
        """parse tokens until the matching close of `stop` ('}' or ')') or until a top-level definition starts"""
        p = Pattern()
        while i < n:
            k, v = toks[i]
            if k == 'op' and v == stop:
                return p, i + 1
            if k == 'op' and v in '({':
                q, i = parse_body(i + 1, ')' if v == '(' else '}')
                p.attrs |= q.attrs
                p.refs |= q.refs
                p.elements += q.elements
                continue
            if k == 'id' and v == 'element':
                name = toks[i + 1][1]
                if toks[i + 2] != ('op', '{'):
                    raise AnalysisError('rnc: element %s without body' % name)
                q, i = parse_body(i + 3, '}')
                p.elements.append((name, q))
                continue
            if k == 'id' and v == 'attribute':
                name = toks[i + 1][1]
                p.attrs.add(name)
                if toks[i + 2] == ('op', '{'):
                    q, i = parse_body(i + 3, '}')
                else:
                    i += 2
                continue
            if k == 'id' and v not in KEYWORDS and ':' not in v:
                # a reference, unless it starts a new definition (followed by '=')
                if stop is None and i + 1 < n and toks[i + 1] == ('op', '='):
                    return p, i
                p.refs.add(v)
            i += 1
        return p, i

    while i < n:
        k, v = toks[i]
        if k == 'id' and i + 1 < n and toks[i + 1] == ('op', '=') and v not in ('default', 'namespace'):
            p, i = parse_body(i + 2, None)
            defs[v] = p
        else:
            # namespace declarations: `namespace c = "..."`, `default namespace core = "..."`
            i += 1
            if k == 'id' and v == 'namespace':
                i += 3 if i + 2 < n else 1
    return defs


class Schema(object):
    def __init__(self, text):
        self.defs = parse(text)
        self.elements = {}       # name -> {'attrs': set, 'children': set}
        for d in self.defs.values():
            self._collect(d)

    def _flatten(self, p, seen=None):
        """attributes and child element names of a pattern, following references"""
        seen = seen if seen is not None else set()
        attrs = set(p.attrs)
        kids = set(name for name, q in p.elements)
        for r in p.refs:
            if r in seen or r not in self.defs:
                continue
            seen.add(r)
            a, k = self._flatten(self.defs[r], seen)
            attrs |= a
            kids |= k
        return attrs, kids

    def _collect(self, p):
        for name, q in p.elements:
            a, k = self._flatten(q)
            e = self.elements.setdefault(name, {'attrs': set(), 'children': set()})
            e['attrs'] |= a
            e['children'] |= k
            self._collect(q)
