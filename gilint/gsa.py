"""E-gsa: gated effect summaries of Python functions (a structured gated-SSA / program-dependence analysis).

For one entry function the analysis walks the statement tree once and records every *effect*
(attribute/subscript store, call that is not inlined, return, raise) together with the boolean
condition under which it happens.  Conditions are formulas over canonical *atoms* (source text of
the leaf tests after copy-propagating locals, inlining in-class helper methods and normalising
`!=`, `is not`, `not in`, `in (a, b)`, `isinstance(x, (A, B))`, `len(x) > 0`, De Morgan forms ...).
Locals carry gated definitions ([(condition, expression)]), so a value selected on several branches
and stored later appears as several stores, each with its own condition.  Loops are summarised by a
fresh atom "some iteration does this"; nothing is executed and no solver is involved: formulas are
compared by truth tables over their (few) atoms and queried with 3-valued (Kleene) valuations.

Rules written on top of this engine state *what* must be stored/called under *which* condition and
are insensitive to renaming locals, extracting/inlining helpers, merging or splitting ifs, early
returns vs nesting, conditional expressions vs statements and equivalent boolean rewrites.
"""
import ast
import itertools
import re

from .core import AnalysisError
from . import pyfront as P
from .wattr import clone

MAXALT = 96
MAXATOMS = 14


# ---------------------------------------------------------------------------------------------- formulas
def atom(t):
    return ('a', t)


_NEG, _CONJ, _DISJ = {}, {}, {}


def neg(f):
    """negation in negation normal form (De Morgan), so that formulas are and/or trees over literals"""
    if f is True or f is False:
        return not f
    r = _NEG.get(f)
    if r is None:
        r = _neg(f)
        _NEG[f] = r
        if isinstance(r, tuple):
            _NEG.setdefault(r, f)
    return r


def _neg(f):
    if f is True:
        return False
    if f is False:
        return True
    if f[0] == 'n':
        return f[1]
    if f[0] == '&':
        return disj(*[neg(x) for x in f[1]])
    if f[0] == '|':
        return conj(*[neg(x) for x in f[1]])
    return ('n', f)


def _flat(op, fs):
    out = []
    for f in fs:
        if isinstance(f, tuple) and f[0] == op:
            out.extend(f[1])
        else:
            out.append(f)
    return out


def _reduce(f, units, depth=0):
    """simplify f knowing that every formula in `units` holds"""
    if f is True or f is False:
        return f
    if f in units:
        return True
    if neg(f) in units:
        return False
    if depth > 3:
        return f
    k = f[0]
    if k == 'n':
        r = _reduce(f[1], units, depth + 1)
        return neg(r)
    if k == '&':
        out = []
        for x in f[1]:
            r = _reduce(x, units, depth + 1)
            if r is False:
                return False
            if r is not True:
                out.append(r)
        return _mk('&', out)
    if k == '|':
        out = []
        for x in f[1]:
            r = _reduce(x, units, depth + 1)
            if r is True:
                return True
            if r is not False:
                out.append(r)
        return _mk('|', out)
    return f


def _mk(op, items):
    out = []
    for f in _flat(op, items):
        if f not in out:
            out.append(f)
    if not out:
        return op == '&'
    if len(out) == 1:
        return out[0]
    return (op, tuple(out))


def conj(*fs):
    if len(fs) == 1:
        return fs[0]
    r = _CONJ.get(fs)
    if r is None:
        r = _conj(fs)
        if len(_CONJ) > 400000:
            _CONJ.clear()
        _CONJ[fs] = r
    return r


def _conj(fs):
    out = []
    for f in _flat('&', fs):
        if f is True:
            continue
        if f is False:
            return False
        if f not in out:
            out.append(f)
    # unit propagation: every conjunct holds while the others are read
    for _ in range(3):
        changed = False
        i = 0
        while i < len(out):
            f = out[i]
            if isinstance(f, tuple) and f[0] != 'a' and not (f[0] == 'n' and f[1][0] == 'a'):
                units = out[:i] + out[i + 1:]
                r = _reduce(f, units)
                if r is not f and r != f:
                    changed = True
                    if r is False:
                        return False
                    if r is True:
                        out.pop(i)
                        continue
                    new = [x for x in _flat('&', [r]) if x not in out]
                    out[i:i + 1] = new
                    continue
            i += 1
        if not changed:
            break
    for f in out:
        if neg(f) in out:
            return False
    if not out:
        return True
    if len(out) == 1:
        return out[0]
    return ('&', tuple(out))


def disj(*fs):
    if len(fs) == 1:
        return fs[0]
    r = _DISJ.get(fs)
    if r is None:
        r = _disj(fs)
        if len(_DISJ) > 400000:
            _DISJ.clear()
        _DISJ[fs] = r
    return r


def _disj(fs):
    out = []
    for f in _flat('|', fs):
        if f is False:
            continue
        if f is True:
            return True
        if f not in out:
            out.append(f)
    for f in out:
        if neg(f) in out:
            return True
    # (A and c) or (A and not c) -> A   (both branches of an if fall through)
    changed = True
    while changed and len(out) > 1:
        changed = False
        for i in range(len(out)):
            for j in range(i + 1, len(out)):
                a = list(_flat('&', [out[i]]))
                b = list(_flat('&', [out[j]]))
                da = [x for x in a if x not in b]
                db = [x for x in b if x not in a]
                if len(da) == 1 and len(db) == 1 and da[0] == neg(db[0]):
                    merged = _mk('&', [x for x in a if x in b])
                    out[i] = merged
                    out.pop(j)
                    changed = True
                    break
                if not da:          # a subsumes b:  a or (a and x) -> a
                    out.pop(j)
                    changed = True
                    break
                if not db:
                    out.pop(i)
                    changed = True
                    break
            if changed:
                break
        if True in out:
            return True
    if not out:
        return False
    if len(out) == 1:
        return out[0]
    return ('|', tuple(out))


def atoms(f, acc=None):
    d = {} if acc is None else dict.fromkeys(acc)
    stack = [f]
    while stack:
        x = stack.pop()
        if isinstance(x, tuple):
            if x[0] == 'a':
                d.setdefault(x[1])
            elif x[0] == 'n':
                stack.append(x[1])
            else:
                stack.extend(reversed(x[1]))
    out = list(d)
    if acc is not None:
        acc[:] = out
        return acc
    return out


def ev3(f, val, default=None):
    """Kleene evaluation; val: {atom text: bool}; atoms not listed evaluate to `default` (None = unknown)."""
    if f is True or f is False:
        return f
    k = f[0]
    if k == 'a':
        return val.get(f[1], default)
    if k == 'n':
        v = ev3(f[1], val, default)
        return None if v is None else (not v)
    if k == '&':
        unk = False
        for x in f[1]:
            v = ev3(x, val, default)
            if v is False:
                return False
            if v is None:
                unk = True
        return None if unk else True
    unk = False
    for x in f[1]:
        v = ev3(x, val, default)
        if v is True:
            return True
        if v is None:
            unk = True
    return None if unk else False


_EQ = re.compile(r'^(.*) == (.*)$')
_CONSTLIKE = re.compile(r"^(?:[A-Za-z_][\w.]*\.)?[A-Z][A-Z0-9_]*$|^'[^']*'$|^-?\d+$|^None$|^True$|^False$")


def _exclusive_groups(names):
    """atoms `X == C1`, `X == C2` with distinct constant-like C cannot both hold; `X is None` excludes `X == C`"""
    groups = {}
    for a in names:
        m = _EQ.match(a)
        if m and _CONSTLIKE.match(m.group(2)) and ' == ' not in m.group(1):
            groups.setdefault(m.group(1), []).append(a)
        elif a.endswith(' is None'):
            groups.setdefault(a[:-8], []).append(a)
    return [g for g in groups.values() if len(g) > 1]


def valuations(names, fixed=None):
    names = [n for n in names if not (fixed and n in fixed)]
    if len(names) > MAXATOMS:
        raise AnalysisError('formula over %d atoms is too large for a truth table: %s' % (len(names), names[:6]))
    ex = _exclusive_groups(list(names) + list(fixed or ()))
    for bits in itertools.product((False, True), repeat=len(names)):
        v = dict(zip(names, bits))
        if fixed:
            v.update(fixed)
        if any(sum(1 for a in g if v.get(a)) > 1 for g in ex):
            continue
        yield v


def assign(f, vals):
    """substitute truth values for atoms and simplify"""
    if f is True or f is False:
        return f
    k = f[0]
    if k == 'a':
        return vals.get(f[1], f)
    if k == 'n':
        r = assign(f[1], vals)
        return neg(r)
    parts = []
    for x in f[1]:
        r = assign(x, vals)
        if k == '&':
            if r is False:
                return False
            if r is not True:
                parts.append(r)
        else:
            if r is True:
                return True
            if r is not False:
                parts.append(r)
    return _mk(k, parts)


def sat(f, budget=None):
    """satisfiability of a condition by case split on its atoms (with the exclusivity of `x == C1` / `x == C2`)"""
    if f is True or f is False:
        return f
    budget = budget or [200000]
    groups = _exclusive_groups(atoms(f))
    gmap = {}
    for g in groups:
        for a in g:
            gmap[a] = [b for b in g if b != a]

    def rec(f):
        if f is True or f is False:
            return f
        budget[0] -= 1
        if budget[0] < 0:
            raise AnalysisError('condition too large to decide: %s' % show(f)[:200])
        # prefer an atom occurring at the top level of a conjunction (unit)
        a = None
        if f[0] == '&':
            for x in f[1]:
                if x[0] == 'a':
                    v = {x[1]: True}
                    for b in gmap.get(x[1], ()):
                        v[b] = False
                    return rec(assign(f, v))
                if x[0] == 'n' and x[1][0] == 'a':
                    return rec(assign(f, {x[1][1]: False}))
        a = atoms(f)[0]
        v = {a: True}
        for b in gmap.get(a, ()):
            v[b] = False
        if rec(assign(f, v)):
            return True
        return rec(assign(f, {a: False}))
    return bool(rec(f))


def _maybe_sat(f):
    """pruning only: a condition too large to decide within a small budget is kept as possibly satisfiable (never a verdict)"""
    try:
        return sat(f, [20000])
    except AnalysisError:
        return True


def implies(f, g):
    return not sat(conj(f, neg(g)))


def equiv(f, g):
    return implies(f, g) and implies(g, f)


def show(f):
    if f is True:
        return 'always'
    if f is False:
        return 'never'
    k = f[0]
    if k == 'a':
        return f[1]
    if k == 'n':
        return 'not (%s)' % show(f[1])
    return '(' + (' and ' if k == '&' else ' or ').join(show(x) for x in f[1]) + ')'


# ---------------------------------------------------------------------------------------------- values
_BUILTINS = frozenset(('isinstance', 'len', 'str', 'int', 'bool', 'list', 'tuple', 'set', 'dict', 'sorted', 'hasattr', 'getattr', 'repr', 'type',
                        'min', 'max', 'any', 'all', 'enumerate', 'zip', 'range', 'reversed', 'issubclass', 'frozenset', 'map', 'filter', 'iter', 'next'))


class ListVal(object):
    """a local list being built: items [(condition, element node)]; aliased through helper parameters"""
    def __init__(self, items=None):
        self.items = list(items or [])


class Eff(object):
    def __init__(self, kind, target, value, cond, node, fn, stack, loops, seq, vnode=None, args=None):
        self.kind = kind          # 'store' | 'aug' | 'call' | 'return' | 'raise'
        self.target = target      # text of store target / dotted callee
        self.value = value        # text of stored / returned value, or of the whole call
        self.cond = cond
        self.node = node
        self.line = getattr(node, 'lineno', 0)
        self.fn = fn              # function in which the construct stands
        self.stack = stack        # inlining chain (function names, outermost first)
        self.loops = loops        # enclosing loop iterables (text)
        self.withs = ()           # enclosing `with` context expressions (text)
        self.seq = seq
        self.vnode = vnode
        self.args = args or []    # texts of call arguments
        self.kwargs = {}

    def when(self):
        return show(self.cond)

    def __repr__(self):
        return '<%s %s %s %s if %s @%s:%d>' % (self.kind, self.target, '=' if self.kind in ('store', 'aug') else ':', self.value, show(self.cond), self.fn, self.line)


class _Frame(object):
    def __init__(self, func, modobj, stack):
        self.func = func
        self.mod = modobj
        self.stack = stack
        self.returns = []     # (cond, node)
        self.local_funcs = {}  # nested function definitions by name
        self.exits = []       # conds of return/raise
        self.loopctl = []     # stack of lists collecting conds of break/continue


_PURE_STR = ('replace', 'lower', 'upper', 'strip', 'lstrip', 'rstrip')


class _FoldStr(ast.NodeTransformer):
    """'gboolean'.replace('*', '') -> 'gboolean': pure str methods on constant receivers with constant arguments (appear after copy propagation)"""
    def visit_Call(self, n):
        self.generic_visit(n)
        if isinstance(n.func, ast.Attribute) and n.func.attr in _PURE_STR and isinstance(n.func.value, ast.Constant) and isinstance(n.func.value.value, str) \
                and not n.keywords and all(isinstance(a, ast.Constant) and isinstance(a.value, (str, int)) for a in n.args):
            try:
                return ast.copy_location(ast.Constant(value=getattr(n.func.value.value, n.func.attr)(*[a.value for a in n.args])), n)
            except Exception:
                return n
        return n


def _expand_kwargs(n):
    """f(**dict(a=x, b=y)) / f(**{'a': x}) -> f(a=x, b=y): a keyword dictionary built in place (visible after copy propagation of the local holding it)"""
    if not isinstance(n, ast.AST) or not any(isinstance(x, ast.Call) and any(k.arg is None for k in x.keywords) for x in ast.walk(n)):
        return n

    class T(ast.NodeTransformer):
        def visit_Call(self, c):
            self.generic_visit(c)
            new_kw = []
            for k in c.keywords:
                v = k.value
                if k.arg is None and isinstance(v, ast.Call) and isinstance(v.func, ast.Name) and v.func.id == 'dict' and not v.args and all(x.arg for x in v.keywords):
                    new_kw.extend(ast.keyword(arg=x.arg, value=x.value) for x in v.keywords)
                elif k.arg is None and isinstance(v, ast.Dict) and all(isinstance(x, ast.Constant) and isinstance(x.value, str) for x in v.keys):
                    new_kw.extend(ast.keyword(arg=x.value, value=y) for x, y in zip(v.keys, v.values))
                else:
                    new_kw.append(k)
            c.keywords = new_kw
            return c
    import copy as _copy
    return ast.fix_missing_locations(T().visit(_copy.deepcopy(n)))


def _unparse(n):
    try:
        if isinstance(n, ast.AST) and any(isinstance(x, ast.Call) and isinstance(x.func, ast.Attribute) and x.func.attr in _PURE_STR and isinstance(x.func.value, ast.Constant)
                                           for x in ast.walk(n)):
            import copy as _copy
            n = _FoldStr().visit(_copy.deepcopy(n))
        return ast.unparse(n)
    except Exception:
        return P.src(n)


class Summary(object):
    """gated effect summary of one function (helpers inlined)"""
    def __init__(self, py, modname, qual, opaque=(), depth=4, inline_module_funcs=False, assume=None, inline_only=None, func=None, index=False):
        self.py = py
        self.want_index = index
        self.modname = modname
        self.mod = py.mod(modname)
        self.qual = qual
        self.func = func if func is not None else py.func(modname, qual)
        self.cname = qual.split('.')[0] if '.' in qual else None
        self.methods = py.methods(modname, self.cname) if self.cname else {}
        self.opaque = set(opaque)
        self.inline_only = set(inline_only) if inline_only is not None else None
        self.depth = depth
        self.inline_module_funcs = inline_module_funcs
        self.effects = []
        self.withs = []
        self._ctl_kinds = []
        self.carried = []
        self.tmp = 0
        self.inlined = set()
        self.notes = []
        self.params = [a.arg for a in self.func.args.args]
        fr = _Frame(self.func, getattr(self.func, '_module', self.mod), (self.func.name,))
        env = {}
        self.loops = []
        out = self.block(self.func.body, env, True, fr)
        self.returns = list(fr.returns)
        self.falls = out
        self.final_env = env

    # ------------------------------------------------------------------ helpers
    def P(self, i):
        """name of the i-th parameter of the entry function (0 = self for methods)"""
        return self.params[i]

    def fold(self, node, fr):
        try:
            return True, self.py.fold(node, fr.mod)
        except P.Unfoldable:
            return False, None
        except Exception:
            return False, None

    def emit(self, kind, target, value, cond, node, fr, vnode=None, args=None):
        if cond is False:
            return None
        e = Eff(kind, target, value, cond, node, fr.func.name, fr.stack, tuple(self.loops), len(self.effects), vnode, args)
        e.withs = tuple(self.withs)
        self.effects.append(e)
        return e

    # ------------------------------------------------------------------ substitution
    def alts(self, expr, env, pc=True):
        """gated alternatives of an expression after substituting gated locals: [(cond, node)]"""
        if expr is None:
            return [(True, None)]
        names = []
        bound = set()
        for n in ast.walk(expr):
            if isinstance(n, ast.comprehension):
                for t in ast.walk(n.target):
                    if isinstance(t, ast.Name):
                        bound.add(t.id)
            elif isinstance(n, ast.Lambda):
                for a in n.args.args:
                    bound.add(a.arg)
        for n in ast.walk(expr):
            if isinstance(n, ast.Name) and isinstance(n.ctx, ast.Load) and n.id in env and n.id not in bound and n.id not in names \
                    and not isinstance(env[n.id], ListVal):
                names.append(n.id)
        if not names:
            return [(True, expr)]
        choices = []
        total = 1
        for nm in names:
            val = [(g, v) for g, v in env[nm] if conj(pc, g) is not False]
            if len(val) > 1:
                val = [(g, v) for g, v in val if _maybe_sat(conj(pc, g))] or val
            if not val:
                val = [(True, ast.Name(id=nm, ctx=ast.Load()))]
            total *= len(val)
            choices.append((nm, val))
        # join the alternatives variable by variable, dropping contradictory combinations as they arise (the guards of
        # locals assigned on the same branches are correlated, so the feasible combinations are few)
        choices.sort(key=lambda c: len(c[1]))
        combos = [(True, {})]
        for nm, val in choices:
            new = []
            for g0, m0 in combos:
                for g, v in val:
                    gg = conj(g0, g)
                    if gg is False or conj(pc, gg) is False:
                        continue
                    m1 = dict(m0)
                    m1[nm] = v
                    new.append((gg, m1))
            if len(new) > MAXALT:
                new = [(g, m_) for g, m_ in new if _maybe_sat(conj(pc, g))]
            if len(new) > MAXALT or not new:
                self.notes.append('%s kept opaque (too many alternatives)' % nm)
                continue
            combos = new
        out = []
        for g, m_ in combos:
            out.append((g, _expand_kwargs(_replace(expr, m_, bound))))
        if len(out) > 1:
            out = [(g, n) for g, n in out if _maybe_sat(conj(pc, g))] or out
        return out

    def text_alts(self, expr, env, pc=True):
        return [(g, _unparse(n) if n is not None else 'None') for g, n in self.alts(expr, env, pc)]

    # ------------------------------------------------------------------ conditions
    def cond(self, expr, env, fr, pc=True):
        """formula for the truthiness of expr"""
        if isinstance(expr, ast.BoolOp):
            parts = [self.cond(v, env, fr, pc) for v in expr.values]
            return conj(*parts) if isinstance(expr.op, ast.And) else disj(*parts)
        if isinstance(expr, ast.UnaryOp) and isinstance(expr.op, ast.Not):
            return neg(self.cond(expr.operand, env, fr, pc))
        if isinstance(expr, ast.IfExp):
            c = self.cond(expr.test, env, fr, pc)
            return disj(conj(c, self.cond(expr.body, env, fr, pc)), conj(neg(c), self.cond(expr.orelse, env, fr, pc)))
        if isinstance(expr, ast.Compare) and len(expr.ops) > 1:
            parts = []
            left = expr.left
            for op, right in zip(expr.ops, expr.comparators):
                parts.append(self.cond(ast.Compare(left=left, ops=[op], comparators=[right]), env, fr, pc))
                left = right
            return conj(*parts)
        out = []
        for g, n in self.alts(expr, env, pc):
            out.append(conj(g, self.truth(n, fr)))
        return disj(*out)

    def truth(self, n, fr):
        """formula of a substituted leaf expression"""
        if isinstance(n, ast.BoolOp):
            parts = [self.truth(v, fr) for v in n.values]
            return conj(*parts) if isinstance(n.op, ast.And) else disj(*parts)
        if isinstance(n, ast.UnaryOp) and isinstance(n.op, ast.Not):
            return neg(self.truth(n.operand, fr))
        if isinstance(n, ast.IfExp):
            c = self.truth(n.test, fr)
            return disj(conj(c, self.truth(n.body, fr)), conj(neg(c), self.truth(n.orelse, fr)))
        ok, v = self.fold(n, fr)
        if ok:
            return bool(v)
        if isinstance(n, ast.Compare):
            if len(n.ops) > 1:
                parts, left = [], n.left
                for op, right in zip(n.ops, n.comparators):
                    parts.append(self.truth(ast.Compare(left=left, ops=[op], comparators=[right]), fr))
                    left = right
                return conj(*parts)
            return self.compare(n.left, n.ops[0], n.comparators[0], fr)
        if isinstance(n, ast.Call):
            nm = P.call_name(n)
            if nm == 'isinstance' and len(n.args) == 2 and isinstance(n.args[1], ast.Tuple):
                return disj(*[atom(_unparse(ast.Call(func=n.func, args=[n.args[0], e], keywords=[]))) for e in n.args[1].elts])
            if nm == 'bool' and len(n.args) == 1:
                return self.truth(n.args[0], fr)
            if nm == 'len' and len(n.args) == 1:
                return self.truth(n.args[0], fr)
        if isinstance(n, (ast.List, ast.Tuple, ast.Set)):
            return bool(n.elts)
        if isinstance(n, ast.Dict):
            return bool(n.keys)
        if _on_empty_literal(n):
            return False
        return atom(_unparse(n))

    def compare(self, left, op, right, fr):
        lt, rt = _unparse(left), _unparse(right)
        okl, vl = self.fold(left, fr)
        okr, vr = self.fold(right, fr)
        if isinstance(op, (ast.Eq, ast.NotEq)):
            # len(x) ==/!= 0
            for a, b, okb, vb in ((left, right, okr, vr), (right, left, okl, vl)):
                if isinstance(a, ast.Call) and P.call_name(a) == 'len' and len(a.args) == 1 and okb and vb == 0:
                    f = neg(self.truth(a.args[0], fr))
                    return f if isinstance(op, ast.Eq) else neg(f)
            if okl and okr:
                f = (vl == vr)
            else:
                if (okl or _CONSTLIKE.match(lt)) and not (okr or _CONSTLIKE.match(rt)):
                    lt, rt = rt, lt
                f = atom(_unparse(ast.Compare(left=left, ops=[ast.Eq()], comparators=[right])) if (lt, rt) == (_unparse(left), _unparse(right))
                         else _unparse(ast.Compare(left=right, ops=[ast.Eq()], comparators=[left])))
            return f if isinstance(op, ast.Eq) else neg(f)
        if isinstance(op, (ast.Is, ast.IsNot)):
            if okl and okr:
                f = (vl is vr) if (vl is None or vr is None or isinstance(vl, bool)) else (vl == vr)
            elif okr and vr is None and isinstance(left, (ast.Constant, ast.List, ast.Tuple, ast.Dict, ast.JoinedStr, ast.BinOp)):
                f = False
            else:
                f = atom(_unparse(ast.Compare(left=left, ops=[ast.Is()], comparators=[right])))
            return f if isinstance(op, ast.Is) else neg(f)
        if isinstance(op, (ast.In, ast.NotIn)):
            if isinstance(right, (ast.Tuple, ast.List, ast.Set)):
                f = disj(*[self.compare(left, ast.Eq(), e, fr) for e in right.elts])
            elif isinstance(right, ast.Dict) and not right.keys:
                f = False
            else:
                f = atom(_unparse(ast.Compare(left=left, ops=[ast.In()], comparators=[right])))
            return f if isinstance(op, ast.In) else neg(f)
        if isinstance(left, ast.Call) and P.call_name(left) == 'len' and len(left.args) == 1 and okr:
            # len(x) > 0, len(x) >= 1  <=> x non-empty ; len(x) < 1 <=> empty
            if (isinstance(op, ast.Gt) and vr == 0) or (isinstance(op, ast.GtE) and vr == 1):
                return self.truth(left.args[0], fr)
            if (isinstance(op, ast.Lt) and vr == 1) or (isinstance(op, ast.LtE) and vr == 0):
                return neg(self.truth(left.args[0], fr))
        if okl and okr:
            try:
                return bool({ast.Lt: vl < vr, ast.LtE: vl <= vr, ast.Gt: vl > vr, ast.GtE: vl >= vr}[type(op)])
            except Exception:
                pass
        # a < b  ==  not (a >= b): normalise to < and <=
        if isinstance(op, ast.Gt):
            return atom(_unparse(ast.Compare(left=right, ops=[ast.Lt()], comparators=[left])))
        if isinstance(op, ast.GtE):
            return atom(_unparse(ast.Compare(left=right, ops=[ast.LtE()], comparators=[left])))
        if isinstance(op, (ast.Lt, ast.LtE)):
            return atom(_unparse(ast.Compare(left=left, ops=[op], comparators=[right])))
        return atom(_unparse(ast.Compare(left=left, ops=[op], comparators=[right])))

    # ------------------------------------------------------------------ call inlining inside expressions
    def inlinable(self, call, fr):
        nm = P.call_name(call)
        if not nm:
            return None
        f = None
        if '.' not in nm and nm in fr.local_funcs:
            f = fr.local_funcs[nm]
            if f.name in fr.stack or len(fr.stack) > self.depth or f.args.vararg or f.args.kwarg:
                return None
            return f
        if nm.startswith('self.') and '.' not in nm[5:] and nm[5:] in self.methods:
            f = self.methods[nm[5:]]
        elif nm.startswith('cls.') and '.' not in nm[4:] and nm[4:] in self.methods:
            f = self.methods[nm[4:]]
        elif self.inline_module_funcs and '.' not in nm and nm in fr.mod.functions:
            f = fr.mod.functions[nm]
        elif self.cname and nm.startswith(self.cname + '.') and nm[len(self.cname) + 1:] in self.methods:
            f = self.methods[nm[len(self.cname) + 1:]]
        if f is None:
            return None
        if f.name in self.opaque or (self.inline_only is not None and f.name not in self.inline_only):
            return None
        if self.inline_only is None and not f.name.startswith('_'):
            return None      # public entry points are summarised on their own, never inlined implicitly
        if f.name in fr.stack or len(fr.stack) > self.depth:
            return None
        if f.args.vararg or f.args.kwarg or any(isinstance(a, ast.Starred) for a in call.args) or any(k.arg is None for k in call.keywords):
            return None
        if any(isinstance(x, (ast.Yield, ast.YieldFrom)) for x in P.walk_no_nested(f)):
            return None
        return f

    def prep(self, expr, env, pc, fr):
        """inline helper calls inside expr (recording their effects under the short-circuit condition);
        returns the expression with each inlined call replaced by a temporary gated local"""
        if expr is None or not any(isinstance(x, ast.Call) for x in ast.walk(expr)):
            return expr
        return self._prep(expr, env, pc, fr)

    def _prep(self, e, env, pc, fr):
        if isinstance(e, (ast.Lambda, ast.ListComp, ast.SetComp, ast.DictComp, ast.GeneratorExp)):
            return e
        if isinstance(e, ast.BoolOp):
            vals = []
            cur = pc
            for v in e.values:
                nv = self._prep(v, env, cur, fr)
                vals.append(nv)
                c = self.cond(nv, env, fr, cur)
                cur = conj(cur, c if isinstance(e.op, ast.And) else neg(c))
            return ast.BoolOp(op=e.op, values=vals)
        if isinstance(e, ast.IfExp):
            t = self._prep(e.test, env, pc, fr)
            c = self.cond(t, env, fr, pc)
            return ast.IfExp(test=t, body=self._prep(e.body, env, conj(pc, c), fr), orelse=self._prep(e.orelse, env, conj(pc, neg(c)), fr))
        if isinstance(e, ast.Call):
            new = ast.Call(func=self._prep(e.func, env, pc, fr) if not isinstance(e.func, ast.Name) else e.func,
                           args=[self._prep(a, env, pc, fr) for a in e.args],
                           keywords=[ast.keyword(arg=k.arg, value=self._prep(k.value, env, pc, fr)) for k in e.keywords])
            ast.copy_location(new, e)
            f = self.inlinable(e, fr)
            if f is not None:
                return self.inline(f, new, env, pc, fr)
            # list mutation through a local list
            if isinstance(e.func, ast.Attribute) and isinstance(e.func.value, ast.Name) and isinstance(env.get(e.func.value.id), ListVal):
                self.list_op(env[e.func.value.id], e.func.attr, new, env, pc, fr)
            return new
        if isinstance(e, ast.AST):
            new = type(e)()
            for fld in e._fields:
                if not hasattr(e, fld):
                    continue
                v = getattr(e, fld)
                if isinstance(v, ast.expr):
                    v = self._prep(v, env, pc, fr)
                elif isinstance(v, list):
                    v = [self._prep(x, env, pc, fr) if isinstance(x, ast.expr) else x for x in v]
                setattr(new, fld, v)
            ast.copy_location(new, e)
            return new
        return e

    def list_op(self, lst, op, call, env, pc, fr):
        if op == 'append' and len(call.args) == 1:
            for g, n in self.alts(call.args[0], env, pc):
                lst.items.append((conj(pc, g), n))
        elif op == 'insert' and len(call.args) == 2:
            ok, idx = self.fold(call.args[0], fr)
            for g, n in self.alts(call.args[1], env, pc):
                if ok and idx == 0:
                    lst.items.insert(0, (conj(pc, g), n))
                else:
                    lst.items.append((conj(pc, g), n))
        elif op == 'extend' and len(call.args) == 1:
            a = call.args[0]
            if isinstance(a, ast.Name) and isinstance(env.get(a.id), ListVal):
                lst.items.extend((conj(pc, g), n) for g, n in env[a.id].items)
            elif isinstance(a, (ast.List, ast.Tuple)):
                for e in a.elts:
                    for g, n in self.alts(e, env, pc):
                        lst.items.append((conj(pc, g), n))
            else:
                lst.items.append((pc, ast.Starred(value=a, ctx=ast.Load())))

    def inline(self, f, call, env, pc, fr):
        params = [a.arg for a in f.args.args]
        if params and params[0] in ('self', 'cls') and (self.cname and f.name in self.methods and self.methods[f.name] is f):
            is_static = any(P.src(d) == 'staticmethod' for d in f.decorator_list)
            if not is_static:
                params = params[1:]
        defaults = P.param_defaults(f, skip_self=False)
        nenv = {}
        bound = {}
        for i, a in enumerate(call.args):
            if i < len(params):
                bound[params[i]] = a
        for k in call.keywords:
            bound[k.arg] = k.value
        for p_ in params + [a.arg for a in f.args.kwonlyargs]:
            a = bound.get(p_)
            if a is None:
                d = defaults.get(p_)
                if d is None:
                    continue
                nenv[p_] = [(True, d)]
                if isinstance(d, ast.List) and not d.elts:
                    nenv[p_] = ListVal()
                continue
            if isinstance(a, ast.Name) and isinstance(env.get(a.id), ListVal):
                nenv[p_] = env[a.id]
            else:
                nenv[p_] = self.alts(a, env, pc)
        self.inlined.add(f.name)
        nfr = _Frame(f, getattr(f, '_module', fr.mod), fr.stack + (f.name,))
        out = self.block(f.body, nenv, pc, nfr)
        rets = list(nfr.returns)
        if out is not False and _maybe_sat(out):
            rets.append((out, ast.Constant(value=None)))
        # exceptional exits of the callee end the caller too
        raised = [c for c, kind in nfr.exits if kind == 'raise']
        if raised:
            fr.exits.append((disj(*raised), 'raise'))
            self.after_call_pc = neg(disj(*raised))
        self.tmp += 1
        t = '__r%d_%s' % (self.tmp, f.name)
        env[t] = rets or [(True, ast.Constant(value=None))]
        return ast.Name(id=t, ctx=ast.Load())

    # ------------------------------------------------------------------ statements
    def block(self, stmts, env, pc, fr):
        for st in stmts:
            if pc is False:
                break
            pc = self.stmt(st, env, pc, fr)
        return pc

    def mark(self, fr):
        return (len(fr.exits), len(fr.loopctl[-1]) if fr.loopctl else 0)

    def after(self, pc, fr, mark):
        gone = [c for c, k in fr.exits[mark[0]:]] + (fr.loopctl[-1][mark[1]:] if fr.loopctl else [])
        return conj(pc, neg(disj(*gone))) if gone else pc

    def assign_name(self, name, alts, env, pc):
        if name in _mutated_locals(self._cur_frame.func) or name in getattr(self, '_dictcomp_names', ()):
            # a container that is filled in place keeps its name (its contents are not tracked)
            env[name] = [(True, ast.Name(id=name, ctx=ast.Load()))]
            return
        alts = _split_ifexp(self, alts, env, pc)
        if any(name in c for c in self.carried):
            for g, v in alts:
                self.emit('local', name, _unparse(v), conj(pc, g), v, self._cur_frame, vnode=v)
        old = env.get(name)
        new = [(conj(pc, g), v) for g, v in alts]
        if pc is not True and old is not None and not isinstance(old, ListVal):
            np = neg(pc)
            for g, v in old:
                c = conj(g, np)
                if c is not False:
                    new.append((c, v))
        elif pc is not True and old is None:
            # possibly unassigned on other paths: keep the name itself as the other alternative
            new.append((neg(pc), ast.Name(id=name, ctx=ast.Load())))
        env[name] = new

    def assign(self, target, value, env, pc, fr, node, aug=False):
        if isinstance(target, ast.Name):
            if isinstance(value, ast.List) and not aug and target.id in _list_built(self._cur_frame.func):
                lv = ListVal()
                for e in value.elts:
                    for g, n in self.alts(e, env, pc):
                        lv.items.append((conj(pc, g), n))
                env[target.id] = lv
                return
            if isinstance(value, ast.IfExp) and isinstance(value.body, ast.List) and isinstance(value.orelse, ast.List) and not aug \
                    and target.id in _list_built(self._cur_frame.func):
                # attrs = [(k, v)] if c else []
                c = self.cond(self.prep(value.test, env, pc, fr), env, fr, pc)
                lv = ListVal()
                for arm, g0 in ((value.body, c), (value.orelse, neg(c))):
                    for e in arm.elts:
                        for g, n in self.alts(e, env, conj(pc, g0)):
                            lv.items.append((conj(pc, g0, g), n))
                env[target.id] = lv
                return
            if isinstance(value, ast.Name) and isinstance(env.get(value.id), ListVal) and not aug:
                env[target.id] = env[value.id]
                return
            if isinstance(value, ast.Call) and P.call_name(value) == 'list' and len(value.args) == 1 and isinstance(value.args[0], ast.Name) \
                    and isinstance(env.get(value.args[0].id), ListVal):
                env[target.id] = ListVal(env[value.args[0].id].items)
                return
            if aug:
                if isinstance(env.get(target.id), ListVal) and isinstance(value, ast.List):
                    for e in value.elts:
                        for g, n in self.alts(e, env, pc):
                            env[target.id].items.append((conj(pc, g), n))
                    return
                cur = ast.BinOp(left=ast.Name(id=target.id, ctx=ast.Load()), op=node.op, right=value)
                self.assign_name(target.id, self.alts(cur, env, pc), env, pc)
                return
            self.assign_name(target.id, self.alts(value, env, pc), env, pc)
            return
        if isinstance(target, (ast.Tuple, ast.List)):
            for g, n in self.alts(value, env, pc):
                for i, t in enumerate(target.elts):
                    if isinstance(n, (ast.Tuple, ast.List)) and len(n.elts) == len(target.elts) and not any(isinstance(x, ast.Starred) for x in n.elts):
                        sub = n.elts[i]
                    else:
                        sub = ast.Subscript(value=n, slice=ast.Constant(value=i), ctx=ast.Load())
                    self.assign_g(t, sub, env, conj(pc, g), fr, node)
            return
        # attribute / subscript store
        for tg, tn in self.alts(target, env, pc):
            for g, n in _split_ifexp(self, self.alts(value, env, pc), env, pc):
                self.emit('aug' if aug else 'store', _unparse(tn), _unparse(n), conj(pc, tg, g), node, fr, vnode=n)

    def assign_g(self, target, valnode, env, pc, fr, node):
        """assignment of an already substituted value node under pc"""
        if isinstance(target, ast.Name):
            self.assign_name(target.id, [(True, valnode)], env, pc)
        elif isinstance(target, (ast.Tuple, ast.List)):
            for i, t in enumerate(target.elts):
                if isinstance(valnode, (ast.Tuple, ast.List)) and len(valnode.elts) == len(target.elts):
                    self.assign_g(t, valnode.elts[i], env, pc, fr, node)
                else:
                    self.assign_g(t, ast.Subscript(value=valnode, slice=ast.Constant(value=i), ctx=ast.Load()), env, pc, fr, node)
        else:
            for tg, tn in self.alts(target, env, pc):
                self.emit('store', _unparse(tn), _unparse(valnode), conj(pc, tg), node, fr, vnode=valnode)

    def record_calls(self, expr, env, pc, fr):
        """emit 'call' effects for the calls that remain in a prepared expression"""
        if expr is None:
            return
        if self.want_index:
            # constant subscripts `base[k]` evaluated by this expression: 'index' effects (target = base text, value = k)
            for sub in ast.walk(expr):
                if isinstance(sub, ast.Subscript) and isinstance(getattr(sub, 'ctx', None), ast.Load):
                    ok, k = self.fold(sub.slice, fr)
                    if ok and isinstance(k, int) and not isinstance(k, bool):
                        g0 = _inner_guard(self, expr, sub, env, fr, pc)
                        for g, n in self.alts(sub.value, env, conj(pc, g0)):
                            self.emit('index', _unparse(n), str(k), conj(pc, g0, g), sub, fr, vnode=n)
        for c in _calls_outer_first(expr):
            nm = P.call_name(c)
            if (nm in _BUILTINS and nm != 'setattr') or (isinstance(c.func, ast.Attribute) and isinstance(c.func.value, ast.Constant)):
                continue
            if nm is None:
                nm = _unparse(c.func)
            g0 = _inner_guard(self, expr, c, env, fr, pc)
            for g, n in self.alts(c, env, conj(pc, g0)):
                if not isinstance(n, ast.Call):
                    continue
                if nm == 'setattr' and len(n.args) == 3:
                    # setattr(obj, 'name', v) with a constant name is the store obj.name = v
                    ok, attr = self.fold(n.args[1], fr)
                    if ok and isinstance(attr, str):
                        tn = ast.Attribute(value=n.args[0], attr=attr, ctx=ast.Store())
                        self.emit('store', _unparse(tn), _unparse(n.args[2]), conj(pc, g0, g), c, fr, vnode=n.args[2])
                        continue
                e = self.emit('call', _unparse(n.func), _unparse(n), conj(pc, g0, g), c, fr, vnode=n, args=[_unparse(a) for a in n.args])
                if e is not None:
                    e.kwargs = dict((k.arg, _unparse(k.value)) for k in n.keywords if k.arg)

    def stmt(self, st, env, pc, fr):
        self.after_call_pc = True
        self._cur_frame = fr
        if isinstance(st, (ast.Assign, ast.AnnAssign, ast.AugAssign)):
            value = st.value
            if value is None:
                return pc
            if isinstance(st, ast.Assign) and isinstance(value, ast.DictComp) and len(value.generators) == 1 and len(st.targets) == 1 and isinstance(st.targets[0], ast.Name) \
                    and not getattr(st, '_dc_done', False):
                # name = {k: v for x in it if c}   ==   name = {}; for x in it: if c: name[k] = v
                gen = value.generators[0]
                tname = st.targets[0].id
                init = ast.Assign(targets=[ast.Name(id=tname, ctx=ast.Store())], value=ast.Dict(keys=[], values=[]), lineno=st.lineno)
                init._dc_done = True
                store = ast.Assign(targets=[ast.Subscript(value=ast.Name(id=tname, ctx=ast.Load()), slice=value.key, ctx=ast.Store())], value=value.value, lineno=st.lineno)
                body = [store]
                if gen.ifs:
                    test = gen.ifs[0] if len(gen.ifs) == 1 else ast.BoolOp(op=ast.And(), values=list(gen.ifs))
                    body = [ast.If(test=test, body=[store], orelse=[], lineno=st.lineno)]
                lp = ast.For(target=gen.target, iter=gen.iter, body=body, orelse=[], lineno=st.lineno)
                for n_ in (init, lp):
                    ast.fix_missing_locations(n_)
                self._dictcomp_names = getattr(self, '_dictcomp_names', set()) | {tname}
                pc = self.stmt(init, env, pc, fr)
                return self.stmt(lp, env, pc, fr)
            value = self.prep(value, env, pc, fr)
            pc = conj(pc, self.after_call_pc)
            self.record_calls(value, env, pc, fr)
            targets = st.targets if isinstance(st, ast.Assign) else [st.target]
            for t in targets:
                self.assign(t, value, env, pc, fr, st, aug=isinstance(st, ast.AugAssign))
            return pc
        if isinstance(st, ast.Expr) and isinstance(st.value, ast.Call) and P.call_name(st.value) == 'sys.exit':
            # sys.exit(x) is `raise SystemExit(x)`
            exc = ast.Call(func=ast.Name(id='SystemExit', ctx=ast.Load()), args=list(st.value.args), keywords=[])
            return self.stmt(ast.fix_missing_locations(ast.copy_location(ast.Raise(exc=ast.copy_location(exc, st), cause=None), st)), env, pc, fr)
        if isinstance(st, ast.Expr):
            v = self.prep(st.value, env, pc, fr)
            pc = conj(pc, self.after_call_pc)
            self.record_calls(v, env, pc, fr)
            return pc
        if isinstance(st, ast.If):
            test = self.prep(st.test, env, pc, fr)
            pc = conj(pc, self.after_call_pc)
            self.record_calls(test, env, pc, fr)
            c = self.cond(test, env, fr, pc)
            mark = self.mark(fr)
            self.block(st.body, env, conj(pc, c), fr)
            self.block(st.orelse, env, conj(pc, neg(c)), fr)
            return self.after(pc, fr, mark)
        if isinstance(st, ast.Return):
            v = self.prep(st.value, env, pc, fr) if st.value is not None else None
            pc = conj(pc, self.after_call_pc)
            self.record_calls(v, env, pc, fr)
            if v is None:
                fr.returns.append((pc, ast.Constant(value=None)))
                self.emit('return', fr.func.name, 'None', pc, st, fr)
            else:
                for g, n in _split_ifexp(self, self.alts(v, env, pc), env, pc):
                    fr.returns.append((conj(pc, g), n))
                    self.emit('return', fr.func.name, _unparse(n), conj(pc, g), st, fr, vnode=n)
            fr.exits.append((pc, 'return'))
            return False
        if isinstance(st, ast.Raise):
            v = self.prep(st.exc, env, pc, fr) if st.exc is not None else None
            self.emit('raise', fr.func.name, _unparse(v) if v is not None else '', pc, st, fr)
            txt = _unparse(st.exc) if st.exc is not None else ''
            if txt.startswith(('AssertionError', 'NotImplementedError')):
                # "cannot happen" markers are not modelled as exits (they would only add noise to every later condition)
                return False
            fr.exits.append((pc, 'raise'))
            return False
        if isinstance(st, (ast.Continue, ast.Break)):
            if fr.loopctl:
                fr.loopctl[-1].append(pc)
                self._ctl_kinds.append('break' if isinstance(st, ast.Break) else 'continue')
            self.emit('break' if isinstance(st, ast.Break) else 'continue', fr.func.name, '', pc, st, fr)
            return False
        if isinstance(st, (ast.For, ast.AsyncFor, ast.While)):
            return self.loop(st, env, pc, fr)
        if isinstance(st, (ast.With, ast.AsyncWith)):
            n_w = 0
            for it in st.items:
                v = self.prep(it.context_expr, env, pc, fr)
                self.record_calls(v, env, pc, fr)
                if it.optional_vars is not None:
                    self.assign(it.optional_vars, v, env, pc, fr, st)
                self.withs.append(' | '.join(t for g, t in self.text_alts(v, env, pc)))
                n_w += 1
            out = self.block(st.body, env, pc, fr)
            del self.withs[len(self.withs) - n_w:]
            return out
        if isinstance(st, ast.Try):
            mark = self.mark(fr)
            r0, e0, x0 = len(fr.returns), len(self.effects), len(fr.exits)
            out = self.block(st.body, env, pc, fr)
            hat = [atom('@except:%s' % (P.src(h.type) if h.type is not None else '')) for h in st.handlers]
            if hat:
                # a `return <expr>` inside the try body only happens when evaluating it did not raise
                noexc = conj(*[neg(a) for a in hat])
                fr.returns[r0:] = [(conj(g, noexc), n) for g, n in fr.returns[r0:]]
                fr.exits[x0:] = [(conj(g, noexc) if k == 'return' else g, k) for g, k in fr.exits[x0:]]
                for e in self.effects[e0:]:
                    if e.kind == 'return':
                        e.cond = conj(e.cond, noexc)
            for h, ex in zip(st.handlers, hat):
                self.block(h.body, env, conj(pc, ex), fr)
            if st.orelse and out is not False:
                # the else clause runs only when the body raised nothing
                self.block(st.orelse, env, conj(out, *[neg(a) for a in hat]) if hat else out, fr)
            out = self.after(pc, fr, mark)
            if st.finalbody:
                self.block(st.finalbody, env, pc, fr)
                out = self.after(pc, fr, mark)
            return out
        if isinstance(st, ast.Assert):
            return pc
        if isinstance(st, ast.FunctionDef):
            fr.local_funcs[st.name] = st
            return pc
        if isinstance(st, ast.Delete):
            for t in st.targets:
                for g, n in self.alts(t, env, pc):
                    self.emit('del', _unparse(n), '', conj(pc, g), st, fr)
            return pc
        return pc

    def unroll(self, st, items, env, pc, fr):
        """a for-loop over a short literal table is executed element by element (break / for-else respected)"""
        broke = False
        fr.loopctl.append([])
        n0 = len(fr.exits)
        cur = pc
        for item in items:
            if cur is False:
                break
            m0 = len(fr.loopctl[-1])
            self.assign_g(st.target, item, env, cur, fr, st)
            self.block(st.body, env, cur, fr)
            # `continue` only ends this element; `break` ends the walk
            new_ctl = fr.loopctl[-1][m0:]
            brk = [c for c, n in zip(new_ctl, self._ctl_kinds[-len(new_ctl):] if new_ctl else []) if n == 'break'] if new_ctl else []
            if brk:
                broke = disj(broke, *brk) if broke is not False else disj(*brk)
                cur = conj(cur, neg(disj(*brk)))
            gone = [c for c, k in fr.exits[n0:]]
            if gone:
                cur = conj(cur, neg(disj(*gone)))
        fr.loopctl.pop()
        after = cur
        if st.orelse:
            self.block(st.orelse, env, cur, fr)
            gone = [c for c, k in fr.exits[n0:]]
            after = conj(cur, neg(disj(*gone))) if gone else cur
        if broke is not False:
            after = disj(after, conj(pc, broke))
        return after

    def generator_loop(self, st, fr):
        """`for x in gen(args): BODY` over a generator function that may be inlined: the generator's body with every `yield e` replaced by
        `x = e; BODY` (and `yield from it` by `for x in it: BODY`), its locals renamed apart and its parameters bound to the arguments.
        Exact when BODY has no break/continue that binds to this loop and the generator has no return."""
        if st.orelse or not isinstance(st.iter, ast.Call):
            return None
        nm = P.call_name(st.iter)
        if not nm:
            return None
        f = None
        if nm.startswith('self.') and '.' not in nm[5:] and nm[5:] in self.methods:
            f = self.methods[nm[5:]]
        elif self.inline_module_funcs and '.' not in nm and nm in fr.mod.functions:
            f = fr.mod.functions[nm]
        if f is None or f.name in self.opaque or f.name in fr.stack or (self.inline_only is not None and f.name not in self.inline_only):
            return None
        body_nodes = list(P.walk_no_nested(f))
        if not any(isinstance(x, (ast.Yield, ast.YieldFrom)) for x in body_nodes) or any(isinstance(x, ast.Return) for x in body_nodes):
            return None
        if f.args.vararg or f.args.kwarg or st.iter.keywords or any(isinstance(a, ast.Starred) for a in st.iter.args):
            return None

        def binds_here(stmts):
            for s_ in stmts:
                if isinstance(s_, (ast.Break, ast.Continue)):
                    return True
                if isinstance(s_, (ast.For, ast.While, ast.AsyncFor, ast.FunctionDef, ast.ClassDef)):
                    continue
                for fld in ('body', 'orelse', 'finalbody', 'handlers'):
                    sub = getattr(s_, fld, None)
                    if sub:
                        if fld == 'handlers':
                            sub = [x for h in sub for x in h.body]
                        if binds_here(sub):
                            return True
            return False
        if binds_here(st.body):
            return None
        params = [a.arg for a in f.args.args]
        if params and params[0] in ('self', 'cls') and nm.startswith('self.'):
            params = params[1:]
        if len(params) != len(st.iter.args):
            return None
        self.tmp += 1
        suffix = '__g%d' % self.tmp
        local = set(params)
        for x in body_nodes:
            if isinstance(x, ast.Name) and isinstance(x.ctx, ast.Store):
                local.add(x.id)

        class Ren(ast.NodeTransformer):
            def visit_Name(self_, n):
                if n.id in local:
                    return ast.copy_location(ast.Name(id=n.id + suffix, ctx=n.ctx), n)
                return n
        import copy as _copy

        def conv(stmts):
            out = []
            for s_ in stmts:
                if isinstance(s_, ast.Expr) and isinstance(s_.value, ast.Yield):
                    val = Ren().visit(_copy.deepcopy(s_.value.value)) if s_.value.value is not None else ast.Constant(value=None)
                    out.append(ast.copy_location(ast.Assign(targets=[_copy.deepcopy(st.target)], value=val, lineno=s_.lineno), s_))
                    out.extend(_copy.deepcopy(st.body))
                elif isinstance(s_, ast.Expr) and isinstance(s_.value, ast.YieldFrom):
                    out.append(ast.copy_location(ast.For(target=_copy.deepcopy(st.target), iter=Ren().visit(_copy.deepcopy(s_.value.value)), body=_copy.deepcopy(st.body), orelse=[],
                                                         lineno=s_.lineno), s_))
                elif any(isinstance(x, (ast.Yield, ast.YieldFrom)) for x in ast.walk(s_)):
                    c2 = _copy.copy(s_)
                    ok_ = True
                    for fld in ('body', 'orelse', 'finalbody'):
                        if getattr(s_, fld, None):
                            setattr(c2, fld, conv(getattr(s_, fld)))
                    for fld in ('test', 'iter', 'target'):
                        if getattr(s_, fld, None) is not None:
                            if any(isinstance(x, (ast.Yield, ast.YieldFrom)) for x in ast.walk(getattr(s_, fld))):
                                ok_ = False
                            setattr(c2, fld, Ren().visit(_copy.deepcopy(getattr(s_, fld))))
                    if not ok_ or isinstance(s_, (ast.Try, ast.With)):
                        raise ValueError('yield in an unsupported position')
                    out.append(c2)
                else:
                    out.append(Ren().visit(_copy.deepcopy(s_)))
            return out
        try:
            new = conv([x for x in f.body if not (isinstance(x, ast.Expr) and isinstance(x.value, ast.Constant))])
        except ValueError:
            return None
        pre = [ast.Assign(targets=[ast.Name(id=p_ + suffix, ctx=ast.Store())], value=_copy.deepcopy(a_), lineno=st.lineno) for p_, a_ in zip(params, st.iter.args)]
        for n_ in pre + new:
            ast.fix_missing_locations(n_)
        self.inlined.add(f.name)
        return pre + new

    def loop(self, st, env, pc, fr):
        is_for = isinstance(st, (ast.For, ast.AsyncFor))
        if is_for:
            gl = self.generator_loop(st, fr)
            if gl is not None:
                return self.block(gl, env, pc, fr)
            it = self.prep(st.iter, env, pc, fr)
            self.record_calls(it, env, pc, fr)
            ia = self.alts(it, env, pc)
            if len(ia) == 1 and isinstance(ia[0][1], (ast.ListComp, ast.GeneratorExp)) and len(ia[0][1].generators) == 1 and not st.orelse \
                    and isinstance(ia[0][1].generators[0].target, ast.Name) and isinstance(st.target, ast.Name) and not getattr(st, '_comp_done', False):
                # for x in [f(y) for y in IT if C(y)]: BODY   ==   for y' in IT: if C(y'): x = f(y'); BODY      (y' fresh)
                import copy as _copy
                gen = ia[0][1].generators[0]
                self.tmp += 1
                cv, nv = gen.target.id, '%s__c%d' % (gen.target.id, self.tmp)
                identity = isinstance(ia[0][1].elt, ast.Name) and ia[0][1].elt.id == cv
                if identity:
                    nv = st.target.id

                class _Ren(ast.NodeTransformer):
                    def visit_Name(self_, n):
                        return ast.copy_location(ast.Name(id=nv, ctx=n.ctx), n) if n.id == cv else n
                ifs = [_Ren().visit(_copy.deepcopy(c)) for c in gen.ifs]
                body = list(st.body)
                if not identity:
                    body = [ast.Assign(targets=[_copy.deepcopy(st.target)], value=_Ren().visit(_copy.deepcopy(ia[0][1].elt)), lineno=st.lineno)] + body
                if ifs:
                    test = ifs[0] if len(ifs) == 1 else ast.BoolOp(op=ast.And(), values=ifs)
                    body = [ast.If(test=test, body=body, orelse=[], lineno=st.lineno)]
                lowered = ast.For(target=ast.Name(id=nv, ctx=ast.Store()), iter=gen.iter, body=body, orelse=[], lineno=st.lineno)
                lowered._comp_done = True
                ast.fix_missing_locations(lowered)
                return self.loop(lowered, env, pc, fr)
            if len(ia) == 1 and isinstance(ia[0][1], ast.Attribute) and isinstance(ia[0][1].value, ast.Name) and ia[0][1].value.id in ('self', 'cls') and self.cname \
                    and sum(1 for _ in ast.walk(fr.func)) < 1500:
                # a class-level literal table (`_WIDTHS = ((TYPE_A, 8), (TYPE_B, 16))`) that no method rebinds: iterate the literal
                # (only in small functions: unrolling multiplies the body)
                an = ia[0][1].attr
                try:
                    cm, cv = self.py.class_attr(self.modname, self.cname, an)
                except Exception:
                    cv = None
                rebinds = any(isinstance(x, ast.Attribute) and x.attr == an and isinstance(x.ctx, (ast.Store, ast.Del)) for mf in self.methods.values() for x in ast.walk(mf))
                if isinstance(cv, (ast.Tuple, ast.List)) and not rebinds:
                    ia = [(ia[0][0], cv)]
            if len(ia) == 1 and isinstance(ia[0][1], (ast.Tuple, ast.List)) and 0 < len(ia[0][1].elts) <= 8 and \
                    not any(isinstance(x, ast.Starred) for x in ia[0][1].elts):
                return self.unroll(st, list(ia[0][1].elts), env, pc, fr)
            it_txt = ' | '.join(t for g, t in self.text_alts(it, env, pc))
        else:
            it_txt = 'while'
        self.tmp += 1
        L = atom('@iter:%s#%d' % (it_txt, self.tmp))
        body_pc = conj(pc, L)
        assigned = set()
        for n in st.body:
            for x in ast.walk(n):
                if isinstance(x, ast.Name) and isinstance(x.ctx, ast.Store):
                    assigned.add(x.id)
        # loop-carried locals: value from an earlier iteration is unknown
        targets = set()
        if is_for:
            for t in ast.walk(st.target):
                if isinstance(t, ast.Name):
                    targets.add(t.id)
                    env.pop(t.id, None)
        carried = set()
        for nm in assigned - targets:
            if nm in env and not isinstance(env[nm], ListVal) and _read_before_write(st.body, nm):
                # loop-carried local: inside the body it may hold the value an earlier iteration left (kept opaque under its own name)
                c = atom('@carried:%s#%d' % (nm, self.tmp))
                env[nm] = [(conj(g, neg(c)), v) for g, v in env[nm]] + [(c, ast.Name(id=nm, ctx=ast.Load()))]
                carried.add(nm)
            elif nm not in env and _read_before_write(st.body, nm):
                carried.add(nm)      # a parameter / outer name updated in the loop (running counter): updates are recorded as 'local' effects
        self.carried.append(carried)
        self.loops.append(it_txt)
        fr.loopctl.append([])
        n0 = len(fr.exits)
        if not is_for:
            test = self.prep(st.test, env, body_pc, fr)
            c = self.cond(test, env, fr, body_pc)
            body_pc = conj(body_pc, c)
        self.block(st.body, env, body_pc, fr)
        fr.loopctl.pop()
        self.loops.pop()
        self.carried.pop()
        gone = [c for c, k in fr.exits[n0:]]
        after = conj(pc, neg(disj(*gone))) if gone else pc
        if st.orelse:
            after = self.block(st.orelse, env, after, fr)
        return after

    # ------------------------------------------------------------------ queries
    def select(self, kind=None, target=None, value=None, fn=None):
        out = []
        for e in self.effects:
            if kind is not None and e.kind != kind:
                continue
            if target is not None and not _match(target, e.target):
                continue
            if value is not None and not _match(value, e.value):
                continue
            if fn is not None and e.fn != fn:
                continue
            out.append(e)
        return out

    def stores(self, target=None, value=None):
        return self.select('store', target, value)

    def calls(self, target=None, value=None):
        return self.select('call', target, value)

    def atoms(self):
        acc = []
        for e in self.effects:
            atoms(e.cond, acc)
        return acc

    def final(self, target, val, default=None, kinds=('store',)):
        """possible final values of `target` under the (partial) valuation: (set of definite-or-possible value texts, definite?)
        later stores override earlier ones"""
        cur, definite = set(), False
        for e in self.effects:
            if e.kind not in kinds or not _match(target, e.target):
                continue
            v = ev3(e.cond, val, default)
            if v is True:
                cur, definite = {e.value}, True
            elif v is None:
                cur = cur | {e.value}
        return cur, definite

    def returned(self, val, default=None):
        """possible return values of the entry function under the valuation"""
        out = set()
        for g, n in self.returns:
            v = ev3(g, val, default)
            if v is not False:
                out.add((_unparse(n), v))
        if self.falls is not False:
            v = ev3(self.falls, val, default)
            if v is not False:
                out.add(('None', v))
        return out

    def cond_of(self, effs):
        return disj(*[e.cond for e in effs])


_MUT_METHODS = frozenset(('append', 'add', 'update', 'extend', 'insert', 'pop', 'remove', 'clear', 'setdefault', 'discard', 'sort', 'reverse', 'popitem'))


def _mutated_locals(func):
    cached = getattr(func, '_gsa_mutated', None)
    if cached is not None:
        return cached
    out = set()
    for n in P.walk_no_nested(func):
        if isinstance(n, (ast.Assign, ast.AugAssign, ast.Delete)):
            tg = n.targets if isinstance(n, (ast.Assign, ast.Delete)) else [n.target]
            for t in tg:
                if isinstance(t, ast.Subscript) and isinstance(t.value, ast.Name):
                    out.add(t.value.id)
        elif isinstance(n, ast.Call) and isinstance(n.func, ast.Attribute) and isinstance(n.func.value, ast.Name) and n.func.attr in _MUT_METHODS:
            out.add(n.func.value.id)
    # lists of attribute tuples are tracked element-wise (ListVal); keep those
    lists = set()
    for n in P.walk_no_nested(func):
        if isinstance(n, ast.Assign) and len(n.targets) == 1 and isinstance(n.targets[0], ast.Name) and isinstance(n.value, ast.List):
            lists.add(n.targets[0].id)
    out -= lists
    func._gsa_mutated = out
    return out


def _list_built(func):
    """locals that are lists filled in place (append / insert / extend / += [...]) or handed to a helper"""
    cached = getattr(func, '_gsa_lists', None)
    if cached is not None:
        return cached
    out = set()
    for n in P.walk_no_nested(func):
        if isinstance(n, ast.Call) and isinstance(n.func, ast.Attribute) and isinstance(n.func.value, ast.Name) and n.func.attr in ('append', 'insert', 'extend'):
            out.add(n.func.value.id)
        elif isinstance(n, ast.AugAssign) and isinstance(n.target, ast.Name):
            out.add(n.target.id)
        elif isinstance(n, ast.Call):
            for a in list(n.args) + [k.value for k in n.keywords]:
                if isinstance(a, ast.Name):
                    out.add(a.id)
    func._gsa_lists = out
    return out


def _read_before_write(stmts, name):
    """may `name` be read in the block before it is (re)assigned on that path?  (conservative: any load that is not
    preceded, in the same straight-line block, by an unconditional store)"""
    for st in stmts:
        if isinstance(st, ast.Assign) and len(st.targets) == 1 and isinstance(st.targets[0], ast.Name) and st.targets[0].id == name:
            if any(isinstance(x, ast.Name) and x.id == name and isinstance(x.ctx, ast.Load) for x in ast.walk(st.value)):
                return True
            return False
        if any(isinstance(x, ast.Name) and x.id == name and isinstance(x.ctx, ast.Load) for x in ast.walk(st)):
            return True
    return False


def _on_empty_literal(n):
    """{}.get(k), {}[k], [].x ...: a lookup in an empty literal yields nothing"""
    while isinstance(n, (ast.Subscript, ast.Attribute, ast.Call)):
        n = n.func if isinstance(n, ast.Call) else n.value
        if isinstance(n, ast.Dict) and not n.keys:
            return True
        if isinstance(n, (ast.List, ast.Tuple)) and not n.elts:
            return True
    return False


def _first_ifexp(n):
    """first conditional expression inside n (not inside lambdas / comprehensions / call arguments of unknown functions)"""
    if isinstance(n, ast.IfExp):
        return n
    if isinstance(n, (ast.Tuple, ast.List)):
        for e in n.elts:
            r = _first_ifexp(e)
            if r is not None:
                return r
    if isinstance(n, ast.BinOp):
        return _first_ifexp(n.left) or _first_ifexp(n.right)
    return None


def _subst_node(root, old, new):
    if root is old:
        return new
    if isinstance(root, (ast.Tuple, ast.List)):
        return type(root)(elts=[_subst_node(e, old, new) for e in root.elts], ctx=ast.Load())
    if isinstance(root, ast.BinOp):
        return ast.BinOp(left=_subst_node(root.left, old, new), op=root.op, right=_subst_node(root.right, old, new))
    return root


def _split_ifexp(summ, alts, env, pc, depth=0):
    """`x = a if c else b` (also inside a tuple / binary expression) defines two gated alternatives"""
    out = []
    for g, n in alts:
        ie = _first_ifexp(n) if n is not None and depth < 4 else None
        if ie is not None:
            c = summ.truth(ie.test, summ._cur_frame)
            out.extend(_split_ifexp(summ, [(conj(g, c), _subst_node(n, ie, ie.body)), (conj(g, neg(c)), _subst_node(n, ie, ie.orelse))], env, pc, depth + 1))
        else:
            out.append((g, n))
    return [(g, n) for g, n in out if g is not False]


def _match(pat, text):
    if isinstance(pat, str):
        return pat == text
    if hasattr(pat, 'search'):
        return pat.search(text) is not None
    if callable(pat):
        return bool(pat(text))
    if isinstance(pat, (tuple, list, set, frozenset)):
        return text in pat
    return False


def _replace(expr, mapping, bound=()):
    class T(ast.NodeTransformer):
        def visit_Name(self, n):
            if isinstance(n.ctx, ast.Load) and n.id in mapping and n.id not in bound:
                return clone(mapping[n.id])
            return n

        def visit_Call(self, n):
            self.generic_visit(n)
            # {}.get(k) -> None, {}.get(k, d) -> d
            if isinstance(n.func, ast.Attribute) and n.func.attr == 'get' and isinstance(n.func.value, ast.Dict) and not n.func.value.keys and n.args:
                return n.args[1] if len(n.args) > 1 else ast.Constant(value=None)
            return n
    return T().visit(clone(expr))


def _calls_outer_first(expr):
    out = []

    def rec(n):
        if isinstance(n, (ast.Lambda,)):
            return
        if isinstance(n, ast.Call):
            out.append(n)
        for c in ast.iter_child_nodes(n):
            rec(c)
    rec(expr)
    return out


def _inner_guard(summ, root, node, env, fr, pc):
    """short-circuit / conditional-expression condition of `node` inside the expression `root`"""
    path = []

    def find(n, acc):
        if n is node:
            path.extend(acc)
            return True
        if isinstance(n, ast.BoolOp):
            for i, v in enumerate(n.values):
                if find(v, acc + [('bool', n, i)]):
                    return True
            return False
        if isinstance(n, ast.IfExp):
            if find(n.test, acc):
                return True
            if find(n.body, acc + [('if', n, True)]):
                return True
            return find(n.orelse, acc + [('if', n, False)])
        for c in ast.iter_child_nodes(n):
            if find(c, acc):
                return True
        return False
    find(root, [])
    g = True
    for kind, n, x in path:
        if kind == 'bool':
            for prev in n.values[:x]:
                c = summ.cond(prev, env, fr, pc)
                g = conj(g, c if isinstance(n.op, ast.And) else neg(c))
        else:
            c = summ.cond(n.test, env, fr, pc)
            g = conj(g, c if x else neg(c))
    return g


def summarise(ctx, modname, qual, **kw):
    key = ('gsa', modname, qual, tuple(sorted(kw.get('opaque', ()))), kw.get('depth', 4), kw.get('inline_module_funcs', False),
           tuple(sorted(kw['inline_only'])) if kw.get('inline_only') is not None else None, kw.get('index', False))
    cache = ctx.__dict__.setdefault('_gsa_cache', {})
    if key not in cache:
        cache[key] = Summary(ctx.py, modname, qual, **kw)
    return cache[key]


# ---------------------------------------------------------------------------------------------- rule helpers
def _rx(p):
    return re.compile(p) if isinstance(p, str) else p


def valuation(summ, spec, default=None, extra_atoms=()):
    """{atom: bool} for the atoms of the summary: the first (regex, value) of `spec` matching the atom text decides"""
    val = {}
    spec = [(_rx(p), v) for p, v in spec]
    for a in list(summ.atoms()) + list(extra_atoms):
        for p, v in spec:
            if p.search(a):
                if v in ('P', 'A'):
                    v = _presence(a, v == 'P')
                if v is not None:
                    val[a] = v
                break
        else:
            if default is not None:
                val[a] = default
    return val


def possible(summ, target, spec, default=None, kinds=('store',), value=None):
    """set of values `target` may end up with under the valuation (later stores override earlier definite ones)"""
    tp = _rx(target)
    val = valuation(summ, spec, default)
    cur = set()
    for e in summ.effects:
        if e.kind not in kinds or not tp.search(e.target):
            continue
        if value is not None and not _rx(value).search(e.value):
            continue
        v = ev3(e.cond, val)
        if v is True:
            cur = {value_under(summ, e, val, spec, default)}
        elif v is None:
            cur = cur | {value_under(summ, e, val, spec, default)}
    return cur


def value_under(summ, e, val, spec=(), default=None):
    """text of the stored value; a boolean-valued expression (comparison, not, and/or of comparisons) is evaluated under the valuation"""
    n = e.vnode
    if isinstance(n, (ast.Compare, ast.BoolOp)) or (isinstance(n, ast.UnaryOp) and isinstance(n.op, ast.Not)):
        if isinstance(n, ast.BoolOp) and not all(isinstance(x, (ast.Compare, ast.UnaryOp, ast.BoolOp)) for x in n.values):
            return e.value
        f = summ.truth(n, _Frame(summ.func, getattr(summ.func, '_module', summ.mod), ()))
        v2 = dict(val)
        v2.update(valuation(summ, spec, default, extra_atoms=atoms(f)))
        v = ev3(f, v2)
        if v is not None:
            return 'True' if v else 'False'
    return e.value


def find(summ, kind, target=None, value=None):
    tp = _rx(target) if target is not None else None
    vp = _rx(value) if value is not None else None
    return [e for e in summ.effects if e.kind == kind and (tp is None or tp.search(e.target)) and (vp is None or vp.search(e.value))]


def _presence(a, present):
    """truth value of an atom that talks about something being present: `x is None`, `len(x) == 0` are inverted"""
    if a.endswith(' is None') or re.search(r'== 0$', a):
        return not present
    return present


def needs(summ, eff, pattern):
    """the effect cannot happen when everything matching `pattern` is absent/false (others unknown)"""
    p = _rx(pattern)
    names = [a for a in atoms(eff.cond) if p.search(a)]
    if not names:
        return False
    return ev3(eff.cond, dict((a, _presence(a, False)) for a in names)) is False


def excluded_by(summ, eff, pattern):
    """the effect cannot happen when everything matching `pattern` is present/true"""
    p = _rx(pattern)
    names = [a for a in atoms(eff.cond) if p.search(a)]
    if not names:
        return False
    return ev3(eff.cond, dict((a, _presence(a, True)) for a in names)) is False


def can_hold(cond, val):
    """is the condition satisfiable once the atoms of `val` are fixed?  (exact, unlike the 3-valued evaluation)"""
    return sat(assign(cond, val)) is not False


def impossible(summ, eff, spec):
    """the effect cannot happen under the valuation"""
    return not can_hold(eff.cond, valuation(summ, spec))


def allowed(summ, eff, spec):
    """the effect can (or must) happen under the valuation: ev3 is not False"""
    return can_hold(eff.cond, valuation(summ, spec))


def compatible(e1, e2):
    """can both effects happen in the same run (conjunction satisfiable)?"""
    return sat(conj(e1.cond, e2.cond)) is not False


def returns_under(summ, decide):
    """possible return values of the summarised function when atoms are decided by `decide(atom text) -> bool|None`:
    list of (value text, node, definite?)"""
    out = []
    names = []
    for g, n in summ.returns:
        atoms(g, names)
    if summ.falls is not False:
        atoms(summ.falls, names)
    val = {}
    for a in names:
        v = decide(a)
        if v is not None:
            val[a] = v
    for g, n in summ.returns:
        v = ev3(g, val)
        if v is not False:
            out.append((_unparse(n), n, v is True))
    if summ.falls is not False:
        v = ev3(summ.falls, val)
        if v is not False:
            out.append(('None', None, v is True))
    return out


def decide_by(spec, default=None):
    spec = [(_rx(p), v) for p, v in spec]

    def f(a):
        for p, v in spec:
            if p.search(a):
                if v in ('P', 'A'):
                    return _presence(a, v == 'P')
                return v
        return default
    return f


def truth_returns(summ, decide):
    """like returns_under, but boolean-valued return expressions are evaluated: [(True|False|text, definite?)]"""
    out = []
    fr = _Frame(summ.func, getattr(summ.func, '_module', summ.mod), ())
    for text, node, definite in returns_under(summ, decide):
        if node is None:
            out.append((None, definite))
            continue
        f = summ.truth(node, fr)
        if f is True or f is False:
            out.append((f, definite))
            continue
        val = {}
        for a in atoms(f):
            v = decide(a)
            if v is not None:
                val[a] = v
        v = ev3(f, val)
        out.append((v if v is not None else text, definite))
    return out


def cond_any(effs):
    return disj(*[e.cond for e in effs])


def depends_negatively(cond, pattern):
    """making every atom matching `pattern` false can only add to the condition, and does change it"""
    p = _rx(pattern)
    names = [a for a in atoms(cond) if p.search(a)]
    if not names:
        return False
    f0 = assign(cond, dict((a, False) for a in names))
    f1 = assign(cond, dict((a, True) for a in names))
    return implies(f1, f0) and not equiv(f0, f1)


def list_items(summ, name=None):
    """(condition, key text or None, value node, whole node) for every element put into a list the function builds in place;
    `name` defaults to the only such list"""
    lists = dict((k, v) for k, v in summ.final_env.items() if isinstance(v, ListVal))
    if name is None:
        if len(lists) != 1:
            raise AnalysisError('%s: expected one list built in place, found %s' % (summ.qual, sorted(lists)))
        name = list(lists)[0]
    if name not in lists:
        raise AnalysisError('%s: no list `%s` built in place' % (summ.qual, name))
    out = []
    for cond, n in lists[name].items:
        key = None
        val = n
        if isinstance(n, ast.Tuple) and len(n.elts) == 2:
            ok, k = summ.fold(n.elts[0], _Frame(summ.func, getattr(summ.func, '_module', summ.mod), ()))
            key = k if ok else _unparse(n.elts[0])
            val = n.elts[1]
        out.append((cond, key, val, n))
    return out


def true_formula(summ):
    """the condition under which the summarised predicate returns a true value: OR over its returns of (path condition AND truth of the returned expression)"""
    fr = _Frame(summ.func, getattr(summ.func, '_module', summ.mod), ())
    out = False
    for g, n in summ.returns:
        if n is None:
            continue
        out = disj(out, conj(g, summ.truth(n, fr)))
    return out
