"""E-c: C front end.  clang-14's JSON AST of one translation unit, parsed against the stub GLib headers
in /verif/cstub (no GLib/libffi headers exist in the sandbox).  Nothing is compiled to code or run.
"""
import hashlib
import json
import os
import re
import shutil
import subprocess

from .core import AnalysisError, VERIF

CLANG = shutil.which('clang-14') or shutil.which('clang')
STUB = os.path.join(VERIF, 'cstub')
DEFS = ['-DGI_COMPILATION', '-DG_LOG_DOMAIN="x"', '-DGIR_DIR="/g"', '-DGIR_SUFFIX="gir-1.0"',
        '-DGOBJECT_INTROSPECTION_LIBDIR="/l"', '-DGOBJECT_INTROSPECTION_DATADIR="/d"']

_MEM = {}


class Node(dict):
    """dict with attribute helpers; children in .inner"""
    __slots__ = ()


def _fix_locs(root):
    """clang's JSON omits file/line when unchanged from the previously printed location: restore them."""
    state = {'file': None, 'line': None}

    def loc(d):
        if not isinstance(d, dict):
            return
        for key in ('spellingLoc', 'expansionLoc'):
            if key in d:
                loc(d[key])
        if 'offset' in d:
            if 'file' in d:
                state['file'] = d['file']
            else:
                d['file'] = state['file']
            if 'line' in d:
                state['line'] = d['line']
            else:
                d['line'] = state['line']

    def visit(n):
        if isinstance(n, dict):
            for k, v in n.items():
                if k == 'loc':
                    loc(v)
                elif k == 'range':
                    loc(v.get('begin'))
                    loc(v.get('end'))
                elif k == 'inner':
                    for c in v:
                        visit(c)
                elif isinstance(v, (dict, list)) and k not in ('type', 'decl', 'referencedDecl', 'ownedTagDecl', 'argType'):
                    visit(v)
        elif isinstance(n, list):
            for c in n:
                visit(c)
    visit(root)


def eloc(d):
    """expansion-level location dict of a loc/range endpoint"""
    if d is None:
        return {}
    if 'expansionLoc' in d:
        return d['expansionLoc']
    return d


class TU(object):
    def __init__(self, ctx, rel):
        self.rel = rel
        self.path = ctx.path(rel)
        self.text = ctx.read(rel)
        self.bytes = self.text.encode('utf-8')
        root = ctx.root
        cmd = [CLANG, '-fsyntax-only', '-Xclang', '-ast-dump=json', '-w',
               '-I', STUB, '-I', os.path.join(root, 'girepository'), '-I', root, '-I', os.path.join(root, 'girepository', 'cmph')] + DEFS + [self.path]
        # error check first (cheap) so that a broken TU is an analysis error, not garbage
        chk = subprocess.run([CLANG, '-fsyntax-only', '-w', '-I', STUB, '-I', os.path.join(root, 'girepository'), '-I', root,
                              '-I', os.path.join(root, 'girepository', 'cmph')] + DEFS + [self.path],
                             stdout=subprocess.PIPE, stderr=subprocess.PIPE)
        if chk.returncode != 0:
            raise AnalysisError('%s does not parse under the stub GLib headers:\n%s' % (rel, chk.stderr.decode()[:600]))
        p = subprocess.run(cmd, stdout=subprocess.PIPE, stderr=subprocess.PIPE)
        if p.returncode != 0:
            raise AnalysisError('clang failed on %s: %s' % (rel, p.stderr.decode()[:400]))
        self.root = json.loads(p.stdout)
        _fix_locs(self.root)
        self.parent = {}
        self.functions = {}
        self.records = {}
        self.enums = {}
        self.typedefs = {}
        self.vars = {}
        self.by_id = {}
        for d in self.root.get('inner', []):
            k = d.get('kind')
            if k == 'FunctionDecl' and any(c.get('kind') == 'CompoundStmt' for c in d.get('inner', [])):
                self.functions[d['name']] = d
            elif k == 'RecordDecl' and d.get('completeDefinition') and d.get('name'):
                self.records[d['name']] = d
            elif k == 'EnumDecl':
                for c in d.get('inner', []):
                    if c.get('kind') == 'EnumConstantDecl':
                        self.enums[c['name']] = c
            elif k == 'TypedefDecl':
                self.typedefs[d['name']] = d
            elif k == 'VarDecl':
                self.vars[d['name']] = d
        self._index(self.root, None)

    def _index(self, n, parent):
        stack = [(n, parent)]
        while stack:
            n, parent = stack.pop()
            self.parent[id(n)] = parent
            if 'id' in n:
                self.by_id[n['id']] = n
            for c in n.get('inner', []) or []:
                if isinstance(c, dict):
                    stack.append((c, n))

    # ------------------------------------------------------------------ basic accessors
    def func(self, name, required=True):
        f = self.functions.get(name)
        if f is None and required:
            raise AnalysisError('anchor function %s missing in %s' % (name, self.rel))
        return f

    def body(self, f):
        for c in f.get('inner', []):
            if c.get('kind') == 'CompoundStmt':
                return c
        raise AnalysisError('function %s has no body' % f.get('name'))

    def params(self, f):
        return [c for c in f.get('inner', []) if c.get('kind') == 'ParmVarDecl']

    def line(self, n):
        r = n.get('range', {}).get('begin') or n.get('loc') or {}
        return eloc(r).get('line') or 0

    def in_main_file(self, n):
        r = eloc(n.get('range', {}).get('begin') or n.get('loc') or {})
        f = r.get('file')
        return f is None or os.path.abspath(f) == os.path.abspath(self.path)

    def text_of(self, n):
        """source text of the node (expansion range)"""
        r = n.get('range')
        if not r:
            return ''
        b, e = eloc(r.get('begin')), eloc(r.get('end'))
        if 'offset' not in b or 'offset' not in e:
            return ''
        if b.get('file') and os.path.abspath(b['file']) != os.path.abspath(self.path):
            return ''
        try:
            start, end = b['offset'], e['offset'] + e.get('tokLen', 1)
            if 'expansionLoc' in (r.get('end') or {}):
                # a function-like macro invocation: every token maps to the macro name; extend over its argument list
                j = end
                while j < len(self.bytes) and self.bytes[j:j + 1] in (b' ', b'\t', b'\n'):
                    j += 1
                if self.bytes[j:j + 1] == b'(':
                    depth = 0
                    while j < len(self.bytes):
                        ch = self.bytes[j:j + 1]
                        if ch == b'(':
                            depth += 1
                        elif ch == b')':
                            depth -= 1
                            if depth == 0:
                                end = j + 1
                                break
                        j += 1
            return self.bytes[start:end].decode('utf-8', 'replace')
        except Exception:
            return ''

    def par(self, n):
        return self.parent.get(id(n))

    def ancestors(self, n):
        n = self.par(n)
        while n is not None:
            yield n
            n = self.par(n)

    def enclosing_function(self, n):
        for a in self.ancestors(n):
            if a.get('kind') == 'FunctionDecl':
                return a
        return None


def walk(n):
    stack = [n]
    while stack:
        x = stack.pop()
        yield x
        inner = x.get('inner')
        if inner:
            for c in reversed(inner):
                if isinstance(c, dict):
                    stack.append(c)


def kids(n):
    return [c for c in n.get('inner', []) if isinstance(c, dict)]


TRANSPARENT = ('ImplicitCastExpr', 'ParenExpr', 'CStyleCastExpr', 'ConstantExpr', 'ExprWithCleanups')


def strip(n, casts=True):
    """skip parentheses and (optionally) casts"""
    while n is not None and n.get('kind') in TRANSPARENT and kids(n):
        if not casts and n.get('kind') == 'CStyleCastExpr':
            break
        n = kids(n)[-1]
    return n


def callee(n):
    """name of the function called by a CallExpr (direct calls only)"""
    if n.get('kind') != 'CallExpr' or not kids(n):
        return None
    f = strip(kids(n)[0])
    if f.get('kind') == 'DeclRefExpr':
        return f.get('referencedDecl', {}).get('name')
    return None


def call_args(n):
    return kids(n)[1:]


def string_value(n):
    """C string literal value (concatenated literal as clang stores it)"""
    n = strip(n)
    if n is not None and n.get('kind') == 'StringLiteral':
        v = n.get('value', '')
        try:
            return json.loads(v) if v.startswith('"') else v
        except Exception:
            return v[1:-1]
    return None


def int_value(n):
    n = strip(n)
    if n is None:
        return None
    if n.get('kind') == 'IntegerLiteral':
        try:
            return int(n.get('value'))
        except Exception:
            return None
    if n.get('kind') == 'UnaryOperator' and n.get('opcode') == '-':
        v = int_value(kids(n)[0])
        return -v if v is not None else None
    if n.get('kind') == 'DeclRefExpr' and n.get('referencedDecl', {}).get('kind') == 'EnumConstantDecl':
        return None
    return None


def declref(n):
    n = strip(n)
    if n is not None and n.get('kind') == 'DeclRefExpr':
        return n.get('referencedDecl', {}).get('name')
    return None


def member_path(n):
    """'a->b.c' style path for DeclRef/MemberExpr chains (through casts/parens), else None"""
    n = strip(n)
    if n is None:
        return None
    k = n.get('kind')
    if k == 'DeclRefExpr':
        return n.get('referencedDecl', {}).get('name')
    if k == 'MemberExpr':
        base = member_path(kids(n)[0])
        if base is None:
            return None
        return '%s%s%s' % (base, '->' if n.get('isArrow') else '.', n.get('name'))
    if k == 'UnaryOperator' and n.get('opcode') == '*':
        b = member_path(kids(n)[0])
        return '*%s' % b if b else None
    if k == 'ArraySubscriptExpr':
        b = member_path(kids(n)[0])
        return '%s[]' % b if b else None
    return None


def qual_type(n):
    t = n.get('type', {})
    return t.get('desugaredQualType') or t.get('qualType')


def base_record_type(member_expr):
    """record type name of the object a MemberExpr selects from ('ObjectBlob', 'GIrNodeField')"""
    b = kids(member_expr)[0]
    t = (b.get('type', {}).get('qualType') or '').replace('const ', '').replace('struct ', '').strip()
    return t.rstrip('*').strip()


class CTree(object):
    def __init__(self, ctx):
        self.ctx = ctx
        self.tus = {}

    def tu(self, rel):
        if CLANG is None:
            raise AnalysisError('clang not found')
        if rel not in self.tus:
            path = self.ctx.path(rel)
            with open(path, 'rb') as f:
                digest = hashlib.sha256(f.read()).hexdigest()
            key = (os.path.abspath(self.ctx.root), rel, digest)
            if key not in _MEM:
                _MEM[key] = TU(self.ctx, rel)
            else:
                self.ctx.read(rel)
            self.tus[rel] = _MEM[key]
        return self.tus[rel]

    def func(self, rel, name):
        return self.tu(rel).func(name)


# ---------------------------------------------------------------------- structure helpers

def guards(tu, n, stop=None):
    """control-dependence chain of a statement/expression: [(cond node, polarity, origin)] from outermost to innermost,
    including negated conditions of earlier siblings that always leave (return/goto/break/continue)"""
    out = []
    cur = n
    while True:
        p = tu.par(cur)
        if p is None or p is stop or p.get('kind') == 'FunctionDecl':
            break
        k = p.get('kind')
        ch = kids(p)
        if k == 'IfStmt':
            # children: [cond, then, (else)] possibly with init/var
            cond_i = 0
            if p.get('hasVar') or p.get('hasInit'):
                cond_i = 1
            cond = ch[cond_i]
            if cur is ch[cond_i + 1] if len(ch) > cond_i + 1 else False:
                out.append((cond, True, p))
            elif len(ch) > cond_i + 2 and cur is ch[cond_i + 2]:
                out.append((cond, False, p))
        elif k in ('WhileStmt', 'ForStmt'):
            pass
        elif k == 'ConditionalOperator':
            if cur is ch[1]:
                out.append((ch[0], True, p))
            elif cur is ch[2]:
                out.append((ch[0], False, p))
        elif k == 'BinaryOperator' and p.get('opcode') in ('&&', '||') and cur is ch[1]:
            out.append((ch[0], p.get('opcode') == '&&', p))
        elif k == 'CompoundStmt':
            idx = None
            for i, c in enumerate(ch):
                if c is cur:
                    idx = i
                    break
            if idx is not None:
                prevs = []
                for prev in ch[:idx]:
                    if prev.get('kind') == 'CompoundStmt':
                        prevs.extend(kids(prev))       # a bare nested block: its early exits guard what follows
                    else:
                        prevs.append(prev)
                for prev in prevs:
                    if prev.get('kind') == 'IfStmt':
                        pc = kids(prev)
                        ci = 1 if (prev.get('hasVar') or prev.get('hasInit')) else 0
                        then = pc[ci + 1] if len(pc) > ci + 1 else None
                        els = pc[ci + 2] if len(pc) > ci + 2 else None
                        te, ee = always_exits(then), always_exits(els)
                        if te and not ee:
                            out.append((pc[ci], False, prev))
                        elif ee and not te:
                            out.append((pc[ci], True, prev))
        cur = p
    out.reverse()
    return out


def always_exits(n):
    if n is None:
        return False
    k = n.get('kind')
    if k in ('ReturnStmt', 'GotoStmt', 'BreakStmt', 'ContinueStmt'):
        return True
    if k == 'CompoundStmt':
        ch = kids(n)
        return bool(ch) and always_exits(ch[-1])
    if k == 'IfStmt':
        ch = kids(n)
        ci = 1 if (n.get('hasVar') or n.get('hasInit')) else 0
        return len(ch) > ci + 2 and always_exits(ch[ci + 1]) and always_exits(ch[ci + 2])
    if k == 'CallExpr' and callee(n) in ('g_assert_not_reached', 'g_error', 'abort', 'exit'):
        return True
    return False


def switch_cases(tu, sw):
    """{label text or 'default': [statements]} for a SwitchStmt with fall-through labels sharing statements.
    returns list of (labels, stmts) in source order"""
    ch = kids(sw)
    body = ch[-1]
    groups = []
    cur_labels = []
    cur_stmts = []

    def flush():
        if cur_labels:
            groups.append((list(cur_labels), list(cur_stmts)))

    def label_of(case):
        if case.get('kind') == 'DefaultStmt':
            return 'default'
        c = strip(kids(case)[0])
        return declref(c) or tu.text_of(kids(case)[0])

    for st in kids(body):
        if st.get('kind') in ('CaseStmt', 'DefaultStmt'):
            if cur_stmts and not _falls_through(cur_stmts):
                flush()
                cur_labels[:] = []
                cur_stmts[:] = []
            elif cur_stmts:
                # fall-through with statements: keep accumulating labels but start a new group that includes following stmts
                flush()
                cur_labels[:] = []
                cur_stmts[:] = []
            node = st
            while node.get('kind') in ('CaseStmt', 'DefaultStmt'):
                cur_labels.append(label_of(node))
                sub = kids(node)[-1] if node.get('kind') == 'CaseStmt' else kids(node)[0]
                node = sub
            cur_stmts.append(node)
        else:
            cur_stmts.append(st)
    flush()
    return groups


def _falls_through(stmts):
    last = stmts[-1]
    return not (last.get('kind') in ('BreakStmt', 'ReturnStmt', 'GotoStmt', 'ContinueStmt') or always_exits(last))


def assignments(root):
    """(lhs node, rhs node, stmt) for every `=` BinaryOperator below root (compound assignments included with op)"""
    out = []
    for n in walk(root):
        if n.get('kind') == 'BinaryOperator' and n.get('opcode') == '=':
            ch = kids(n)
            out.append((ch[0], ch[1], n))
        elif n.get('kind') == 'CompoundAssignOperator':
            ch = kids(n)
            out.append((ch[0], ch[1], n))
    return out


def calls(root, name=None):
    out = []
    for n in walk(root):
        if n.get('kind') == 'CallExpr':
            c = callee(n)
            if name is None or c == name or (isinstance(name, (tuple, list, set)) and c in name):
                out.append(n)
    return out


def sizeof_type(n):
    """type name of sizeof(T) / sizeof expr"""
    n = strip(n)
    if n is not None and n.get('kind') == 'UnaryExprOrTypeTraitExpr' and n.get('name') == 'sizeof':
        at = n.get('argType', {})
        if at:
            return at.get('qualType')
        ch = kids(n)
        if ch:
            return (ch[0].get('type', {}).get('qualType'))
    return None
