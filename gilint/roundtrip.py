"""Composition of the writer's emission table with the reader's decoding (GIR attribute level).

For one element kind: enumerate abstract model valuations m, compute the attributes W(m) the writer
emits, decode them with the reader R (constructor + stores + generic attribs), write again and require
W(R(W(m))) == W(m) (same keys; same values where both are concrete).  Everything is evaluated on
expression trees extracted from the current source by wattr/absint; no repository code is run.
"""
import ast
import itertools

from .core import AnalysisError
from . import pyfront as P
from . import absint
from .absint import Opaque, Unknown, PyRaise, Env, Interp, ev, truthy


_PFX = {'c': 'http://www.gtk.org/introspection/c/1.0', 'glib': 'http://www.gtk.org/introspection/glib/1.0',
        'doc': 'http://www.gtk.org/introspection/doc/1.0', 'xml': 'http://www.w3.org/XML/1998/namespace'}


def clark(key):
    """writer-side prefixed attribute name -> ElementTree's {namespace}local form"""
    if ':' in key:
        p, local = key.split(':', 1)
        if p in _PFX:
            return '{%s}%s' % (_PFX[p], local)
    return key


def model_atoms(rows, base):
    """attribute chains `base.x[.y]` used by the rows, with how they are used"""
    uses = {}
    for r in rows:
        texts = [(t, 'guard') for t, pol in r.guards] + [(r.value, 'value')]
        for text, where in texts:
            try:
                node = ast.parse(text, mode='eval').body
            except SyntaxError:
                continue
            for p in ast.walk(node):
                for c in ast.iter_child_nodes(p):
                    c._parent = p
            for n in ast.walk(node):
                if isinstance(n, ast.Attribute):
                    s = P.src(n)
                    if not s.startswith(base + '.'):
                        continue
                    par = getattr(n, '_parent', None)
                    if isinstance(par, ast.Attribute) and P.src(par).startswith(base + '.') and par.value is n:
                        continue  # not maximal
                    if isinstance(par, ast.Call) and par.func is n:
                        continue  # method call on the model object
                    u = uses.setdefault(s, {'consts': set(), 'none': False, 'truth': False, 'value': False, 'fmt_d': False})
                    if isinstance(par, ast.Compare):
                        for c in [par.left] + par.comparators:
                            if c is n:
                                continue
                            if isinstance(c, ast.Constant) and c.value is None:
                                u['none'] = True
                            else:
                                u['consts'].add(P.src(c))
                    elif where == 'value' and (par is None):
                        u['value'] = True
                    elif isinstance(par, (ast.Tuple,)) and isinstance(getattr(par, '_parent', None), ast.BinOp):
                        u['fmt_d'] = True
                    elif isinstance(par, ast.Call):
                        u['value'] = True
                    elif isinstance(par, ast.IfExp) and par.test is n:
                        u['truth'] = True
                    elif isinstance(par, ast.IfExp):
                        u['value'] = True
                    else:
                        u['truth'] = True
    return uses


def domain_of(u, env):
    vals = []
    if u['consts']:
        for c in sorted(u['consts']):
            try:
                vals.append(ev(ast.parse(c, mode='eval').body, env))
            except Unknown:
                pass
        vals.append(None)
        vals.append('other-value')
    elif u['fmt_d']:
        vals = [None, 3, 0]          # 0 is a legal size / index and the classic victim of truthiness tests
    elif u['value']:
        vals = [None, 'v']
    elif u['none'] and not u['truth']:
        vals = [None, Opaque('obj')]
    else:
        vals = [False, True]
        if u['none']:
            vals.append(None)
    out = []
    for v in vals:
        if v not in out:
            out.append(v)
    return out


def write(rows, atoms, env):
    """attributes emitted for one valuation: ordered list of (key, value); value may be Opaque"""
    out = []
    e = Env(env.py, env.mod, atoms, None, {}, ())
    for r in rows:
        ok = True
        for text, pol in r.guards:
            if text.startswith('isinstance(') or text.startswith('except '):
                continue
            node = ast.parse(text, mode='eval').body
            try:
                v = truthy(ev(node, e))
            except Unknown as ex:
                raise AnalysisError('writer guard not evaluable: %s (%s)' % (text, ex))
            if v != pol:
                ok = False
                break
        if not ok:
            continue
        try:
            val = ev(ast.parse(r.value, mode='eval').body, e)
        except Unknown:
            val = Opaque('value:%s' % r.value)
        if val is None:
            continue        # xmlwriter drops attributes whose value is None
        out.append((r.key, val))
    return out


def attr_maps_equal(a, b):
    da, db = {}, {}
    for k, v in a:
        da.setdefault(k, v)
    for k, v in b:
        db.setdefault(k, v)
    if set(da) != set(db):
        return False, 'attribute sets differ: %s vs %s' % (sorted(da), sorted(db))
    for k in da:
        if isinstance(da[k], Opaque) or isinstance(db[k], Opaque):
            continue
        if str(da[k]) != str(db[k]):
            return False, '%s: %r vs %r' % (k, da[k], db[k])
    return True, ''


class ReaderRunner(object):
    """abstractly runs one reader method for an element with given attributes and returns the object built"""
    def __init__(self, py, modname, cname, inline=('_parse_generic_attribs',), assume=None):
        self.py = py
        self.modname = modname
        self.cname = cname
        self.mod = py.mod(modname)
        self.methods = py.methods(modname, cname)
        self.inline = set(inline)
        self.childless = set(['_parse_generic_attribs'])    # attribute-level view: no doc/attribute child elements
        self.interp = Interp(py, assume)

    def run(self, method, attrib, node_vars, want_class, extra_locals=None, atoms=None):
        f = self.methods[method]
        loc = {'self': absint.Obj(self.cname)}
        loc['self'].attrs['_types_only'] = False
        loc.update(extra_locals or {})
        env = Env(self.py, self.mod, atoms or {}, attrib, loc, node_vars)
        built = []
        self._block(f.body, env, built)
        objs = [o for o in built if o.cls == want_class]
        if not objs:
            raise AnalysisError('%s: no %s constructed by abstract run' % (method, want_class))
        return objs[-1]

    def _block(self, stmts, env, built):
        for st in stmts:
            if self._stmt(st, env, built) == 'return':
                return 'return'

    def _ctor_class(self, call, env):
        """ast.Foo(...) / klass(...) where klass was bound to ast.Foo"""
        fn = call.func
        if isinstance(fn, ast.Attribute) and isinstance(fn.value, ast.Name) and fn.value.id in env.mod.imports \
                and env.mod.imports[fn.value.id][1] is None and not env.mod.imports[fn.value.id][0].startswith('ext:'):
            tm = self.py.mod(env.mod.imports[fn.value.id][0])
            if fn.attr in tm.classes:
                return tm.rel, fn.attr
        if isinstance(fn, ast.Name) and isinstance(env.locals.get(fn.id), tuple) and env.locals[fn.id][0] == 'class':
            return env.locals[fn.id][1], env.locals[fn.id][2]
        return None

    def _eval(self, node, env, built):
        if isinstance(node, ast.Dict) and all(k is not None for k in node.keys):
            out = {}
            for k, v in zip(node.keys, node.values):
                try:
                    out[ev(k, env)] = self._eval(v, env, built)
                except Unknown:
                    return Opaque('dict')
            return out
        if isinstance(node, ast.IfExp):
            # klass = ast.Bitfield if node.tag == ... else ast.Enum
            try:
                c = truthy(ev(node.test, env))
            except Unknown:
                tv = self._eval(node.test, env, built) if isinstance(node.test, ast.Call) and self._inlinable(node.test, env) else Opaque('test')
                if isinstance(tv, Opaque):
                    return Opaque('expr:%s' % P.src(node))
                c = truthy(tv)
            return self._eval(node.body if c else node.orelse, env, built)
        if isinstance(node, ast.Call):
            cc = self._ctor_class(node, env)
            if cc:
                star = [k for k in node.keywords if k.arg is None]
                if star and isinstance(star[0].value, ast.Name) and isinstance(env.locals.get(star[0].value.id), dict):
                    init = self.py.func(cc[0], '%s.__init__' % cc[1], required=False)
                    obj = absint.Obj(cc[1])
                    if init is not None:
                        self.interp.run_init(cc[0], cc[1], init, {}, env, obj, bound_values=dict(env.locals[star[0].value.id]))
                    built.append(obj)
                    return obj
                obj = self.interp.construct(cc[0], cc[1], node, env)
                built.append(obj)
                return obj
            nm = P.call_name(node) or ''
            if self._inlinable(node, env):
                return self._inline(node, env, built)
        if isinstance(node, ast.Attribute) and isinstance(node.value, ast.Name) and node.value.id in env.mod.imports \
                and env.mod.imports[node.value.id][1] is None:
            tm = self.py.mod(env.mod.imports[node.value.id][0])
            if node.attr in tm.classes:
                return ('class', tm.rel, node.attr)
        try:
            return ev(node, env)
        except Unknown:
            return Opaque('expr:%s' % P.src(node))

    def _inlinable(self, c, env):
        """a helper of the reader class that is handed the very element being read (same XML node): part of reading this element"""
        nm = P.call_name(c) or ''
        if not (nm.startswith('self.') and nm[5:] in self.methods):
            return False
        if nm[5:] in self.inline:
            return True
        if env.locals.get('__depth__', 0) >= 3:
            return False
        return any(isinstance(a, ast.Name) and a.id in env.attrib_vars for a in c.args)

    def _inline(self, c, env, built):
        callee = self.methods[P.call_name(c)[5:]]
        params = [a.arg for a in callee.args.args][1:]
        loc = {'self': env.locals['self']}
        if callee.name in self.childless:
            loc['__childless__'] = True
        nvars = set()
        for p, a in zip(params, c.args):
            if isinstance(a, ast.Name) and a.id in env.attrib_vars:
                nvars.add(p)
                loc[p] = Opaque('element')
            else:
                loc[p] = self._eval(a, env, built)
        loc['__depth__'] = env.locals.get('__depth__', 0) + 1
        e2 = Env(self.py, env.mod, env.atoms, env.attrib, loc, nvars)
        self._block(callee.body, e2, built)
        return e2.locals.get('__return__')

    def _stmt(self, st, env, built):
        if isinstance(st, ast.Assign) and len(st.targets) == 1:
            t = st.targets[0]
            v = self._eval(st.value, env, built)
            if isinstance(t, ast.Name):
                env.locals[t.id] = v
            elif isinstance(t, ast.Attribute) and isinstance(t.value, ast.Name) and isinstance(env.locals.get(t.value.id), absint.Obj):
                env.locals[t.value.id].attrs[t.attr] = v
            elif isinstance(t, ast.Subscript) and isinstance(t.value, ast.Name) and isinstance(env.locals.get(t.value.id), dict):
                try:
                    env.locals[t.value.id][ev(t.slice, env)] = v
                except Unknown:
                    pass
            elif isinstance(t, ast.Subscript) and isinstance(t.value, ast.Attribute) and t.value.attr == '__dict__' \
                    and isinstance(t.value.value, ast.Name) and isinstance(env.locals.get(t.value.value.id), absint.Obj):
                try:
                    k = ev(t.slice, env)
                    if isinstance(k, str):
                        env.locals[t.value.value.id].attrs[k] = v
                except Unknown:
                    pass
            return
        if isinstance(st, ast.If):
            t = st.test
            # klass is ast.Signal style tests on class tuples
            try:
                if isinstance(t, ast.Compare) and len(t.ops) == 1 and isinstance(t.ops[0], (ast.Is, ast.Eq)) and isinstance(t.left, ast.Name) \
                        and isinstance(env.locals.get(t.left.id), tuple):
                    rhs = self._eval(t.comparators[0], env, built)
                    c = env.locals[t.left.id] == rhs
                elif isinstance(t, ast.Call) and self._inlinable(t, env):
                    tv = self._eval(t, env, built)        # a helper of the reader that is handed the element (`if self._get_flag(node, K):`)
                    if isinstance(tv, Opaque):
                        raise Unknown('opaque helper result')
                    c = truthy(tv)
                else:
                    c = truthy(ev(t, env))
            except Unknown:
                # unknown condition: run both branches on the same state (stores become possibly stale, mark opaque)
                before = dict((k, dict(v.attrs)) for k, v in env.locals.items() if isinstance(v, absint.Obj))
                self._block(st.body, env, built)
                self._block(st.orelse, env, built)
                for k, v in env.locals.items():
                    if isinstance(v, absint.Obj) and k in before:
                        for a, val in v.attrs.items():
                            if a not in before[k] or before[k][a] != val:
                                v.attrs[a] = Opaque('under-unknown-guard')
                return
            return self._block(st.body if c else st.orelse, env, built)
        if isinstance(st, ast.Try):
            try:
                return self._block(st.body, env, built)
            except PyRaise as e:
                for h in st.handlers:
                    names = [P.src(h.type)] if h.type is not None and not isinstance(h.type, ast.Tuple) else \
                        ([P.src(x) for x in h.type.elts] if h.type is not None else [e.kind])
                    if e.kind in names or 'Exception' in names:
                        return self._block(h.body, env, built)
                raise
        if isinstance(st, ast.For):
            items = None
            try:
                items = ev(st.iter, env)
            except Unknown:
                pass
            if isinstance(items, (list, tuple)) and isinstance(st.target, ast.Name):
                for it in items:
                    env.locals[st.target.id] = it
                    self._block(st.body, env, built)
            return
        if isinstance(st, ast.Expr) and isinstance(st.value, ast.Call):
            c = st.value
            if self._inlinable(c, env):
                self._inline(c, env, built)
            return
        if isinstance(st, ast.Return):
            env.locals['__return__'] = self._eval(st.value, env, built) if st.value is not None else None
            return 'return'
        if isinstance(st, ast.Raise):
            raise PyRaise(P.src(st.exc.func) if isinstance(st.exc, ast.Call) else 'Exception', P.src(st))
        return


def check_fixpoint(rule, construct, file, rows, base, reader, method, node_vars, want_class, py, wmod, extra_locals=None,
                   fixed=None, max_cases=5000, opaque_attrs=(), reader_atoms=None, thorough=False):
    """enumerate valuations; report the first few that break W(R(W(m))) == W(m)"""
    wenv = Env(py, wmod)
    uses = model_atoms(rows, base)
    atoms = sorted(uses)
    doms = []
    mandatory = set()
    for r in rows:
        if not r.guards and r.value in uses:
            mandatory.add(r.value)
    for a in atoms:
        if fixed and a in fixed:
            doms.append([fixed[a]])
        else:
            d = domain_of(uses[a], wenv)
            if a in mandatory:
                d = [x for x in d if x is not None] or ['v']
            doms.append(d)
    interp = Interp(py, reader.interp.assume)
    init = py.func('ast', '%s.__init__' % want_class, required=False)
    # interaction groups: atoms that occur together in some row are enumerated jointly, groups independently
    parent = dict((a, a) for a in atoms)

    def find(x):
        while parent[x] != x:
            parent[x] = parent[parent[x]]
            x = parent[x]
        return x
    for r in rows:
        text = ' '.join([t for t, pol in r.guards] + [r.value])
        present = [a for a in atoms if a in text]
        for a in present[1:]:
            parent[find(a)] = find(present[0])
    groups = {}
    for a in atoms:
        groups.setdefault(find(a), []).append(a)
    dom = dict(zip(atoms, doms))
    default = dict((a, dom[a][0]) for a in atoms)
    for a in atoms:      # prefer an "absent-like" default
        for cand in (None, False):
            if cand in dom[a]:
                default[a] = cand
                break
    valuations = []
    for g in groups.values():
        sub = [dom[a] for a in g]
        cnt = 1
        for d in sub:
            cnt *= len(d)
        if cnt > max_cases:
            raise AnalysisError('%s: group %s has %d valuations (bound %d)' % (construct, g, cnt, max_cases))
        for combo in itertools.product(*sub):
            v = dict(default)
            v.update(zip(g, combo))
            valuations.append(v)
    if thorough:
        # pairwise interaction coverage across groups: every pair of model attributes jointly over their domains
        for i, a in enumerate(atoms):
            for b in atoms[i + 1:]:
                if find(a) == find(b):
                    continue
                for va in dom[a]:
                    for vb in dom[b]:
                        v = dict(default)
                        v[a] = va
                        v[b] = vb
                        valuations.append(v)
    bad = []
    n = 0
    crashes = []
    seen_v = set()
    for val in valuations:
        key = tuple(sorted((k, repr(v)) for k, v in val.items()))
        if key in seen_v:
            continue
        seen_v.add(key)
        n += 1
        # pass the valuation through the model class's own constructor so that only realisable models are tried
        if init is not None:
            obj0 = absint.Obj(want_class)
            bv = {}
            for prm in P.param_defaults(init):
                a = '%s.%s' % (base, prm)
                if a in val:
                    bv[prm] = val[a]
            try:
                interp.run_init('ast', want_class, init, {}, Env(py, py.mod('ast')), obj0, bound_values=bv)
            except (Unknown, PyRaise) as ex:
                raise AnalysisError('%s: cannot normalise valuation through ast.%s.__init__: %s' % (construct, want_class, ex))
            val = dict(val)
            for a in atoms:
                attr = a[len(base) + 1:]
                if '.' not in attr and attr in obj0.attrs and ('%s.%s' % (base, attr)) and attr in bv:
                    if not isinstance(obj0.attrs[attr], Opaque):
                        val[a] = obj0.attrs[attr]
        w1 = write(rows, val, wenv)
        attrib = {}
        for k, v in w1:
            ck = clark(k)
            if ck not in attrib:
                attrib[ck] = 'opaque-string' if isinstance(v, Opaque) else str(v)
        try:
            obj = reader.run(method, attrib, node_vars, want_class, extra_locals, reader_atoms)
        except PyRaise as e:
            crashes.append((val, attrib, str(e)))
            continue
        atoms2 = {}
        for a in atoms:
            attr = a[len(base) + 1:]
            if '.' in attr:
                atoms2[a] = val[a]      # nested objects (type of the parameter, ...) are out of scope here
                continue
            if attr in opaque_attrs:
                atoms2[a] = val[a]
            elif attr in obj.attrs:
                atoms2[a] = obj.attrs[attr]
            else:
                atoms2[a] = None
        w2 = write(rows, atoms2, wenv)
        ok, why = attr_maps_equal(w1, w2)
        if not ok:
            bad.append((val, w1, w2, why))
    return n, atoms, bad, crashes
