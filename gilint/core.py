"""Runner core: rule bookkeeping, findings, evidence, known findings, exit codes.

Exit codes: 0 = all armed rules held; 1 = VIOLATION; 2 = ANALYSIS-ERROR (anchor missing,
unrecognised shape, floor not met).  Nothing from the analysed tree is imported or run.
"""
import hashlib
import json
import os
import sys
import time

VERIF = os.path.dirname(os.path.dirname(os.path.abspath(__file__)))


class AnalysisError(Exception):
    """The analysed code does not have a shape the extractor understands."""


class Finding(object):
    def __init__(self, rule, construct, file, line, message):
        self.rule = rule
        self.construct = construct
        self.file = file
        self.line = line
        self.message = message

    def as_dict(self):
        return dict(rule=self.rule, construct=self.construct, file=self.file,
                    line=self.line, message=self.message)

    def __str__(self):
        return '%s:%s: [%s] %s: %s' % (self.file, self.line, self.rule, self.construct, self.message)


class Rule(object):
    def __init__(self, ctx, rid, title, floor):
        self.ctx = ctx
        self.id = rid
        self.title = title
        self.floor = floor
        self.instances = 0
        self.failed = 0
        self.samples = []
        self.exhaustive = False

    def ok(self, construct, file=None, line=None, detail=None):
        self.instances += 1
        if len(self.samples) < 4:
            s = {'construct': construct}
            if file:
                s['at'] = '%s:%s' % (file, line)
            if detail is not None:
                s['facts'] = detail
            self.samples.append(s)

    def fail(self, construct, file, line, message):
        self.instances += 1
        self.failed += 1
        self.ctx.findings.append(Finding(self.id, construct, file, line, message))

    def check(self, cond, construct, file, line, message, detail=None):
        if cond:
            self.ok(construct, file, line, detail)
        else:
            self.fail(construct, file, line, message)
        return cond


class Context(object):
    def __init__(self, prop, root, tier):
        self.prop = prop
        self.root = root
        self.tier = tier
        self.rules = []
        self.findings = []
        self.files = {}
        self.assumptions = []
        self.notes = []
        self.extra = {}
        self._py = None
        self._c = None

    # -- front ends (lazy)
    @property
    def py(self):
        if self._py is None:
            from . import pyfront
            self._py = pyfront.PyTree(self)
        return self._py

    @property
    def c(self):
        if self._c is None:
            from . import cfront
            self._c = cfront.CTree(self)
        return self._c

    def path(self, rel):
        p = os.path.join(self.root, rel)
        if not os.path.exists(p):
            raise AnalysisError('anchor file missing: %s' % rel)
        return p

    def read(self, rel):
        p = self.path(rel)
        with open(p, 'rb') as f:
            data = f.read()
        self.files[rel] = hashlib.sha256(data).hexdigest()[:16]
        return data.decode('utf-8')

    def rule(self, rid, title, floor=1):
        r = Rule(self, '%s.%s' % (self.prop, rid), title, floor)
        self.rules.append(r)
        return r

    def assume(self, text):
        if text not in self.assumptions:
            self.assumptions.append(text)


def load_known():
    p = os.path.join(VERIF, 'known_findings.json')
    if not os.path.exists(p):
        return []
    with open(p) as f:
        return json.load(f).get('findings', [])


def analyse(prop, module, root, tier):
    """run the rules of one property on the tree at `root`; returns (ctx, status, error text)"""
    ctx = Context(prop, root, tier)
    status = 0
    err = None
    budget = int(os.environ.get('GILINT_TIME_BUDGET', '1500'))

    def _over(signum, frame):
        raise AnalysisError('analysis time budget of %d s exceeded (summaries of the changed code grew beyond what the engine handles)' % budget)
    try:
        import signal
        old_h = signal.signal(signal.SIGALRM, _over)
        signal.setitimer(signal.ITIMER_REAL, budget, 0.5)      # re-raised every 0.5 s until it propagates (broad handlers may swallow one)
    except (ValueError, AttributeError, ImportError):
        old_h = None
    try:
        try:
            module.check(ctx)
        finally:
            if old_h is not None:
                signal.setitimer(signal.ITIMER_REAL, 0)
                signal.signal(signal.SIGALRM, old_h)
        for r in ctx.rules:
            if r.instances < r.floor and not r.failed:
                raise AnalysisError('rule %s (%s) matched %d instance(s), floor is %d: the extractor '
                                    'no longer recognises the code it was confirmed on'
                                    % (r.id, r.title, r.instances, r.floor))
    except AnalysisError as e:
        err = str(e)
        status = 2
    except Exception as e:  # a traceback must never look like a violation
        import traceback
        err = 'internal error: %r\n%s' % (e, traceback.format_exc())
        status = 2
    return ctx, status, err


def run_property(prop, module, root, tier, seed):
    t0 = time.time()
    ctx, status, err = analyse(prop, module, root, tier)

    known = [k for k in load_known() if k.get('property') == prop and k.get('status', 'known') == 'known']
    new, listed = [], []
    for f in ctx.findings:
        hit = [k for k in known if k.get('rule') == f.rule and k.get('construct') == f.construct]
        (listed if hit else new).append(f)

    for f in listed:
        print('KNOWN-FINDING: property=%s %s' % (prop, f))
    if status == 2:
        print('ANALYSIS-ERROR property=%s %s' % (prop, err))
    replay = None
    if new:
        status = 1      # a concrete finding outranks "part of the code was not recognised"
    evdir = os.environ.get('GILINT_EVIDENCE_DIR') or os.path.join(VERIF, 'evidence')
    if new:
        os.makedirs(os.path.join(evdir, 'replay'), exist_ok=True)
        replay = os.path.join(evdir, 'replay', '%s.json' % prop)
        with open(replay, 'w') as fh:
            json.dump({'property': prop, 'root': root, 'tier': tier,
                       'rerun': '/venv/bin/python -m gilint %s --tier %s --root %s' % (prop, tier, root),
                       'findings': [f.as_dict() for f in new]}, fh, indent=1)
        for f in new:
            print('FINDING %s' % f)
        if status == 1:
            print('VIOLATION property=%s replay=%s' % (prop, replay))

    obligations = sum(r.instances for r in ctx.rules)
    failed = sum(r.failed for r in ctx.rules)
    constructs = set()
    samples = []
    for r in ctx.rules:
        for s in r.samples:
            constructs.add((r.id, s['construct']))
        samples.extend(dict(rule=r.id, **s) for s in r.samples[:2])
    ev = {
        'property_id': prop,
        'tier': tier,
        'seed': seed,
        'level': 'other',
        'coverage': {
            'explanation': getattr(module, 'EXPLANATION', '') + ' Rules armed: ' +
                           '; '.join('%s %s' % (r.id, r.title) for r in ctx.rules),
            'obligations': obligations,
            'discharged': obligations - failed,
            'evaluations': max(obligations, 0),
            'distinct_nontrivial': obligations,
            'rule': 'one obligation = one rule instance (a call site, table row, path, abstract '
                    'valuation or field) extracted from the current source of %s; every instance is '
                    'keyed by rule + semantic construct and counted once' % root,
            'rules': [dict(id=r.id, title=r.title, instances=r.instances, floor=r.floor,
                           failed=r.failed, exhaustive=r.exhaustive) for r in ctx.rules],
            'samples': samples or [{'note': 'no instance extracted'}],
            'files_analysed': ctx.files,
            'known_findings_reported': [f.as_dict() for f in listed],
            'analysis_error': err,
            'notes': ctx.notes,
        },
        'assumptions': ctx.assumptions + [
            'static analysis only: verdicts are about the shape of the source, see DESIGN.md §4 '
            '"Not decided" for the clauses of this property that are not claimed',
        ],
        'wall_s': round(time.time() - t0, 3),
        'violations': len(new),
    }
    ev['coverage'].update(ctx.extra)
    if tier == 'thorough' and os.path.abspath(root) == '/repo':
        try:
            from . import selftest
            ev['coverage']['selftest'] = selftest.run(prop, module)
        except Exception as e:      # informational only: never changes the verdict
            ev['coverage']['selftest'] = {'error': repr(e)}
    os.makedirs(evdir, exist_ok=True)
    with open(os.path.join(evdir, '%s.json' % prop), 'w') as fh:
        json.dump(ev, fh, indent=1, sort_keys=True)
    print('%s tier=%s root=%s rules=%d obligations=%d failed=%d known=%d wall=%.2fs exit=%d'
          % (prop, tier, root, len(ctx.rules), obligations, failed, len(listed), time.time() - t0, status))
    for r in ctx.rules:
        print('  %-10s %-60s instances=%d floor=%d failed=%d' % (r.id, r.title[:60], r.instances, r.floor, r.failed))
    return status
