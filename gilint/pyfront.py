"""E-py: Python front end over giscanner/*.py using only the stdlib `ast`.

Nothing is imported from the analysed tree.  Provides: module/class/function lookup with
inheritance, a constant folder for module-level names (across `from .x import Y` and
`from . import ast`), guard chains (control dependence incl. early exits), and small helpers.
"""
import ast
import os

from .core import AnalysisError


class Unfoldable(Exception):
    pass


EXIT_TYPES = (ast.Return, ast.Raise, ast.Continue, ast.Break)
NORETURN_CALLS = ('message.fatal', 'sys.exit', 'fatal', 'message.fatal')


def dotted(node):
    """a.b.c -> 'a.b.c' ; anything else -> None"""
    parts = []
    while isinstance(node, ast.Attribute):
        parts.append(node.attr)
        node = node.value
    if isinstance(node, ast.Name):
        parts.append(node.id)
        return '.'.join(reversed(parts))
    return None


def call_name(node):
    if isinstance(node, ast.Call):
        return dotted(node.func)
    return None


def src(node):
    try:
        return ast.unparse(node)
    except Exception:
        return '<?>'


def always_exits(block):
    """True if control cannot fall off the end of this statement list."""
    if not block:
        return False
    last = block[-1]
    if isinstance(last, EXIT_TYPES):
        return True
    if isinstance(last, ast.Expr) and call_name(last.value) in NORETURN_CALLS:
        return True
    if isinstance(last, ast.If):
        return bool(last.orelse) and always_exits(last.body) and always_exits(last.orelse)
    if isinstance(last, ast.Try):
        if last.finalbody and always_exits(last.finalbody):
            return True
        body_exits = always_exits(last.body + last.orelse) if last.orelse else always_exits(last.body)
        return body_exits and all(always_exits(h.body) for h in last.handlers)
    if isinstance(last, ast.With):
        return always_exits(last.body)
    return False


BLOCK_FIELDS = ('body', 'orelse', 'finalbody')


class Module(object):
    def __init__(self, rel, text):
        self.rel = rel
        self.text = text
        try:
            self.tree = ast.parse(text, rel)
        except SyntaxError as e:
            raise AnalysisError('%s does not parse: %s' % (rel, e))
        for parent in ast.walk(self.tree):
            for child in ast.iter_child_nodes(parent):
                child._parent = parent
        self.tree._parent = None
        self.classes = {}
        self.functions = {}
        self.assigns = {}      # module-level name -> list of value nodes
        self.imports = {}      # local name -> (module rel name, remote name or None)
        for st in self.tree.body:
            self._index(st)

    def _index(self, st):
        if isinstance(st, ast.ClassDef):
            self.classes[st.name] = st
        elif isinstance(st, (ast.FunctionDef, ast.AsyncFunctionDef)):
            self.functions[st.name] = st
        elif isinstance(st, ast.Assign):
            for t in st.targets:
                if isinstance(t, ast.Name):
                    self.assigns.setdefault(t.id, []).append(st.value)
                elif isinstance(t, ast.Tuple) and isinstance(st.value, ast.Tuple) and len(t.elts) == len(st.value.elts):
                    for a, b in zip(t.elts, st.value.elts):
                        if isinstance(a, ast.Name):
                            self.assigns.setdefault(a.id, []).append(b)
        elif isinstance(st, ast.AnnAssign) and isinstance(st.target, ast.Name) and st.value is not None:
            self.assigns.setdefault(st.target.id, []).append(st.value)
        elif isinstance(st, ast.ImportFrom):
            for a in st.names:
                local = a.asname or a.name
                if st.level >= 1 and not st.module:
                    self.imports[local] = (a.name, None)          # from . import ast
                elif st.level >= 1:
                    self.imports[local] = (st.module, a.name)      # from .x import Y
                else:
                    self.imports[local] = ('ext:' + (st.module or ''), a.name)
        elif isinstance(st, ast.Import):
            for a in st.names:
                self.imports[a.asname or a.name.split('.')[0]] = ('ext:' + a.name, None)
        elif isinstance(st, (ast.If, ast.Try)):
            for f in BLOCK_FIELDS:
                for s in getattr(st, f, []):
                    self._index(s)
            for h in getattr(st, 'handlers', []):
                for s in h.body:
                    self._index(s)


class PyTree(object):
    PKG = 'giscanner'

    def __init__(self, ctx):
        self.ctx = ctx
        self.mods = {}

    def mod(self, name):
        """name: 'annotationparser' or 'giscanner/annotationparser.py'"""
        if name.endswith('.py'):
            rel = name
        else:
            rel = '%s/%s.py' % (self.PKG, name)
        if rel not in self.mods:
            self.mods[rel] = Module(rel, self.ctx.read(rel))
        return self.mods[rel]

    def all_modules(self):
        d = os.path.join(self.ctx.root, self.PKG)
        if not os.path.isdir(d):
            raise AnalysisError('missing package directory %s' % self.PKG)
        out = []
        for fn in sorted(os.listdir(d)):
            if fn.endswith('.py'):
                out.append(self.mod(fn[:-3]))
        return out

    # ---- lookup
    def cls(self, modname, cname):
        m = self.mod(modname)
        if cname not in m.classes:
            raise AnalysisError('anchor class %s missing in %s' % (cname, m.rel))
        return m.classes[cname]

    def bases(self, modname, cname):
        """class and its bases resolvable in the same module or imported siblings (MRO-ish, left to right)."""
        m = self.mod(modname)
        out = []
        seen = set()

        def visit(mm, name):
            if (mm.rel, name) in seen or name not in mm.classes:
                return
            seen.add((mm.rel, name))
            c = mm.classes[name]
            out.append((mm, c))
            for b in c.bases:
                if isinstance(b, ast.Name):
                    if b.id in mm.classes:
                        visit(mm, b.id)
                    elif b.id in mm.imports and not mm.imports[b.id][0].startswith('ext:'):
                        tgt, remote = mm.imports[b.id]
                        visit(self.mod(tgt), remote or b.id)
                elif isinstance(b, ast.Attribute) and isinstance(b.value, ast.Name):
                    al = b.value.id
                    if al in mm.imports and mm.imports[al][1] is None and not mm.imports[al][0].startswith('ext:'):
                        visit(self.mod(mm.imports[al][0]), b.attr)
        visit(m, cname)
        return out

    def func(self, modname, qual, required=True):
        """qual: 'f' or 'Class.method' (method looked up through bases)."""
        m = self.mod(modname)
        if '.' in qual:
            cname, meth = qual.split('.', 1)
            if cname not in m.classes:
                if required:
                    raise AnalysisError('anchor class %s missing in %s' % (cname, m.rel))
                return None
            for mm, c in self.bases(modname, cname):
                for st in c.body:
                    if isinstance(st, (ast.FunctionDef, ast.AsyncFunctionDef)) and st.name == meth:
                        st._module = mm
                        return st
        else:
            if qual in m.functions:
                m.functions[qual]._module = m
                return m.functions[qual]
        if required:
            raise AnalysisError('anchor function %s missing in %s' % (qual, m.rel))
        return None

    def methods(self, modname, cname):
        out = {}
        for mm, c in reversed(self.bases(modname, cname)):
            for st in c.body:
                if isinstance(st, (ast.FunctionDef, ast.AsyncFunctionDef)):
                    st._module = mm
                    out[st.name] = st
        return out

    def class_attr(self, modname, cname, attr):
        """value node of a class-level assignment `attr = ...` (through bases)"""
        for mm, c in self.bases(modname, cname):
            for st in c.body:
                if isinstance(st, ast.Assign):
                    for t in st.targets:
                        if isinstance(t, ast.Name) and t.id == attr:
                            return mm, st.value
        raise AnalysisError('class attribute %s.%s missing in %s' % (cname, attr, modname))

    # ---- constant folding
    def fold(self, node, mod, env=None, depth=0):
        """Fold an expression to a Python value using module-level constants. Raises Unfoldable."""
        if depth > 40:
            raise Unfoldable('depth')
        env = env or {}
        f = lambda n: self.fold(n, mod, env, depth + 1)
        if isinstance(node, ast.Constant):
            return node.value
        if isinstance(node, ast.Name):
            if node.id in env:
                return env[node.id]
            if node.id in ('True', 'False', 'None'):
                return {'True': True, 'False': False, 'None': None}[node.id]
            return self.fold_name(mod, node.id, depth)
        if isinstance(node, ast.Attribute):
            d = dotted(node)
            if d and isinstance(node.value, ast.Name) and node.value.id in mod.imports:
                tgt, remote = mod.imports[node.value.id]
                if remote is None and not tgt.startswith('ext:'):
                    return self.fold_name(self.mod(tgt), node.attr, depth)
            if d in ('re.UNICODE', 're.VERBOSE', 're.MULTILINE', 're.IGNORECASE', 're.DOTALL', 're.ASCII'):
                import re
                return getattr(re, node.attr)
            raise Unfoldable(src(node))
        if isinstance(node, (ast.Tuple, ast.List)):
            vals = []
            for e in node.elts:
                if isinstance(e, ast.Starred):
                    vals.extend(f(e.value))
                else:
                    vals.append(f(e))
            return tuple(vals) if isinstance(node, ast.Tuple) else vals
        if isinstance(node, ast.Set):
            return set(f(e) for e in node.elts)
        if isinstance(node, ast.Dict):
            return dict((f(k), f(v)) for k, v in zip(node.keys, node.values))
        if isinstance(node, ast.BinOp):
            a, b = f(node.left), f(node.right)
            try:
                if isinstance(node.op, ast.Add):
                    return a + b
                if isinstance(node.op, ast.Mod):
                    return a % b
                if isinstance(node.op, ast.BitOr):
                    return a | b
                if isinstance(node.op, ast.Mult):
                    return a * b
                if isinstance(node.op, ast.Pow):
                    return a ** b
                if isinstance(node.op, ast.Sub):
                    return a - b
                if isinstance(node.op, ast.LShift):
                    return a << b
            except Exception as e:
                raise Unfoldable(str(e))
            raise Unfoldable(src(node))
        if isinstance(node, ast.UnaryOp) and isinstance(node.op, ast.USub):
            return -f(node.operand)
        if isinstance(node, ast.JoinedStr):
            out = ''
            for v in node.values:
                if isinstance(v, ast.Constant):
                    out += v.value
                elif isinstance(v, ast.FormattedValue) and v.format_spec is None and v.conversion == -1:
                    out += str(f(v.value))
                else:
                    raise Unfoldable(src(node))
            return out
        if isinstance(node, ast.Call):
            fn = node.func
            if isinstance(fn, ast.Attribute):
                if fn.attr == 'join' and len(node.args) == 1:
                    return f(fn.value).join(f(node.args[0]))
                if fn.attr == 'replace' and len(node.args) == 2:
                    return f(fn.value).replace(f(node.args[0]), f(node.args[1]))
                if fn.attr in ('lower', 'upper', 'strip') and not node.args:
                    return getattr(f(fn.value), fn.attr)()
                if fn.attr == 'split' and len(node.args) <= 1:
                    return f(fn.value).split(*[f(a) for a in node.args])
                if fn.attr == 'keys' and not node.args:
                    return list(f(fn.value).keys())
                if dotted(fn) == 'str.maketrans' and len(node.args) in (1, 2) and not node.keywords:
                    try:
                        return str.maketrans(*[f(a) for a in node.args])
                    except Unfoldable:
                        raise
                    except Exception as e:
                        raise Unfoldable(str(e))
                if dotted(fn) == 're.escape' and len(node.args) == 1:
                    import re
                    return re.escape(f(node.args[0]))
            if isinstance(fn, ast.Name):
                if fn.id in ('list', 'tuple', 'set', 'frozenset', 'sorted', 'len', 'str', 'dict') and len(node.args) <= 1 and not node.keywords:
                    args = [f(a) for a in node.args]
                    return {'list': list, 'tuple': tuple, 'set': set, 'frozenset': frozenset,
                            'sorted': sorted, 'len': len, 'str': str, 'dict': dict}[fn.id](*args)
                # single-return helper functions of the module, e.g. _corens('doc')
                if fn.id in mod.functions:
                    fd = mod.functions[fn.id]
                    body = [s for s in fd.body if not (isinstance(s, ast.Expr) and isinstance(s.value, ast.Constant))]
                    if len(body) == 1 and isinstance(body[0], ast.Return) and not node.keywords \
                            and len(fd.args.args) == len(node.args):
                        e2 = dict(env)
                        for a, v in zip(fd.args.args, node.args):
                            e2[a.arg] = f(v)
                        return self.fold(body[0].value, mod, e2, depth + 1)
            raise Unfoldable(src(node))
        if isinstance(node, ast.ListComp) and len(node.generators) == 1:
            g = node.generators[0]
            if isinstance(g.target, ast.Name):
                out = []
                for v in f(g.iter):
                    e2 = dict(env)
                    e2[g.target.id] = v
                    if all(self.fold(c, mod, e2, depth + 1) for c in g.ifs):
                        out.append(self.fold(node.elt, mod, e2, depth + 1))
                return out
        if isinstance(node, ast.Compare) and len(node.ops) == 1:
            a, b = f(node.left), f(node.comparators[0])
            op = node.ops[0]
            if isinstance(op, ast.In):
                return a in b
            if isinstance(op, ast.NotIn):
                return a not in b
            if isinstance(op, ast.Eq):
                return a == b
            if isinstance(op, ast.NotEq):
                return a != b
        if isinstance(node, ast.BoolOp):
            vals = [f(v) for v in node.values]
            return all(vals) if isinstance(node.op, ast.And) else any(vals)
        if isinstance(node, ast.UnaryOp) and isinstance(node.op, ast.Not):
            return not f(node.operand)
        if isinstance(node, ast.Subscript):
            try:
                return f(node.value)[f(node.slice)]
            except Unfoldable:
                raise
            except Exception as e:
                raise Unfoldable(str(e))
        raise Unfoldable(src(node))

    def fold_name(self, mod, name, depth=0):
        if name in mod.assigns:
            vals = mod.assigns[name]
            if len(vals) != 1:
                # several assignments: accept if they all fold to the same value
                got = [self.fold(v, mod, None, depth + 1) for v in vals]
                if all(g == got[0] for g in got):
                    return got[0]
                raise Unfoldable('%s assigned %d times' % (name, len(vals)))
            return self.fold(vals[0], mod, None, depth + 1)
        if name in mod.imports:
            tgt, remote = mod.imports[name]
            if not tgt.startswith('ext:') and remote is not None:
                return self.fold_name(self.mod(tgt), remote, depth + 1)
        raise Unfoldable(name)

    def try_fold(self, node, mod, default=None):
        try:
            return self.fold(node, mod)
        except Unfoldable:
            return default

    def const_name(self, node, mod):
        """symbolic constant name of an expression: 'ANN_SKIP', 'ast.PARAM_DIRECTION_OUT' -> bare name"""
        if isinstance(node, ast.Name):
            return node.id
        if isinstance(node, ast.Attribute):
            return node.attr
        return None


# ---------------------------------------------------------------- structure helpers

def parent(node):
    return getattr(node, '_parent', None)


def enclosing_function(node):
    n = parent(node)
    while n is not None and not isinstance(n, (ast.FunctionDef, ast.AsyncFunctionDef, ast.Lambda)):
        n = parent(n)
    return n


def enclosing_class(node):
    n = parent(node)
    while n is not None and not isinstance(n, ast.ClassDef):
        n = parent(n)
    return n


def enclosing_stmt(node):
    while node is not None and not isinstance(node, ast.stmt):
        node = parent(node)
    return node


def block_of(stmt):
    """(parent node, field name, list, index) of the statement list containing stmt"""
    p = parent(stmt)
    if p is None:
        return None
    for f in BLOCK_FIELDS:
        lst = getattr(p, f, None)
        if isinstance(lst, list):
            for i, s in enumerate(lst):
                if s is stmt:
                    return p, f, lst, i
    if isinstance(p, ast.ExceptHandler):
        for i, s in enumerate(p.body):
            if s is stmt:
                return p, 'body', p.body, i
    if isinstance(p, ast.Try):
        for h in p.handlers:
            if h is stmt:
                return p, 'handlers', p.handlers, p.handlers.index(h)
    return None


class Guard(object):
    """One control-dependence fact: `test` evaluated to `polarity` (kind 'if'), or loop/handler context."""
    def __init__(self, kind, test, polarity, origin):
        self.kind = kind          # 'if' | 'while' | 'for' | 'except' | 'early'
        self.test = test          # ast expr (or None)
        self.polarity = polarity
        self.origin = origin      # the statement introducing it

    def text(self):
        t = src(self.test) if self.test is not None else ''
        if self.kind == 'for':
            return 'for ' + t
        if self.kind == 'except':
            return 'except ' + t
        return t if self.polarity else 'not (%s)' % t

    def __repr__(self):
        return '<%s %s>' % (self.kind, self.text())


def guards(node, stop=None):
    """Control-dependence chain of `node` inside its function: enclosing if/while tests with
    polarity plus negated tests of earlier siblings that always leave (return/raise/continue/break)."""
    out = []
    st = enclosing_stmt(node)
    # conditional expressions / boolean short-circuit inside the statement itself
    n = node
    while n is not st and n is not None:
        p = parent(n)
        if isinstance(p, ast.IfExp):
            if n is p.body:
                out.append(Guard('if', p.test, True, p))
            elif n is p.orelse:
                out.append(Guard('if', p.test, False, p))
        elif isinstance(p, ast.BoolOp) and n in p.values:
            idx = p.values.index(n)
            for prev in p.values[:idx]:
                out.append(Guard('if', prev, isinstance(p.op, ast.And), p))
        n = p
    while st is not None and not isinstance(st, (ast.FunctionDef, ast.AsyncFunctionDef, ast.ClassDef, ast.Module)):
        if st is stop:
            break
        b = block_of(st)
        if b is None:
            break
        p, field, lst, idx = b
        for prev in lst[:idx]:
            if isinstance(prev, ast.If):
                be, oe = always_exits(prev.body), always_exits(prev.orelse)
                if be and not oe:
                    out.append(Guard('early', prev.test, False, prev))
                elif oe and not be:
                    out.append(Guard('early', prev.test, True, prev))
        if isinstance(p, ast.If):
            out.append(Guard('if', p.test, field == 'body', p))
        elif isinstance(p, ast.While):
            if field == 'body':
                out.append(Guard('while', p.test, True, p))
        elif isinstance(p, (ast.For, ast.AsyncFor)):
            if field == 'body':
                out.append(Guard('for', p.iter, True, p))
        elif isinstance(p, ast.ExceptHandler):
            out.append(Guard('except', p.type, True, p))
        st = p if isinstance(p, ast.stmt) else parent(p)
    out.reverse()
    return out


def guard_texts(node):
    return [g.text() for g in guards(node)]


def walk_no_nested(func):
    """Walk nodes of a function body, not descending into nested function/class definitions."""
    stack = list(func.body)
    while stack:
        n = stack.pop()
        yield n
        for c in ast.iter_child_nodes(n):
            if isinstance(c, (ast.FunctionDef, ast.AsyncFunctionDef, ast.ClassDef, ast.Lambda)):
                continue
            stack.append(c)


def calls_in(func, name=None):
    out = []
    for n in walk_no_nested(func):
        if isinstance(n, ast.Call) and (name is None or call_name(n) == name):
            out.append(n)
    out.sort(key=lambda n: (n.lineno, n.col_offset))
    return out


def stores_in(func):
    """(target node, value node, stmt) for every assignment in func (attribute, name, subscript)."""
    out = []
    for n in walk_no_nested(func):
        if isinstance(n, ast.Assign):
            for t in n.targets:
                if isinstance(t, ast.Tuple) and isinstance(n.value, ast.Tuple) and len(t.elts) == len(n.value.elts):
                    for a, b in zip(t.elts, n.value.elts):
                        out.append((a, b, n))
                else:
                    out.append((t, n.value, n))
        elif isinstance(n, ast.AugAssign):
            out.append((n.target, n.value, n))
        elif isinstance(n, ast.AnnAssign) and n.value is not None:
            out.append((n.target, n.value, n))
    out.sort(key=lambda x: (x[2].lineno, x[2].col_offset))
    return out


def local_defs(func):
    """name -> list of value nodes assigned to that local name anywhere in func"""
    d = {}
    for t, v, st in stores_in(func):
        if isinstance(t, ast.Name):
            d.setdefault(t.id, []).append(v)
    for n in walk_no_nested(func):
        if isinstance(n, (ast.For, ast.comprehension)):
            for nm in ast.walk(n.target):
                if isinstance(nm, ast.Name):
                    d.setdefault(nm.id, []).append(None)
        elif isinstance(n, ast.With):
            for it in n.items:
                if it.optional_vars is not None:
                    for nm in ast.walk(it.optional_vars):
                        if isinstance(nm, ast.Name):
                            d.setdefault(nm.id, []).append(None)
    return d


def expand_locals(expr, func, depth=3):
    """Copy-propagate single-assignment locals into expr (returns source text)."""
    defs = local_defs(func)

    class T(ast.NodeTransformer):
        def visit_Name(self, n):
            if isinstance(n.ctx, ast.Load) and n.id in defs and len(defs[n.id]) == 1 and defs[n.id][0] is not None:
                return defs[n.id][0]
            return n
    from .wattr import clone
    e = clone(expr)
    for _ in range(depth):
        e = T().visit(e)
    return src(e)


def names_in(node):
    return set(n.id for n in ast.walk(node) if isinstance(n, ast.Name))


def attr_names_in(node):
    return set(n.attr for n in ast.walk(node) if isinstance(n, ast.Attribute))


def reachable_after(stmt_a, stmt_b):
    """Conservative structured reachability: can control flow from the end of stmt_a reach stmt_b
    inside the same function?  True unless an unconditional exit lies between them on every route.
    Works on the structured tree: b is reachable from a if b follows a in some common ancestor block
    (and no always-exiting statement sits between), or both are in a common loop body."""
    # chain of (block list, index) for a
    def chain(st):
        out = []
        while st is not None and not isinstance(st, (ast.FunctionDef, ast.AsyncFunctionDef)):
            b = block_of(st)
            if b is None:
                break
            out.append((b[0], b[1], b[2], b[3], st))
            st = b[0] if isinstance(b[0], ast.stmt) else parent(b[0])
        return out
    ca, cb = chain(stmt_a), chain(stmt_b)
    in_loop = False
    # climb a: at each level, is control able to fall off the end of the current sub-block?
    for (pa, fa, la, ia, sa) in ca:
        # statements after sa in this block, until one that always exits
        for j in range(ia + 1, len(la)):
            s = la[j]
            if any(s is x[4] for x in cb):
                # b is inside s (or is s)
                # make sure b is not in the branch excluded ... conservative: reachable
                return True
            if always_exits([s]):
                break
        else:
            # fell off the end of this block: continue climbing
            if isinstance(pa, (ast.For, ast.While, ast.AsyncFor)) and fa == 'body':
                # loop back edge: everything in the loop body is reachable again
                if any(x[0] is pa for x in cb):
                    return True
            continue
        # hit an always-exit statement: if it is continue/return etc. we stop, except loops
        last = la[j]
        if isinstance(last, ast.Continue) or (isinstance(last, ast.If)):
            # find enclosing loop of a; loop body restarts
            for (pp, ff, ll, ii, ss) in ca:
                if isinstance(pp, (ast.For, ast.While)) and ff == 'body' and any(x[0] is pp for x in cb):
                    return True
        return False
    return False


def bind_call(call, funcdef, skip_self=True):
    """Map a call's arguments to the callee's parameter names. Returns {param: arg node}."""
    params = [a.arg for a in funcdef.args.args]
    if skip_self and params and params[0] in ('self', 'cls'):
        params = params[1:]
    out = {}
    for i, a in enumerate(call.args):
        if isinstance(a, ast.Starred):
            break
        if i < len(params):
            out[params[i]] = a
    for k in call.keywords:
        if k.arg is not None:
            out[k.arg] = k.value
    return out


def param_defaults(funcdef, skip_self=True):
    """{param: default node or None}"""
    args = funcdef.args.args
    defaults = [None] * (len(args) - len(funcdef.args.defaults)) + list(funcdef.args.defaults)
    out = {}
    for a, d in zip(args, defaults):
        out[a.arg] = d
    for a, d in zip(funcdef.args.kwonlyargs, funcdef.args.kw_defaults):
        out[a.arg] = d
    if skip_self:
        out.pop('self', None)
    return out


def is_attr(node, base, attr):
    """node is `base.attr` with base a plain name"""
    return isinstance(node, ast.Attribute) and node.attr == attr and isinstance(node.value, ast.Name) and node.value.id == base


def is_attr_of_self(node):
    return isinstance(node, ast.Attribute) and isinstance(node.value, ast.Name) and node.value.id == 'self'


def find_all(root, typ, pred=None):
    out = [n for n in ast.walk(root) if isinstance(n, typ) and (pred is None or pred(n))]
    out.sort(key=lambda n: (getattr(n, 'lineno', 0), getattr(n, 'col_offset', 0)))
    return out


# ---------------------------------------------------------------- guarded-effect tables (E-get)

class Effect(object):
    """one attribute store or call inside a function together with its control-dependence chain"""
    def __init__(self, kind, target, value, stmt, node):
        self.kind = kind          # 'store' | 'call'
        self.target = target      # source text of the store target / called name
        self.value = value        # source text of the stored value / the call
        self.stmt = stmt
        self.node = node
        self.guards = guards(node)
        self.line = stmt.lineno

    def gtexts(self, kinds=('if', 'early')):
        return [g.text() for g in self.guards if g.kind in kinds]

    def under(self, substr, polarity=None):
        """is some guard mentioning `substr` on the chain (with the given polarity of the whole test)?"""
        for g in self.guards:
            if g.kind not in ('if', 'early', 'while'):
                continue
            if substr in src(g.test) and (polarity is None or g.polarity == polarity):
                return True
        return False

    def __repr__(self):
        return '<%s %s = %s if %s>' % (self.kind, self.target, self.value, ' and '.join(self.gtexts()))


def effects(func):
    out = []
    for t, v, st in stores_in(func):
        if isinstance(t, (ast.Attribute, ast.Subscript)):
            out.append(Effect('store', src(t), src(v), st, st))
    for c in calls_in(func):
        nm = call_name(c)
        if nm:
            out.append(Effect('call', nm, src(c), enclosing_stmt(c), c))
    out.sort(key=lambda e: (e.line, getattr(e.node, 'col_offset', 0)))
    return out


def reachable_methods(py, modname, cname, roots, depth=8):
    """methods of the class reachable from `roots` through self.<m>(...) calls"""
    methods = py.methods(modname, cname)
    seen = set()
    work = [r for r in roots if r in methods]
    while work:
        m = work.pop()
        if m in seen:
            continue
        seen.add(m)
        for c in calls_in(methods[m]):
            nm = call_name(c) or ''
            if nm.startswith('self.') and nm[5:] in methods and nm[5:] not in seen:
                work.append(nm[5:])
    return seen
