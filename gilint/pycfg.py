"""Statement-level control-flow graph for one Python function (structured statements only).

Nodes are ast statements (simple statements) and ast expressions used as branch tests
(if/while tests, for iterables, with items, except handlers). ENTRY/EXIT/RAISE are sentinels.
Exceptions: inside `try`, every statement of the body has an edge to every handler (and to
`finally`); outside try, `raise` goes to RAISE.  Calls are not assumed to raise elsewhere
(rules that need "may raise" reason about it explicitly).
"""
import ast

ENTRY, EXIT, RAISE = 'ENTRY', 'EXIT', 'RAISE'


class CFG(object):
    def __init__(self, func):
        self.func = func
        self.succ = {ENTRY: set(), EXIT: set(), RAISE: set()}
        self.nodes = [ENTRY, EXIT, RAISE]
        self.loop_stack = []
        self.try_stack = []   # (handler entry nodes list, finally entry or None)
        self.finally_returns = []
        outs = self.block(func.body, {ENTRY})
        for o in outs:
            self.edge(o, EXIT)
        self.pred = {}
        for a, bs in self.succ.items():
            for b in bs:
                self.pred.setdefault(b, set()).add(a)

    def add(self, n):
        if n not in self.succ:
            self.succ[n] = set()
            self.nodes.append(n)

    def edge(self, a, b):
        self.add(a)
        self.add(b)
        self.succ[a].add(b)

    def link(self, preds, n):
        self.add(n)
        for p in preds:
            self.edge(p, n)
        # exceptional edges: any node inside a try body may transfer to its handlers
        if self.try_stack:
            handlers, fin = self.try_stack[-1]
            for h in handlers:
                self.edge(n, h)
            if fin is not None and not handlers:
                self.edge(n, fin)

    def block(self, stmts, preds):
        for st in stmts:
            preds = self.stmt(st, preds)
        return preds

    def leave(self, node, target):
        """return/raise: run enclosing finally blocks first (approximated by routing through them)."""
        for handlers, fin in reversed(self.try_stack):
            if fin is not None:
                self.edge(node, fin)
                self.finally_returns.append((fin, target))
                return
        self.edge(node, target)

    def stmt(self, st, preds):
        if isinstance(st, ast.If):
            self.link(preds, st.test)
            b = self.block(st.body, {st.test})
            o = self.block(st.orelse, {st.test}) if st.orelse else {st.test}
            return b | o
        if isinstance(st, (ast.For, ast.AsyncFor)):
            self.link(preds, st.iter)
            self.loop_stack.append((st.iter, set()))
            b = self.block(st.body, {st.iter})
            head, breaks = self.loop_stack.pop()
            for x in b:
                self.edge(x, st.iter)
            o = self.block(st.orelse, {st.iter}) if st.orelse else {st.iter}
            return o | breaks
        if isinstance(st, ast.While):
            self.link(preds, st.test)
            self.loop_stack.append((st.test, set()))
            b = self.block(st.body, {st.test})
            head, breaks = self.loop_stack.pop()
            for x in b:
                self.edge(x, st.test)
            const_true = isinstance(st.test, ast.Constant) and bool(st.test.value)
            o = set() if const_true else (self.block(st.orelse, {st.test}) if st.orelse else {st.test})
            return o | breaks
        if isinstance(st, ast.Break):
            self.link(preds, st)
            if self.loop_stack:
                self.loop_stack[-1][1].add(st)
            return set()
        if isinstance(st, ast.Continue):
            self.link(preds, st)
            if self.loop_stack:
                self.edge(st, self.loop_stack[-1][0])
            return set()
        if isinstance(st, ast.Return):
            self.link(preds, st)
            self.leave(st, EXIT)
            return set()
        if isinstance(st, ast.Raise):
            self.link(preds, st)
            if self.try_stack and self.try_stack[-1][0]:
                pass  # link() already added edges to handlers
            else:
                self.leave(st, RAISE)
            return set()
        if isinstance(st, (ast.With, ast.AsyncWith)):
            cur = preds
            for it in st.items:
                self.link(cur, it.context_expr)
                cur = {it.context_expr}
            return self.block(st.body, cur)
        if isinstance(st, ast.Try):
            handler_entries = [h for h in st.handlers]
            fin_entry = st.finalbody[0] if st.finalbody else None
            for h in handler_entries:
                self.add(h)
            if fin_entry is not None:
                self.add(fin_entry)
            self.try_stack.append((handler_entries, fin_entry))
            b = self.block(st.body, preds)
            self.try_stack.pop()
            # else-block runs outside the handlers' protection but inside finally's
            self.try_stack.append(([], fin_entry))
            if st.orelse:
                b = self.block(st.orelse, b)
            outs = set(b)
            for h in st.handlers:
                outs |= self.block(h.body, {h})
            self.try_stack.pop()
            if st.finalbody:
                first = st.finalbody[0]
                f_out = self.stmt_chain(st.finalbody, outs)
                # pending return/raise that were routed through this finally
                for fin, target in list(self.finally_returns):
                    if fin is first:
                        self.finally_returns.remove((fin, target))
                        for x in f_out:
                            # continue leaving through outer finally blocks
                            self.leave_from_finally(x, target)
                return f_out
            return outs
        # simple statement
        self.link(preds, st)
        if isinstance(st, ast.Expr) and isinstance(st.value, ast.Call):
            from .pyfront import call_name, NORETURN_CALLS
            if call_name(st.value) in NORETURN_CALLS:
                self.leave(st, RAISE)
                return set()
        return {st}

    def stmt_chain(self, stmts, preds):
        return self.block(stmts, preds)

    def leave_from_finally(self, node, target):
        self.leave(node, target)

    # ------------------------------------------------------------- queries
    def reachable_from(self, start, avoiding=()):
        seen = set()
        stack = [start]
        avoid = set(avoiding)
        while stack:
            n = stack.pop()
            for s in self.succ.get(n, ()):
                if s in seen or s in avoid:
                    continue
                seen.add(s)
                stack.append(s)
        return seen

    def reaches(self, a, b, avoiding=()):
        return b in self.reachable_from(a, avoiding)

    def dominates(self, a, b):
        """every path ENTRY -> b passes through a"""
        if a is b:
            return True
        return b not in self.reachable_from(ENTRY, avoiding=[a]) and b in self.reachable_from(ENTRY)

    def node_of(self, node):
        """CFG node (statement or test expr) that contains the given ast node"""
        from .pyfront import parent
        n = node
        while n is not None:
            if n in self.succ:
                return n
            n = parent(n)
        return None

    def must_pass(self, src_node, dst_node, via_pred):
        """every path src -> dst passes a node satisfying via_pred"""
        via = [n for n in self.nodes if n not in (ENTRY, EXIT, RAISE) and via_pred(n)]
        return not self.reaches(src_node, dst_node, avoiding=via)


def def_nodes(cfg, var):
    """CFG nodes that (re)bind local name `var`: {node: value expr or None}"""
    out = {}
    for n in cfg.nodes:
        if n in (ENTRY, EXIT, RAISE):
            continue
        if isinstance(n, ast.Assign):
            for t in n.targets:
                for x in ast.walk(t):
                    if isinstance(x, ast.Name) and x.id == var and isinstance(x.ctx, ast.Store):
                        out[n] = n.value if (isinstance(t, ast.Name)) else None
        elif isinstance(n, (ast.AugAssign, ast.AnnAssign)):
            if isinstance(n.target, ast.Name) and n.target.id == var:
                out[n] = None
        elif isinstance(n, ast.ExceptHandler):
            if n.name == var:
                out[n] = None
        elif isinstance(n, ast.expr):
            # for-iterables and with-items: the binding happens "at" this node
            from .pyfront import parent
            p = parent(n)
            if isinstance(p, (ast.For, ast.AsyncFor)) and p.iter is n:
                if any(isinstance(x, ast.Name) and x.id == var for x in ast.walk(p.target)):
                    out[n] = None
            elif isinstance(p, ast.withitem) and p.optional_vars is not None:
                if any(isinstance(x, ast.Name) and x.id == var for x in ast.walk(p.optional_vars)):
                    out[n] = None
    return out


def reaching_defs(cfg, use, var, defs=None):
    """definitions of `var` that may reach the ast node `use` (a Name load); ENTRY in the result means
    'parameter / undefined on some path'"""
    defs = defs if defs is not None else def_nodes(cfg, var)
    start = cfg.node_of(use)
    if start is None:
        return set()
    seen = set()
    out = set()
    stack = list(cfg.pred.get(start, ()))
    while stack:
        n = stack.pop()
        if n in seen:
            continue
        seen.add(n)
        if n in defs:
            out.add(n)
            continue
        if n == ENTRY:
            out.add(ENTRY)
            continue
        stack.extend(cfg.pred.get(n, ()))
    return out
