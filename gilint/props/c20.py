"""C20 — the XML writer always produces well-formed, lossless XML."""
import ast

from ..core import AnalysisError
from .. import pyfront as P
from .. import pycfg, gsa, strfrag
import re

EXPLANATION = ('Static rules over giscanner/xmlwriter.py (and who-may-call over all of giscanner): escaping '
               'discipline as a taint rule (every attribute value reaches the output only through the stdlib '
               'quoteattr, every element text only through the stdlib escape, un-transformed), sibling '
               'None-skips, whitespace-only wrapping, exception-safe element stack, encoding agreement.')

SAX = 'ext:xml.sax.saxutils'


def uses_of(scope, name):
    """Name nodes (Load) of `name` below scope, not descending nested defs."""
    out = []
    stack = [scope]
    while stack:
        n = stack.pop()
        for c in ast.iter_child_nodes(n):
            if isinstance(c, (ast.FunctionDef, ast.Lambda, ast.ClassDef)):
                continue
            stack.append(c)
        if isinstance(n, ast.Name) and n.id == name and isinstance(n.ctx, ast.Load):
            out.append(n)
    out.sort(key=lambda n: (n.lineno, n.col_offset))
    return out


def classify_use(n):
    """Describe how a variable occurrence is used (by its parent expression)."""
    p = P.parent(n)
    if isinstance(p, ast.Compare) and len(p.ops) == 1 and isinstance(p.ops[0], (ast.Is, ast.IsNot)) \
            and isinstance(p.comparators[0], ast.Constant) and p.comparators[0].value is None:
        return 'none-test'
    if isinstance(p, ast.Call) and n in p.args:
        nm = P.call_name(p)
        if nm == 'isinstance':
            return 'isinstance'
        return 'arg:%s/%d/%d' % (nm, len(p.args), len(p.keywords))
    if isinstance(p, ast.Attribute) and p.value is n:
        pp = P.parent(p)
        if isinstance(pp, ast.Call) and pp.func is p:
            return 'method:%s' % p.attr
        return 'attr:%s' % p.attr
    if isinstance(p, ast.UnaryOp) and isinstance(p.op, ast.Not):
        return 'truth-test'
    if isinstance(p, (ast.If, ast.While, ast.IfExp)) and p.test is n:
        return 'truth-test'
    return 'other:%s' % type(p).__name__


def pair_scopes(f):
    """places where f walks one of its parameters as (name, value) pairs:
    [(kind, node, name var, value var, scope for uses)] for `for a, v in param:` loops and comprehension generators"""
    params = set(a.arg for a in f.args.args)
    for t, v, st in P.stores_in(f):          # plain aliases of the parameter
        if isinstance(t, ast.Name) and isinstance(v, ast.Name) and v.id in params:
            params.add(t.id)
    out = []
    for n in P.walk_no_nested(f):
        if isinstance(n, ast.For) and isinstance(n.iter, ast.Name) and n.iter.id in params and isinstance(n.target, ast.Tuple) \
                and len(n.target.elts) == 2 and all(isinstance(e, ast.Name) for e in n.target.elts):
            out.append(('for', n, n.target.elts[0].id, n.target.elts[1].id, n))
        elif isinstance(n, (ast.ListComp, ast.GeneratorExp, ast.SetComp)):
            for g in n.generators:
                if isinstance(g.iter, ast.Name) and g.iter.id in params and isinstance(g.target, ast.Tuple) and len(g.target.elts) == 2 \
                        and all(isinstance(e, ast.Name) for e in g.target.elts):
                    out.append(('comp', g, g.target.elts[0].id, g.target.elts[1].id, n))
    return out


def pair_functions(py):
    """module-level functions of xmlwriter.py that walk an attribute list parameter (emission and width computation)"""
    m = py.mod('xmlwriter')
    out = []
    for name, f in sorted(m.functions.items()):
        sc = pair_scopes(f)
        if sc:
            out.append((name, f, sc))
    if sum(len(x[2]) for x in out) < 2:
        raise AnalysisError('xmlwriter.py: expected the attribute emitter and its width computation to walk (name, value) pairs, found %s' % [x[0] for x in out])
    return out


def none_guard_only(kind, node, scope, vname, use):
    """is `use` (an expression inside the scope) reached exactly when the value is not None?"""
    if kind == 'comp':
        tests = [P.src(t) for t in node.ifs]
        return tests == ['%s is not None' % vname], tests
    g = [(x.kind, P.src(x.test), x.polarity) for x in P.guards(use, stop=scope) if x.kind in ('if', 'early', 'while')]
    norm = []
    for k, t, pol in g:
        if t == '%s is None' % vname:
            norm.append(('none', not pol))
        elif t == '%s is not None' % vname:
            norm.append(('none', pol))
        else:
            norm.append((t, pol))
    return norm == [('none', True)], norm


def normalise_saxutils(py):
    """`from xml.sax import saxutils` + `saxutils.escape(x)` is the same binding as `from xml.sax.saxutils import escape` + `escape(x)`: the qualified
    spelling is rewritten to the bare one in the parsed tree (once), so that every rule sees one vocabulary"""
    m = py.mod('xmlwriter')
    if getattr(m, '_sax_normalised', False):
        return
    m._sax_normalised = True
    aliases = [local for local, (mod_, remote) in m.imports.items()
               if (mod_ == 'ext:xml.sax' and remote == 'saxutils') or (mod_ == 'ext:xml.sax.saxutils' and remote is None)]
    if not aliases or any(fn in m.functions or fn in m.assigns or fn in m.classes for fn in ('escape', 'quoteattr')):
        return
    n_rw = 0
    for node in list(ast.walk(m.tree)):
        for field, value in ast.iter_fields(node):
            items = value if isinstance(value, list) else [value]
            for i, x in enumerate(items):
                if isinstance(x, ast.Attribute) and isinstance(x.value, ast.Name) and x.value.id in aliases and x.attr in ('escape', 'quoteattr') and isinstance(x.ctx, ast.Load):
                    new = ast.copy_location(ast.Name(id=x.attr, ctx=ast.Load()), x)
                    new._parent = node
                    if isinstance(value, list):
                        value[i] = new
                    else:
                        setattr(node, field, new)
                    n_rw += 1
    if n_rw:
        for fn in ('escape', 'quoteattr'):
            m.imports.setdefault(fn, (SAX, fn))


def escaping_rule(ctx, r1):
    """taint-style rule shared with C07: values reach the XML text only through the stdlib escaping functions"""
    py = ctx.py
    normalise_saxutils(py)
    m = py.mod('xmlwriter')
    rel = m.rel
    # ------------------------------------------------------------------ R1 escaping discipline
    for fn in ('escape', 'quoteattr'):
        prov = m.imports.get(fn)
        shadow = fn in m.functions or fn in m.assigns or fn in m.classes
        r1.check(prov == (SAX, fn) and not shadow, 'provenance of %s' % fn, rel, 1,
                 '`%s` in xmlwriter.py is not xml.sax.saxutils.%s (import=%s, redefined at module level=%s): '
                 'only the stdlib function is known to encode every character XML attribute/text needs'
                 % (fn, fn, prov, shadow), detail={'import': prov})
    # no local rebinding of the two names anywhere
    for n in ast.walk(m.tree):
        if isinstance(n, (ast.FunctionDef, ast.Lambda)):
            args = n.args
            names = [a.arg for a in args.args + args.kwonlyargs]
            for fn in ('escape', 'quoteattr'):
                if fn in names:
                    r1.fail('provenance of %s' % fn, rel, n.lineno, 'parameter shadows %s' % fn)
        if isinstance(n, ast.Name) and isinstance(n.ctx, ast.Store) and n.id in ('escape', 'quoteattr'):
            r1.fail('provenance of %s' % n.id, rel, n.lineno, '%s is rebound' % n.id)

    for fname, f, scopes in pair_functions(py):
        for kind, node, aname, vname, scope in scopes:
            tgt = node.target.elts[1]
            rebound = [n for n in ast.walk(scope) if isinstance(n, ast.Name) and n.id == vname and isinstance(n.ctx, ast.Store) and n is not tgt]
            r1.check(not rebound, '%s: attribute value not rebound' % fname, rel, node.lineno if hasattr(node, 'lineno') else f.lineno,
                     'attribute value is modified before being written')
            for u in uses_of(scope, vname):
                k = classify_use(u)
                r1.check(k in ('none-test', 'arg:quoteattr/1/0'), '%s: use of attribute value' % fname, rel, u.lineno,
                         'attribute value reaches the output (or its width) other than through quoteattr(value): %s in `%s`'
                         % (k, P.src(P.enclosing_stmt(u))), detail=k)
    # element text: followed from build_xml_tag through module-level helpers that are handed the text
    f = py.func('xmlwriter', 'build_xml_tag')
    dname = 'data'
    if dname not in [a.arg for a in f.args.args]:
        raise AnalysisError('build_xml_tag has no `data` parameter')
    esc_total = []
    aliases = set()

    def passthrough(callee, pn):
        rets_ = [n for n in P.walk_no_nested(callee) if isinstance(n, ast.Return)]
        okr = bool(rets_)
        for rt in rets_:
            v = rt.value
            if isinstance(v, ast.Name) and v.id == pn:
                continue
            if isinstance(v, ast.Call) and isinstance(v.func, ast.Attribute) and v.func.attr == 'decode' and isinstance(v.func.value, ast.Name) and v.func.value.id == pn \
                    and [str(py.try_fold(a, m)).lower().replace('-', '') for a in v.args] == ['utf8']:
                continue
            okr = False
        stores_ = [t for t, v, st in P.stores_in(callee) if isinstance(t, ast.Name) and t.id == pn]
        return okr and not stores_

    def follow(fn, pname, depth):
        stores = [(t, v, st) for t, v, st in P.stores_in(fn) if isinstance(t, ast.Name) and t.id == pname]
        for t, v, st in stores:
            g = [x.text() for x in P.guards(st) if x.kind in ('if', 'early')]
            ok = isinstance(v, ast.Call) and isinstance(v.func, ast.Attribute) and v.func.attr == 'decode' \
                and isinstance(v.func.value, ast.Name) and v.func.value.id == pname \
                and [str(py.try_fold(a, m)).lower().replace('-', '') for a in v.args] == ['utf8'] \
                and any('isinstance(%s, bytes)' % pname in x for x in g)
            r1.check(ok, '%s: text rebinding' % fn.name, rel, st.lineno,
                     'element text is transformed before escaping: `%s`' % P.src(st), detail=P.src(st))
        for u in uses_of(fn, pname):
            k = classify_use(u)
            mm_ = re.match(r'^arg:(\w+)/', k)
            if mm_ and mm_.group(1) in m.functions and mm_.group(1) not in ('escape', 'quoteattr') and depth < 2:
                callee = m.functions[mm_.group(1)]
                call = P.parent(u)
                bound = P.bind_call(call, callee, skip_self=False) if isinstance(call, ast.Call) else {}
                pn = [k_ for k_, v_ in bound.items() if v_ is u]
                if len(pn) == 1 and passthrough(callee, pn[0]):
                    # a decode-or-identity helper: its result stands for the text itself
                    k2 = classify_use(call)
                    aliases.add(P.src(call))
                    r1.check(k2 in ('arg:escape/1/0',), '%s: use of element text (through %s)' % (fn.name, callee.name), rel, u.lineno,
                             'element text reaches the output other than through escape(): %s in `%s`' % (k2, P.src(P.enclosing_stmt(u))), detail=k2)
                    continue
                if len(pn) == 1:
                    follow(callee, pn[0], depth + 1)
                    continue
            r1.check(k in ('none-test', 'isinstance', 'method:decode', 'arg:escape/1/0'), '%s: use of element text' % fn.name,
                     rel, u.lineno, 'element text reaches the output other than through escape(data): %s in `%s`'
                     % (k, P.src(P.enclosing_stmt(u))), detail=k)
        for c in P.calls_in(fn):
            if P.call_name(c) == 'escape':
                esc_total.append((c, pname))
    follow(f, dname, 0)
    r1.check(len(esc_total) == 1 and len(esc_total[0][0].args) == 1 and not esc_total[0][0].keywords and (P.src(esc_total[0][0].args[0]) == esc_total[0][1] or P.src(esc_total[0][0].args[0]) in aliases),
             'build_xml_tag: escape(data)', rel, f.lineno, 'element text is not escaped exactly once with the stdlib default entity set')
    # write_line(do_escape)
    wl = py.func('xmlwriter', 'XMLWriter.write_line')
    esc = [c for c in P.calls_in(wl) if P.call_name(c) == 'escape']
    ok = len(esc) == 1 and len(esc[0].args) == 1 and not esc[0].keywords and P.src(esc[0].args[0]) == 'line' \
        and [x.text() for x in P.guards(esc[0]) if x.kind == 'if'] == ['do_escape']
    r1.check(ok, 'write_line: do_escape', rel, wl.lineno, 'write_line(do_escape=True) does not escape the whole line once')
    # sinks: only __init__ and write_line write to self._data; nobody else in giscanner touches ._data
    sinks = {}
    for mod in py.all_modules():
        for n in ast.walk(mod.tree):
            if isinstance(n, ast.Attribute) and n.attr == '_data' and isinstance(P.parent(n), ast.Attribute) \
                    and P.parent(n).attr in ('write', 'writelines', 'seek', 'truncate'):
                fn = P.enclosing_function(n)
                sinks.setdefault((mod.rel, fn.name if fn else '<module>'), []).append(n.lineno)
    r1.check(set(sinks) == {(rel, '__init__'), (rel, 'write_line')}, 'output sinks', rel, 1,
             'the XML buffer is written from %s; only XMLWriter.__init__ (declaration) and write_line may' % sorted(sinks),
             detail=sorted('%s:%s' % k for k in sinks))



def check(ctx):
    py = ctx.py
    normalise_saxutils(py)
    m = py.mod('xmlwriter')
    rel = m.rel

    r1 = ctx.rule('R1', 'attribute values only via stdlib quoteattr, text only via stdlib escape, untransformed; single sink', floor=12)
    escaping_rule(ctx, r1)
    wl = py.func('xmlwriter', 'XMLWriter.write_line')

    # ------------------------------------------------------------------ R2 siblings skip alike
    r2 = ctx.rule('R2', 'width computation and emission skip exactly the None-valued attributes, and use the same quoting', floor=4)
    for fname, f, scopes in pair_functions(py):
        for kind, node, aname, vname, scope in scopes:
            qs = [u for u in uses_of(scope, vname) if classify_use(u) == 'arg:quoteattr/1/0']
            r2.check(bool(qs), '%s: value quoted' % fname, rel, f.lineno, '%s does not use quoteattr(value)' % fname)
            for u in qs:
                ok, g = none_guard_only(kind, node, scope, vname, u)
                r2.check(ok, '%s: exactly the None-valued attributes are skipped' % fname, rel, u.lineno,
                         'quoteattr(value) is reached under %s: the two functions must skip an attribute exactly when its value is None' % g, detail=str(g))

    # ------------------------------------------------------------------ R3 wrapping whitespace only
    r3 = ctx.rule('R3', 'only ` name=quoted` and newline+indent are concatenated; tag assembled as prefix+attrs+suffix', floor=6)
    emitters = [(n_, f_, sc_) for n_, f_, sc_ in pair_functions(py) if any(isinstance(x, ast.Return) and x.value is not None and not isinstance(x.value, ast.Constant) and _strish(x.value, f_)
                                                                           for x in P.walk_no_nested(f_))]
    if len(emitters) != 1:
        raise AnalysisError('xmlwriter.py: expected exactly one function that returns the attribute run, found %s' % [e[0] for e in emitters])
    ename, f, scopes = emitters[0]
    kind, node, aname, vname, scope = scopes[0]
    # names whose value flows into the returned string
    flow = set()
    exprs = []
    for n in P.walk_no_nested(f):
        if isinstance(n, ast.Return) and n.value is not None:
            exprs.append(n.value)
    changed = True
    seen = set()
    while changed:
        changed = False
        for e in list(exprs):
            if id(e) in seen:
                continue
            seen.add(id(e))
            for leaf in strfrag.leaves(strfrag.flatten(e)):
                x = leaf[1] if leaf[0] == 'expr' else None
                if isinstance(x, ast.Name) and x.id not in flow:
                    flow.add(x.id)
                    changed = True
        for n in P.walk_no_nested(f):
            if isinstance(n, (ast.Assign, ast.AugAssign, ast.AnnAssign)):
                tg = n.targets if isinstance(n, ast.Assign) else [n.target]
                v_ = n.value
                if isinstance(v_, (ast.ListComp, ast.GeneratorExp)) and len(v_.generators) == 1:
                    v_ = v_.elt   # a list of pieces built by a comprehension: each piece is its element expression
                if any(isinstance(t, ast.Name) and t.id in flow for t in tg) and v_ is not None and id(v_) not in seen and v_ not in exprs:
                    exprs.append(v_)
                    changed = True
            elif isinstance(n, ast.Call) and isinstance(n.func, ast.Attribute) and n.func.attr in ('append', 'extend', 'insert') and isinstance(n.func.value, ast.Name) \
                    and n.func.value.id in flow:
                for a_ in n.args:
                    if id(a_) not in seen and a_ not in exprs:
                        exprs.append(a_)
                        changed = True
    params = [a.arg for a in f.args.args]
    attr_piece = 0
    for e in exprs:
        if isinstance(e, ast.Constant) and not isinstance(e.value, str):
            continue
        fr = strfrag.flatten(e)
        for leaf in strfrag.leaves(fr):
            if leaf[0] == 'const':
                txt = leaf[1]
                r3.check(txt.strip(' \n\t') in ('', '='), 'literal text in the attribute run', rel, e.lineno,
                         'text other than whitespace and "=" is concatenated into the attribute run: %r in `%s`' % (txt, P.src(e)[:80]), detail=txt)
            else:
                x = leaf[1]
                t = P.src(x)
                ok = (isinstance(x, ast.Name) and (x.id in flow or x.id == aname)) or t == 'quoteattr(%s)' % vname or \
                    (isinstance(x, ast.BinOp) and isinstance(x.op, ast.Mult) and any(isinstance(y, ast.Name) and 'indent_char' in y.id and y.id in params for y in ast.walk(x))) or \
                    isinstance(x, (ast.List, ast.ListComp, ast.GeneratorExp)) or (isinstance(x, ast.Constant) and x.value in (True, False, None)) or \
                    (isinstance(x, ast.Compare)) or isinstance(x, ast.BoolOp)
                if isinstance(x, ast.Name) and x.id in params and x.id not in (aname,) and 'indent' not in x.id and x.id not in flow:
                    ok = False
                r3.check(ok, 'inserted value in the attribute run', rel, getattr(x, 'lineno', e.lineno),
                         'unexpected value concatenated into the attribute run: `%s` in `%s`' % (t[:60], P.src(e)[:80]), detail=t[:60])
        for seq in strfrag.sequences(fr):
            for sub in ([seq] + [list(x[2]) for x in seq if x[0] == 'join']):
                m_ = strfrag.merge_consts(sub)
                if len(m_) >= 3 and m_[0][0] == 'expr' and P.src(m_[0][1]) == aname and m_[1] == ('const', '=') and sub is seq:
                    r3.fail('every attribute is preceded by literal whitespace', rel, e.lineno, 'an attribute piece starts directly with the attribute name: `%s`' % P.src(e)[:80])
                for i in range(len(m_) - 3):
                    if m_[i + 1][0] == 'expr' and P.src(m_[i + 1][1]) == aname and m_[i + 2] == ('const', '=') and m_[i + 3][0] == 'expr' and P.src(m_[i + 3][1]) == 'quoteattr(%s)' % vname \
                            and not (m_[i][0] == 'const' and m_[i][1] != '' and m_[i][1].strip(' \n\t') == ''):
                        r3.fail('every attribute is preceded by literal whitespace', rel, e.lineno,
                                'the text in front of an attribute name is `%s`, not a non-empty whitespace literal: when that value is empty (whitespace disabled, zero indent) two '
                                'attributes run together and the tag is not well-formed' % strfrag.show([m_[i]]))
                    if m_[i][0] == 'const' and m_[i][1].endswith(' ') and m_[i][1].strip() == '' and m_[i + 1][0] == 'expr' and P.src(m_[i + 1][1]) == aname and m_[i + 2] == ('const', '=') \
                            and m_[i + 3][0] == 'expr' and P.src(m_[i + 3][1]) == 'quoteattr(%s)' % vname:
                        attr_piece += 1
                        ok, g = none_guard_only(kind, node, scope, vname, e) if kind == 'for' else none_guard_only(kind, node, scope, vname, e)
                        r3.check(ok, 'attribute piece written for every non-None value', rel, e.lineno, 'an attribute with a value can be dropped: piece reached under %s' % g, detail=str(g))
    r3.check(attr_piece >= 1, 'attribute written as space, name, "=", quoted value', rel, f.lineno, 'no piece of the form " " name "=" quoteattr(value) found in %s' % ename)
    # build_xml_tag assembly
    BT = gsa.summarise(ctx, 'xmlwriter', 'build_xml_tag', inline_module_funcs=True, opaque=('collect_attributes', '_calc_attrs_length'))
    f = BT.func
    tagp = BT.P(0)
    shapes = []
    for g, n in BT.returns:
        for seq in strfrag.sequences(strfrag.flatten(n)):
            shapes.append([x if x[0] == 'const' else ('expr', gsa._unparse(x[1])) for x in strfrag.merge_consts(seq)])

    def is_attrs(x):
        return x[0] == 'expr' and x[1].startswith('collect_attributes(%s, ' % tagp)
    okempty = [sh for sh in shapes if len(sh) == 4 and sh[0] == ('const', '<') and sh[1] == ('expr', tagp) and is_attrs(sh[2]) and sh[3] == ('const', '/>')]
    oktext = [sh for sh in shapes if len(sh) == 8 and sh[0] == ('const', '<') and sh[1] == ('expr', tagp) and is_attrs(sh[2]) and sh[3] == ('const', '>') and sh[4][0] == 'expr' and
              re.match(r'^escape\(\w+(\.decode\(.*\))?\)$', sh[4][1]) and sh[5] == ('const', '</') and sh[6] == ('expr', tagp) and sh[7] == ('const', '>')]
    r3.check(okempty and oktext and len(okempty) + len(oktext) == len(shapes), 'build_xml_tag assembly', rel, f.lineno,
             'element is not assembled as "<name" + attributes + (">text</name>" | "/>"): %s' % shapes, detail=shapes)
    # same tag name opens and closes
    PUSH = gsa.summarise(ctx, 'xmlwriter', 'XMLWriter.push_tag', opaque=('write_line',))
    POP = gsa.summarise(ctx, 'xmlwriter', 'XMLWriter.pop_tag', opaque=('write_line',))
    ptag = PUSH.P(1)

    def line_shapes(S):
        out = []
        for c in gsa.find(S, 'call', r'^self\.write_line$'):
            if c.vnode is not None and c.vnode.args:
                for seq in strfrag.sequences(strfrag.flatten(c.vnode.args[0])):
                    out.append(([x if x[0] == 'const' else ('expr', gsa._unparse(x[1])) for x in strfrag.merge_consts(seq)], c))
        return out
    po = line_shapes(PUSH)
    pc_ = line_shapes(POP)
    oko = len(po) >= 1 and all(len(sh) == 4 and sh[0] == ('const', '<') and sh[1] == ('expr', ptag) and sh[2][0] == 'expr' and sh[2][1].startswith('collect_attributes(%s, ' % ptag) and sh[3] == ('const', '>')
                               for sh, c in po)
    okc = len(pc_) == 1 and len(pc_[0][0]) == 3 and pc_[0][0][0] == ('const', '</') and pc_[0][0][1] == ('expr', 'self._tag_stack.pop()') and pc_[0][0][2] == ('const', '>')
    r3.check(oko and okc, 'open/close tag text', rel, PUSH.func.lineno, 'open/close tags written as %s / %s' % ([sh for sh, c in po], [sh for sh, c in pc_]))
    # indent characters are whitespace
    vals = set()
    for mn in sorted(py.methods('xmlwriter', 'XMLWriter')):
        WS = gsa.summarise(ctx, 'xmlwriter', 'XMLWriter.' + mn)
        for e in gsa.find(WS, 'store', r'^self\._(indent|newline)_char$'):
            if mn.startswith('_') and not mn.startswith('__') and e.value in WS.params:
                continue        # a private setter handed the character by its callers: the callers' summaries (helper inlined) carry the value
            try:
                vals.add(py.try_fold(ast.parse(e.value, mode='eval').body, m, default='<?>'))
            except SyntaxError:
                vals.add('<?>')
    r3.check(vals and all(isinstance(v, str) and v.strip(' \n') == '' for v in vals), 'indent/newline characters', rel, 1,
             'indent or newline character is not whitespace: %r' % sorted(map(repr, vals)), detail=sorted(map(repr, vals)))

    # ------------------------------------------------------------------ R4 element stack
    r4 = ctx.rule('R4', 'element stack: push is exception-atomic, tagcontext pairs push/pop in try/finally, nobody else pushes', floor=6)
    push = PUSH.func
    app = gsa.find(PUSH, 'call', r'^self\._tag_stack\.append$')
    ind = [e for e in PUSH.effects if e.kind == 'aug' and e.target == 'self._indent']
    if len(app) != 1 or len(ind) != 1 or not po:
        raise AnalysisError('push_tag: expected one stack append, one indent increment and the call that writes the start tag')
    for sh, c in po:
        for mu in app + ind:
            r4.check(c.seq < mu.seq, 'push_tag: write start tag before recording it', rel, c.line,
                     'in push_tag `%s` can run after `%s`: if writing the start tag raises, the element is already on the '
                     'stack and an enclosing tagcontext closes a tag that was never opened' % (c.value[:50], (mu.value or mu.target)[:50]),
                     detail='%s precedes %s' % (mu.target, c.target))
    r4.check(app[0].args == [ptag], 'push_tag: same name written and recorded', rel, push.lineno, 'the recorded tag name is %s, the one written is %s' % (app[0].args, ptag))
    pop = POP.func
    r4.check(okc and len(gsa.find(POP, 'call', r'^self\._tag_stack\.pop$')) == 1, 'pop_tag closes the innermost open element',
             rel, pop.lineno, 'pop_tag does not close the element popped from the top of the stack: %s' % [sh for sh, c in pc_])
    dec = [e for e in POP.effects if e.kind == 'aug' and e.target == 'self._indent']
    r4.check(len(dec) == 1 and isinstance(ind[0].node.op, ast.Add) and isinstance(dec[0].node.op, ast.Sub) and P.src(ind[0].node.value) == P.src(dec[0].node.value), 'indent symmetric', rel, pop.lineno,
             'indent +%s / -%s' % ([P.src(e.node.value) for e in ind], [P.src(e.node.value) for e in dec]))
    tc = py.func('xmlwriter', 'XMLWriter.tagcontext')
    deco = [P.src(d) for d in tc.decorator_list]
    tries = [n for n in tc.body if isinstance(n, ast.Try)]
    ok = deco == ['contextmanager'] and m.imports.get('contextmanager') == ('ext:contextlib', 'contextmanager') and len(tries) == 1
    if ok:
        t = tries[0]
        before = [P.src(s) for s in tc.body[:tc.body.index(t)]]
        ok = before == ['self.push_tag(tag_name, attributes)'] \
            and len(t.body) == 1 and isinstance(t.body[0], ast.Expr) and isinstance(t.body[0].value, ast.Yield) \
            and not t.handlers and [P.src(s) for s in t.finalbody] == ['self.pop_tag()'] \
            and tc.body[-1] is t
    ctx_cls = None
    if not ok and not deco:
        # form (B): tagcontext returns an instance of a context-manager class of this module whose __enter__ pushes exactly the element it was
        # constructed with and whose __exit__ pops unconditionally (`with` always calls __exit__, also when the body raises)
        TC = gsa.summarise(ctx, 'xmlwriter', 'XMLWriter.tagcontext', inline_only=())
        rets = [n for g_, n in TC.returns]
        if len(rets) == 1 and isinstance(rets[0], ast.Call) and isinstance(rets[0].func, ast.Name) and rets[0].func.id in m.classes \
                and [gsa._unparse(a) for a in rets[0].args] == TC.params and not rets[0].keywords:
            cname_ = rets[0].func.id
            meths_ = py.methods('xmlwriter', cname_)
            if '__enter__' in meths_ and '__exit__' in meths_ and '__init__' in meths_:
                IN = gsa.summarise(ctx, 'xmlwriter', cname_ + '.__init__', inline_only=())
                fld = dict((e.value, e.target) for e in gsa.find(IN, 'store', r'^self\.\w+$') if e.cond is True)      # ctor parameter -> field
                EN = gsa.summarise(ctx, 'xmlwriter', cname_ + '.__enter__', inline_only=())
                EX = gsa.summarise(ctx, 'xmlwriter', cname_ + '.__exit__', inline_only=())
                pw = IN.params[1:]
                pu = [e for e in gsa.find(EN, 'call', r'\.push_tag$')]
                po_ = [e for e in gsa.find(EX, 'call', r'\.pop_tag$')]
                ok = len(pw) == 3 and all(p_ in fld for p_ in pw) and len(pu) == 1 and pu[0].cond is True and pu[0].target == fld[pw[0]] + '.push_tag' \
                    and pu[0].args == [fld[pw[1]], fld[pw[2]]] and len(po_) == 1 and po_[0].cond is True and po_[0].target == fld[pw[0]] + '.pop_tag' \
                    and not [e for e in EN.effects if e.kind in ('raise',)] and not [e for e in EX.effects if e.kind == 'raise']
                if ok:
                    ctx_cls = cname_
    r4.check(ok, 'tagcontext = push; try: yield; finally: pop', rel, tc.lineno,
             'tagcontext no longer guarantees the close tag when the body raises')
    # who may call push/pop/_open/_close
    offenders = []
    for mod in py.all_modules():
        for n in ast.walk(mod.tree):
            if isinstance(n, ast.Attribute) and n.attr in ('push_tag', 'pop_tag', '_open_tag', '_close_tag', '_tag_stack'):
                fn = P.enclosing_function(n)
                where = (mod.rel, fn.name if fn else '<module>', n.attr)
                allowed = mod.rel == rel and where[1:] in (
                    ('push_tag', '_open_tag'), ('push_tag', '_tag_stack'), ('pop_tag', '_close_tag'), ('pop_tag', '_tag_stack'),
                    ('tagcontext', 'push_tag'), ('tagcontext', 'pop_tag'), ('__init__', '_tag_stack'))
                if not allowed and ctx_cls is not None and mod.rel == rel and where[1:] in (('__enter__', 'push_tag'), ('__exit__', 'pop_tag')) \
                        and P.enclosing_class(n) is not None and P.enclosing_class(n).name == ctx_cls:
                    allowed = True
                if not allowed:
                    offenders.append('%s:%d %s in %s' % (mod.rel, n.lineno, n.attr, where[1]))
    r4.check(not offenders, 'who may push/pop', rel, 1,
             'element stack manipulated outside push_tag/pop_tag/tagcontext: %s' % offenders, detail='no other caller in giscanner/*.py')
    # positive control for the who-may-call matcher
    fx = ast.parse(open(__file__.rsplit('/gilint/', 1)[0] + '/fixtures/c20_pushpop.py').read())
    hits = [n for n in ast.walk(fx) if isinstance(n, ast.Attribute) and n.attr in ('push_tag', 'pop_tag')]
    if len(hits) != 2:
        raise AnalysisError('who-may-call matcher self-test failed on fixtures/c20_pushpop.py')

    # ------------------------------------------------------------------ R5 encoding agreement
    r5 = ctx.rule('R5', 'declared encoding = encoding used (utf-8), XML declaration first', floor=3)
    init = py.func('xmlwriter', 'XMLWriter.__init__')
    decl = [py.try_fold(c.args[0], m) for c in P.calls_in(init) if P.src(c.func) == 'self._data.write']
    r5.check(len(decl) == 1 and isinstance(decl[0], str) and decl[0].startswith('<?xml version="1.0"') and
             'encoding="utf-8"' in decl[0].lower() and decl[0].endswith('?>\n'), 'XML declaration', rel, init.lineno,
             'XML declaration written: %r' % decl, detail=decl)
    ge = py.func('xmlwriter', 'XMLWriter.get_encoded_xml')
    enc = [py.try_fold(c.args[0], m) for c in P.calls_in(ge) if isinstance(c.func, ast.Attribute) and c.func.attr == 'encode' and c.args]
    r5.check([str(e).lower() for e in enc] == ['utf-8'], 'get_encoded_xml encoding', rel, ge.lineno, 'document encoded as %s' % enc)
    dec = []
    # every bytes -> str decoding in the module (the writer's functions or the helpers they share)
    for fn in [x for x in m.functions.values()] + list(py.methods('xmlwriter', 'XMLWriter').values()):
        for c in P.calls_in(fn):
            if isinstance(c.func, ast.Attribute) and c.func.attr == 'decode':
                dec.append(str(py.try_fold(c.args[0], m) if c.args else 'utf-8').lower())
    r5.check(dec and all(d == 'utf-8' for d in dec), 'bytes input decoding', rel, 1, 'bytes are decoded as %s' % dec, detail=dec)


def _strish(v, f):
    """the returned expression is a string being built (a name, a concatenation, a join), not a number"""
    if isinstance(v, ast.Call) and isinstance(v.func, ast.Attribute) and v.func.attr == 'join':
        return True
    if isinstance(v, ast.Name):
        for t, val, st in P.stores_in(f):
            if isinstance(t, ast.Name) and t.id == v.id:
                if isinstance(val, ast.Constant) and isinstance(val.value, str):
                    return True
                if isinstance(val, ast.Call) and isinstance(val.func, ast.Attribute) and val.func.attr in ('join', 'replace', 'format', 'strip'):
                    return True
                if isinstance(val, (ast.JoinedStr,)) or (isinstance(val, ast.BinOp) and isinstance(val.op, ast.Mod)):
                    return True
        return False
    return isinstance(v, (ast.JoinedStr,)) or (isinstance(v, ast.BinOp) and isinstance(v.op, (ast.Mod,)))
