"""C20 — the XML writer always produces well-formed, lossless XML."""
import ast

from ..core import AnalysisError
from .. import pyfront as P
from .. import pycfg

EXPLANATION = ('Static rules over giscanner/xmlwriter.py (and who-may-call over all of giscanner): escaping '
               'discipline as a taint rule (every attribute value reaches the output only through the stdlib '
               'quoteattr, every element text only through the stdlib escape, un-transformed), sibling '
               'None-skips, whitespace-only wrapping, exception-safe element stack, encoding agreement.')

SAX = 'ext:xml.sax.saxutils'


def uses_of(scope, name):
    """Name nodes (Load) of `name` below scope, not descending nested defs."""
    out = []
    stack = [scope]
    while stack:
        n = stack.pop()
        for c in ast.iter_child_nodes(n):
            if isinstance(c, (ast.FunctionDef, ast.Lambda, ast.ClassDef)):
                continue
            stack.append(c)
        if isinstance(n, ast.Name) and n.id == name and isinstance(n.ctx, ast.Load):
            out.append(n)
    out.sort(key=lambda n: (n.lineno, n.col_offset))
    return out


def classify_use(n):
    """Describe how a variable occurrence is used (by its parent expression)."""
    p = P.parent(n)
    if isinstance(p, ast.Compare) and len(p.ops) == 1 and isinstance(p.ops[0], (ast.Is, ast.IsNot)) \
            and isinstance(p.comparators[0], ast.Constant) and p.comparators[0].value is None:
        return 'none-test'
    if isinstance(p, ast.Call) and n in p.args:
        nm = P.call_name(p)
        if nm == 'isinstance':
            return 'isinstance'
        return 'arg:%s/%d/%d' % (nm, len(p.args), len(p.keywords))
    if isinstance(p, ast.Attribute) and p.value is n:
        pp = P.parent(p)
        if isinstance(pp, ast.Call) and pp.func is p:
            return 'method:%s' % p.attr
        return 'attr:%s' % p.attr
    if isinstance(p, ast.UnaryOp) and isinstance(p.op, ast.Not):
        return 'truth-test'
    if isinstance(p, (ast.If, ast.While, ast.IfExp)) and p.test is n:
        return 'truth-test'
    return 'other:%s' % type(p).__name__


def attr_loop(py, fname):
    f = py.func('xmlwriter', fname)
    params = [a.arg for a in f.args.args]
    loops = [n for n in P.walk_no_nested(f) if isinstance(n, ast.For) and isinstance(n.iter, ast.Name)
             and n.iter.id in params and isinstance(n.target, ast.Tuple) and len(n.target.elts) == 2
             and all(isinstance(e, ast.Name) for e in n.target.elts)]
    if len(loops) != 1:
        raise AnalysisError('%s: expected one `for attr, value in <attributes param>` loop, found %d' % (fname, len(loops)))
    return f, loops[0]


def escaping_rule(ctx, r1):
    """taint-style rule shared with C07: values reach the XML text only through the stdlib escaping functions"""
    py = ctx.py
    m = py.mod('xmlwriter')
    rel = m.rel
    # ------------------------------------------------------------------ R1 escaping discipline
    for fn in ('escape', 'quoteattr'):
        prov = m.imports.get(fn)
        shadow = fn in m.functions or fn in m.assigns or fn in m.classes
        r1.check(prov == (SAX, fn) and not shadow, 'provenance of %s' % fn, rel, 1,
                 '`%s` in xmlwriter.py is not xml.sax.saxutils.%s (import=%s, redefined at module level=%s): '
                 'only the stdlib function is known to encode every character XML attribute/text needs'
                 % (fn, fn, prov, shadow), detail={'import': prov})
    # no local rebinding of the two names anywhere
    for n in ast.walk(m.tree):
        if isinstance(n, (ast.FunctionDef, ast.Lambda)):
            args = n.args
            names = [a.arg for a in args.args + args.kwonlyargs]
            for fn in ('escape', 'quoteattr'):
                if fn in names:
                    r1.fail('provenance of %s' % fn, rel, n.lineno, 'parameter shadows %s' % fn)
        if isinstance(n, ast.Name) and isinstance(n.ctx, ast.Store) and n.id in ('escape', 'quoteattr'):
            r1.fail('provenance of %s' % n.id, rel, n.lineno, '%s is rebound' % n.id)

    for fname in ('collect_attributes', '_calc_attrs_length'):
        f, loop = attr_loop(py, fname)
        vname = loop.target.elts[1].id
        # value must not be rebound in the loop
        rebound = [n for n in ast.walk(loop) if isinstance(n, ast.Name) and n.id == vname and isinstance(n.ctx, ast.Store)
                   and n is not loop.target.elts[1]]
        r1.check(not rebound, '%s: attribute value not rebound' % fname, rel, loop.lineno,
                 'attribute value is modified before being written')
        for u in uses_of(loop, vname):
            k = classify_use(u)
            r1.check(k in ('none-test', 'arg:quoteattr/1/0'), '%s: use of attribute value' % fname, rel, u.lineno,
                     'attribute value reaches the output (or its width) other than through quoteattr(value): %s in `%s`'
                     % (k, P.src(P.enclosing_stmt(u))), detail=k)
    # element text
    f = py.func('xmlwriter', 'build_xml_tag')
    dname = 'data'
    if dname not in [a.arg for a in f.args.args]:
        raise AnalysisError('build_xml_tag has no `data` parameter')
    stores = [(t, v, st) for t, v, st in P.stores_in(f) if isinstance(t, ast.Name) and t.id == dname]
    for t, v, st in stores:
        g = [x.text() for x in P.guards(st) if x.kind == 'if']
        ok = isinstance(v, ast.Call) and isinstance(v.func, ast.Attribute) and v.func.attr == 'decode' \
            and isinstance(v.func.value, ast.Name) and v.func.value.id == dname \
            and [str(py.try_fold(a, m)).lower().replace('-', '') for a in v.args] == ['utf8'] \
            and any('isinstance(%s, bytes)' % dname in x for x in g)
        r1.check(ok, 'build_xml_tag: text rebinding', rel, st.lineno,
                 'element text is transformed before escaping: `%s`' % P.src(st), detail=P.src(st))
    for u in uses_of(f, dname):
        k = classify_use(u)
        r1.check(k in ('none-test', 'isinstance', 'method:decode', 'arg:escape/1/0'), 'build_xml_tag: use of element text',
                 rel, u.lineno, 'element text reaches the output other than through escape(data): %s in `%s`'
                 % (k, P.src(P.enclosing_stmt(u))), detail=k)
    esc = [c for c in P.calls_in(f) if P.call_name(c) == 'escape']
    r1.check(len(esc) == 1 and len(esc[0].args) == 1 and not esc[0].keywords and P.src(esc[0].args[0]) == dname,
             'build_xml_tag: escape(data)', rel, f.lineno, 'element text is not escaped exactly once with the stdlib default entity set')
    # write_line(do_escape)
    wl = py.func('xmlwriter', 'XMLWriter.write_line')
    esc = [c for c in P.calls_in(wl) if P.call_name(c) == 'escape']
    ok = len(esc) == 1 and len(esc[0].args) == 1 and not esc[0].keywords and P.src(esc[0].args[0]) == 'line' \
        and [x.text() for x in P.guards(esc[0]) if x.kind == 'if'] == ['do_escape']
    r1.check(ok, 'write_line: do_escape', rel, wl.lineno, 'write_line(do_escape=True) does not escape the whole line once')
    # sinks: only __init__ and write_line write to self._data; nobody else in giscanner touches ._data
    sinks = {}
    for mod in py.all_modules():
        for n in ast.walk(mod.tree):
            if isinstance(n, ast.Attribute) and n.attr == '_data' and isinstance(P.parent(n), ast.Attribute) \
                    and P.parent(n).attr in ('write', 'writelines', 'seek', 'truncate'):
                fn = P.enclosing_function(n)
                sinks.setdefault((mod.rel, fn.name if fn else '<module>'), []).append(n.lineno)
    r1.check(set(sinks) == {(rel, '__init__'), (rel, 'write_line')}, 'output sinks', rel, 1,
             'the XML buffer is written from %s; only XMLWriter.__init__ (declaration) and write_line may' % sorted(sinks),
             detail=sorted('%s:%s' % k for k in sinks))



def check(ctx):
    py = ctx.py
    m = py.mod('xmlwriter')
    rel = m.rel

    r1 = ctx.rule('R1', 'attribute values only via stdlib quoteattr, text only via stdlib escape, untransformed; single sink', floor=12)
    escaping_rule(ctx, r1)
    wl = py.func('xmlwriter', 'XMLWriter.write_line')

    # ------------------------------------------------------------------ R2 siblings skip alike
    r2 = ctx.rule('R2', 'width computation and emission skip exactly the None-valued attributes, and use the same quoting', floor=4)
    for fname in ('collect_attributes', '_calc_attrs_length'):
        f, loop = attr_loop(py, fname)
        vname = loop.target.elts[1].id
        first = loop.body[0]
        ok = isinstance(first, ast.If) and P.src(first.test) == '%s is None' % vname and len(first.body) == 1 \
            and isinstance(first.body[0], ast.Continue) and not first.orelse
        r2.check(ok, '%s: None skip' % fname, rel, loop.lineno, 'loop does not start by skipping attributes whose value is None')
        conts = [n for n in ast.walk(loop) if isinstance(n, (ast.Continue, ast.Break))]
        r2.check(len(conts) == 1, '%s: only None is skipped' % fname, rel, loop.lineno,
                 'attributes are skipped under further conditions (%d continue/break statements)' % len(conts))

    # ------------------------------------------------------------------ R3 wrapping whitespace only
    r3 = ctx.rule('R3', 'only ` name=quoted` and newline+indent are concatenated; tag assembled as prefix+attrs+suffix', floor=6)
    f, loop = attr_loop(py, 'collect_attributes')
    aname, vname = loop.target.elts[0].id, loop.target.elts[1].id
    acc = None
    pieces = []
    for n in ast.walk(loop):
        if isinstance(n, ast.AugAssign) and isinstance(n.op, ast.Add) and isinstance(n.target, ast.Name):
            acc = acc or n.target.id
            if n.target.id != acc:
                raise AnalysisError('collect_attributes: more than one accumulator')
            pieces.append(n)
    if not acc or len(pieces) < 2:
        raise AnalysisError('collect_attributes: accumulator pattern not recognised')
    kinds = []
    for pce in pieces:
        v = pce.value
        if isinstance(v, ast.BinOp) and isinstance(v.op, ast.Mod) and isinstance(v.left, ast.Constant) and isinstance(v.left.value, str):
            fmt = v.left.value
            args = v.right.elts if isinstance(v.right, ast.Tuple) else [v.right]
            lit = fmt.replace('%s', '')
            if fmt.count('%s') == 2 and lit == ' =' and fmt == ' %s=%s' and P.src(args[0]) == aname \
                    and P.src(args[1]) == 'quoteattr(%s)' % vname:
                kinds.append('attr')
                r3.ok('attribute piece', rel, pce.lineno, fmt)
                continue
            if fmt.count('%s') == 1 and lit.strip(' \n\t') == '' and '\n' in lit:
                # the substituted value must be indent char * count
                a = args[0]
                if isinstance(a, ast.BinOp) and isinstance(a.op, ast.Mult) and 'indent_char' in P.src(a):
                    kinds.append('wrap')
                    g = [x.text() for x in P.guards(pce, stop=loop) if x.kind == 'if']
                    r3.check(any('not first' in x for x in g), 'wrap piece not before first attribute', rel, pce.lineno,
                             'line break can be inserted before the first attribute: %s' % g, detail=fmt)
                    continue
        r3.fail('concatenated piece', rel, pce.lineno, 'unexpected text concatenated into the attribute run: `%s`' % P.src(pce))
    r3.check(sorted(kinds) == ['attr', 'wrap'], 'pieces', rel, loop.lineno, 'attribute run built from %s' % kinds)
    # every attr piece unconditional inside the loop (after None skip)
    for pce in pieces:
        if P.src(pce.value).startswith("' %s=%s'"):
            g = [x.text() for x in P.guards(pce, stop=loop) if x.kind in ('if',)]
            r3.check(g == [], 'attribute piece unconditional', rel, pce.lineno, 'an attribute with a value can be dropped: %s' % g)
    inits = [P.src(v) for t, v, st in P.stores_in(f) if isinstance(t, ast.Name) and t.id == acc and isinstance(st, ast.Assign)]
    rets = [P.src(n.value) for n in P.walk_no_nested(f) if isinstance(n, ast.Return)]
    r3.check(inits == ["''"] and sorted(rets) == sorted(["''", acc]), 'accumulator', rel, f.lineno,
             'collect_attributes returns something other than the accumulated run: init=%s returns=%s' % (inits, rets))
    # build_xml_tag assembly
    f = py.func('xmlwriter', 'build_xml_tag')
    st = {}
    for t, v, s_ in P.stores_in(f):
        if isinstance(t, ast.Name):
            st.setdefault(t.id, []).append(P.src(v))
    rets = [n.value for n in P.walk_no_nested(f) if isinstance(n, ast.Return)]
    ok = len(rets) == 1 and isinstance(rets[0], ast.BinOp)
    parts = []
    if ok:
        e = rets[0]
        while isinstance(e, ast.BinOp) and isinstance(e.op, ast.Add):
            parts.insert(0, e.right)
            e = e.left
        parts.insert(0, e)
    names = [P.src(x) for x in parts]
    good = len(names) == 3 and all(n in st for n in names)
    if good:
        pre, at, suf = names
        good = st[pre] == ["'<%s' % (tag_name,)"] and sorted(st[suf]) == sorted(["'>%s</%s>' % (escape(data), tag_name)", "'/>'"]) \
            and len(st[at]) == 1 and st[at][0].startswith('collect_attributes(tag_name, attributes,')
    r3.check(good, 'build_xml_tag assembly', rel, f.lineno,
             'element is not assembled as "<name" + attributes + (">text</name>" | "/>"): %s' % {n: st.get(n) for n in names},
             detail={n: st.get(n) for n in names})
    # same tag name opens and closes
    ot = py.func('xmlwriter', 'XMLWriter._open_tag')
    ctg = py.func('xmlwriter', 'XMLWriter._close_tag')
    wl_o = [P.src(c.args[0]) for c in P.calls_in(ot) if P.call_name(c) == 'self.write_line']
    wl_c = [P.src(c.args[0]) for c in P.calls_in(ctg) if P.call_name(c) == 'self.write_line']
    r3.check(len(wl_o) == 1 and wl_o[0].startswith("'<%s%s>' % (tag_name, ") and wl_c == ["'</%s>' % (tag_name,)"],
             'open/close tag text', rel, ot.lineno, 'open/close tags written as %s / %s' % (wl_o, wl_c))
    # indent characters are whitespace
    vals = set()
    for n in ast.walk(py.cls('xmlwriter', 'XMLWriter')):
        if isinstance(n, ast.Assign):
            for t in n.targets:
                if P.src(t) in ('self._indent_char', 'self._newline_char'):
                    vals.add(py.try_fold(n.value, m, default='<?>'))
    r3.check(vals and all(isinstance(v, str) and v.strip(' \n') == '' for v in vals), 'indent/newline characters', rel, 1,
             'indent or newline character is not whitespace: %r' % sorted(map(repr, vals)), detail=sorted(map(repr, vals)))

    # ------------------------------------------------------------------ R4 element stack
    r4 = ctx.rule('R4', 'element stack: push is exception-atomic, tagcontext pairs push/pop in try/finally, nobody else pushes', floor=6)
    push = py.func('xmlwriter', 'XMLWriter.push_tag')
    cfg = pycfg.CFG(push)
    mut = []
    calls = []
    for n in P.walk_no_nested(push):
        if isinstance(n, ast.Call) and P.src(n.func) == 'self._tag_stack.append':
            mut.append(P.enclosing_stmt(n))
        elif isinstance(n, ast.AugAssign) and P.src(n.target) == 'self._indent':
            mut.append(n)
        elif isinstance(n, ast.Call) and (P.call_name(n) or '').startswith('self.') and P.src(n.func) != 'self._tag_stack.append':
            calls.append(P.enclosing_stmt(n))
    if len(mut) != 2 or not calls:
        raise AnalysisError('push_tag: expected one stack append, one indent increment and the call that writes the start tag')
    for c in calls:
        for mu in mut:
            r4.check(not cfg.reaches(mu, c), 'push_tag: write start tag before recording it', rel, c.lineno,
                     'in push_tag `%s` can run after `%s`: if writing the start tag raises, the element is already on the '
                     'stack and an enclosing tagcontext closes a tag that was never opened' % (P.src(c), P.src(mu)),
                     detail='%s precedes %s' % (P.src(c), P.src(mu)))
    # pushed name == tag_name written
    r4.check(any(P.src(mu) == 'self._tag_stack.append(tag_name)' for mu in mut) and
             any(P.src(c).startswith('self._open_tag(tag_name') for c in calls),
             'push_tag: same name written and recorded', rel, push.lineno, 'the recorded tag name is not the one written')
    pop = py.func('xmlwriter', 'XMLWriter.pop_tag')
    body = [P.src(s) for s in pop.body]
    popped = [t.id for t, v, s_ in P.stores_in(pop) if isinstance(t, ast.Name) and P.src(v) == 'self._tag_stack.pop()']
    closes = [c for c in P.calls_in(pop) if P.call_name(c) == 'self._close_tag']
    r4.check(len(popped) == 1 and len(closes) == 1 and P.src(closes[0].args[0]) == popped[0], 'pop_tag closes the innermost open element',
             rel, pop.lineno, 'pop_tag does not close the element popped from the top of the stack: %s' % body)
    inc = [P.src(n.value) for n in P.walk_no_nested(push) if isinstance(n, ast.AugAssign) and isinstance(n.op, ast.Add)]
    dec = [P.src(n.value) for n in P.walk_no_nested(pop) if isinstance(n, ast.AugAssign) and isinstance(n.op, ast.Sub)]
    r4.check(inc == dec and len(inc) == 1, 'indent symmetric', rel, pop.lineno, 'indent +%s / -%s' % (inc, dec))
    tc = py.func('xmlwriter', 'XMLWriter.tagcontext')
    deco = [P.src(d) for d in tc.decorator_list]
    tries = [n for n in tc.body if isinstance(n, ast.Try)]
    ok = deco == ['contextmanager'] and m.imports.get('contextmanager') == ('ext:contextlib', 'contextmanager') and len(tries) == 1
    if ok:
        t = tries[0]
        before = [P.src(s) for s in tc.body[:tc.body.index(t)]]
        ok = before == ['self.push_tag(tag_name, attributes)'] \
            and len(t.body) == 1 and isinstance(t.body[0], ast.Expr) and isinstance(t.body[0].value, ast.Yield) \
            and not t.handlers and [P.src(s) for s in t.finalbody] == ['self.pop_tag()'] \
            and tc.body[-1] is t
    r4.check(ok, 'tagcontext = push; try: yield; finally: pop', rel, tc.lineno,
             'tagcontext no longer guarantees the close tag when the body raises')
    # who may call push/pop/_open/_close
    offenders = []
    for mod in py.all_modules():
        for n in ast.walk(mod.tree):
            if isinstance(n, ast.Attribute) and n.attr in ('push_tag', 'pop_tag', '_open_tag', '_close_tag', '_tag_stack'):
                fn = P.enclosing_function(n)
                where = (mod.rel, fn.name if fn else '<module>', n.attr)
                allowed = mod.rel == rel and where[1:] in (
                    ('push_tag', '_open_tag'), ('push_tag', '_tag_stack'), ('pop_tag', '_close_tag'), ('pop_tag', '_tag_stack'),
                    ('tagcontext', 'push_tag'), ('tagcontext', 'pop_tag'), ('__init__', '_tag_stack'))
                if not allowed:
                    offenders.append('%s:%d %s in %s' % (mod.rel, n.lineno, n.attr, where[1]))
    r4.check(not offenders, 'who may push/pop', rel, 1,
             'element stack manipulated outside push_tag/pop_tag/tagcontext: %s' % offenders, detail='no other caller in giscanner/*.py')
    # positive control for the who-may-call matcher
    fx = ast.parse(open(__file__.rsplit('/gilint/', 1)[0] + '/fixtures/c20_pushpop.py').read())
    hits = [n for n in ast.walk(fx) if isinstance(n, ast.Attribute) and n.attr in ('push_tag', 'pop_tag')]
    if len(hits) != 2:
        raise AnalysisError('who-may-call matcher self-test failed on fixtures/c20_pushpop.py')

    # ------------------------------------------------------------------ R5 encoding agreement
    r5 = ctx.rule('R5', 'declared encoding = encoding used (utf-8), XML declaration first', floor=3)
    init = py.func('xmlwriter', 'XMLWriter.__init__')
    decl = [py.try_fold(c.args[0], m) for c in P.calls_in(init) if P.src(c.func) == 'self._data.write']
    r5.check(len(decl) == 1 and isinstance(decl[0], str) and decl[0].startswith('<?xml version="1.0"') and
             'encoding="utf-8"' in decl[0].lower() and decl[0].endswith('?>\n'), 'XML declaration', rel, init.lineno,
             'XML declaration written: %r' % decl, detail=decl)
    ge = py.func('xmlwriter', 'XMLWriter.get_encoded_xml')
    enc = [py.try_fold(c.args[0], m) for c in P.calls_in(ge) if isinstance(c.func, ast.Attribute) and c.func.attr == 'encode' and c.args]
    r5.check([str(e).lower() for e in enc] == ['utf-8'], 'get_encoded_xml encoding', rel, ge.lineno, 'document encoded as %s' % enc)
    dec = []
    for fn in (py.func('xmlwriter', 'build_xml_tag'), wl):
        for c in P.calls_in(fn):
            if isinstance(c.func, ast.Attribute) and c.func.attr == 'decode':
                dec.append(str(py.try_fold(c.args[0], m) if c.args else 'utf-8').lower())
    r5.check(dec and all(d == 'utf-8' for d in dec), 'bytes input decoding', rel, 1, 'bytes are decoded as %s' % dec, detail=dec)
