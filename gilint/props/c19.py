"""C19 — library names resolve to the right shared objects or fail loudly."""
import ast
import re

from ..core import AnalysisError
from .. import pyfront as P
from .. import pycfg
from .. import rx, gsa, strfrag

EXPLANATION = ('The ldd pattern is folded from the source, parsed with CPython\'s own regex parser, turned into '
               'an automaton with the library name as an opaque symbol, and compared for LANGUAGE EQUIVALENCE '
               'with the rule stated in the property (exhaustive over all words and, by homomorphism, all names). '
               'Structural rules cover the matching loop (header lines skipped, first match wins, one file per '
               'request, base name reported), the loud failure on any unresolved name, absence of handlers that '
               'could swallow the SystemExit, and the libtool dlname pattern.')

NAME = 0xE000  # private-use code point standing for the (escaped) library name

# The property's rule: optional directory prefix ending in '/', then lib<name>, then one character that is
# not a letter, digit, underscore, hyphen (nor '/'), then no '/' up to the end.
REFERENCE = '^(.*/)?lib' + chr(NAME) + '[^/A-Za-z0-9_-][^/]*$'


def nonempty_test(test, name):
    """does `test` mean "the collection `name` is non-empty"?  returns True / False(=means empty) / None"""
    t = P.src(test)
    pos = {'len(%s) > 0' % name, name, 'len(%s) != 0' % name, 'len(%s) >= 1' % name, 'bool(%s)' % name,
           '0 < len(%s)' % name, 'len(%s)' % name}
    neg = {'len(%s) == 0' % name, 'not %s' % name, 'not len(%s)' % name, 'len(%s) < 1' % name, '0 == len(%s)' % name}
    if t in pos:
        return True
    if t in neg:
        return False
    return None


def check(ctx):
    py = ctx.py
    m = py.mod('shlibs')
    rel = m.rel

    # ---------------------------------------------------------------- R1 the pattern's language
    r1 = ctx.rule('R1', 'ldd pattern language == property rule (automaton equivalence, name symbolic)', floor=3)
    f = py.func('shlibs', '_ldd_library_pattern')
    if len(f.args.args) != 1:
        raise AnalysisError('_ldd_library_pattern: expected one parameter')
    param = f.args.args[0].arg
    LP = gsa.Summary(py, 'shlibs', '_ldd_library_pattern', inline_only=())
    rets = [n for g_, n in LP.returns]
    if len(rets) != 1 or not isinstance(rets[0], ast.Call) or P.call_name(rets[0]) != 're.compile':
        raise AnalysisError('_ldd_library_pattern: expected a single `return re.compile(...)`')
    call = rets[0]
    call.lineno = f.lineno
    pat = call.args[0]

    class _FoldNames(ast.NodeTransformer):
        def visit_Name(self, n):
            v_ = py.try_fold(n, m)
            if isinstance(v_, str) and n.id != param:
                return ast.Constant(value=v_)
            return n
    pat = _FoldNames().visit(pat)
    flags = 0
    if len(call.args) > 1:
        flags = py.fold(call.args[1], m)
    for k in call.keywords:
        if k.arg == 'flags':
            flags = py.fold(k.value, m)
    # the pattern text: literal pieces around the (escaped) library name
    parts = []
    esc_ok = True
    n_slots = 0
    for seq in strfrag.sequences(strfrag.flatten(pat))[:1]:
        for fr_ in seq:
            if fr_[0] == 'const':
                parts.append(fr_[1])
            elif fr_[0] == 'expr':
                v_ = py.try_fold(fr_[1], m)
                if isinstance(v_, str):
                    parts.append(v_)
                    continue
                a_ = fr_[1]
                n_slots += 1
                okslot = isinstance(a_, ast.Call) and P.call_name(a_) == 're.escape' and len(a_.args) == 1 and isinstance(a_.args[0], ast.Name) and a_.args[0].id == param
                esc_ok = esc_ok and okslot
                if not okslot and not (isinstance(a_, ast.Name) and a_.id == param):
                    raise AnalysisError('_ldd_library_pattern: pattern contains a non-constant piece other than the library name: %s' % gsa._unparse(a_))
                parts.append(chr(NAME))
            else:
                raise AnalysisError('_ldd_library_pattern: pattern is not a concatenation of constant pieces and the library name')
    if n_slots != 1:
        raise AnalysisError('_ldd_library_pattern: pattern is not a constant template with one slot for the library name')
    template = ''.join(parts).replace(chr(NAME), '%s')
    if template.count('%s') != 1:
        raise AnalysisError('_ldd_library_pattern: pattern is not a constant template with one %s slot')
    r1.check(esc_ok and m.imports.get('re') == ('ext:re', None), 'library name is regex-escaped', rel, call.lineno,
             'the requested name is substituted into the pattern without re.escape(): names with regex '
             'metacharacters (libstdc++, gtk+-2.0) change the pattern', detail='re.escape(%s)' % param)
    pattern = ''.join(parts)
    try:
        got = rx.Language(pattern, flags, 'match', symbols=[NAME])
        ref = rx.Language(REFERENCE, 0, 'match', symbols=[NAME])
        diff = rx.compare(got, ref)
        st = rx.stats(got, ref)
    except rx.RxError as e:
        raise AnalysisError('ldd pattern uses a regex construct the automaton builder does not support: %s' % e)
    if diff is None:
        r1.ok('language equivalence', rel, call.lineno, detail={'reference': REFERENCE.replace(chr(NAME), '<NAME>'), 'automata': st})
    else:
        word, side = diff
        shown = word.replace(chr(NAME), '<NAME>')
        r1.fail('language equivalence', rel, call.lineno,
                'pattern is not equivalent to the documented rule: the word %r is accepted only by %s '
                '(the source pattern = first, the property rule = second)' % (shown, side))
    r1.exhaustive = True
    # the pattern is used with .match() on whitespace-split words of each line
    g = py.func('shlibs', 'resolve_from_ldd_output')
    G = gsa.Summary(py, 'shlibs', 'resolve_from_ldd_output', inline_module_funcs=True, opaque=('_ldd_library_pattern',))
    mcalls = [e for e in G.effects if e.kind == 'call' and re.search(r'\.(match|search|fullmatch|findall)$', e.target)]
    r1.check(len(mcalls) >= 1 and all(e.target.endswith('.match') for e in mcalls), 'pattern applied with match()', rel, g.lineno,
             'pattern is applied with %s' % [e.target.rsplit('.', 1)[-1] for e in mcalls], detail=[e.value for e in mcalls])

    # ---------------------------------------------------------------- R2 matching loop
    r2 = ctx.rule('R2', 'header lines skipped; first match wins; one file per request; base name reported', floor=7)
    pat_store = [e for e in G.effects if e.kind == 'store' and re.match(r'^\w+\[\w+\]$', e.target) and e.value.startswith('_ldd_library_pattern(')]
    if len(pat_store) != 1:
        raise AnalysisError('resolve_from_ldd_output: patterns[...] = _ldd_library_pattern(...) not found')
    ps = pat_store[0]
    pname, pkey = re.match(r'^(\w+)\[(\w+)\]$', ps.target).groups()
    r2.check(ps.value == '_ldd_library_pattern(%s)' % pkey, 'pattern keyed by its library', rel, ps.line, 'pattern %s stored under key %s' % (ps.value, pkey))
    ISFILE = 'os.path.isfile(%s)' % pkey
    want_ps = gsa.conj(*[gsa.atom(a_) for a_ in gsa.atoms(ps.cond) if a_.startswith('@iter:')] + [gsa.neg(gsa.atom(ISFILE))])
    r2.check(gsa.equiv(ps.cond, want_ps), 'every requested name that is not an existing file is looked for', rel, ps.line,
             'a pattern is registered only when %s: a requested name that is not a regular file (e.g. happens to be the name of a directory) is dropped silently '
             'instead of being resolved or reported' % gsa.show(ps.cond)[:200], detail=gsa.show(ps.cond)[:200])
    if not mcalls:
        raise AnalysisError('no match call')

    def is_pat_loop(l):
        """a loop over the outstanding patterns: the dict itself, its keys or its items (possibly copied into a list)"""
        return re.match(r'^(list\()?%s(\.items\(\)|\.keys\(\))?\)?$' % re.escape(pname), l) is not None
    outp = [a_.arg for a_ in g.args.args][-1]
    for mc in mcalls:
        lp = mc.loops
        okl = len(lp) == 3 and lp[0] == '%s.splitlines()' % outp and re.match(r'^\w+\.split\(\)$', lp[1]) and is_pat_loop(lp[2])
        r2.check(lp[:1] == ('%s.splitlines()' % outp,), 'lines in listed order', rel, mc.line, 'lines are not walked in the order listed: %s' % (lp[:1],))
        r2.check(bool(okl), 'words then outstanding patterns', rel, mc.line,
                 'match is not tried for every whitespace-separated word against every outstanding pattern: %s' % (lp,), detail=list(lp))
        linev = lp[1].split('.')[0] if len(lp) > 1 else '?'
        HDR = r"^%s\.endswith\(':'\)$" % re.escape(linev)
        r2.check(gsa.impossible(G, mc, [(HDR, True)]) and gsa.allowed(G, mc, [(HDR, False), (r'^@', True)]), 'header line skipped', rel, mc.line,
                 'lines ending in ":" (the binary\'s own name) are not skipped before matching (match reached when %s)' % mc.when()[:160])
        r2.check(len(mc.args) == 1 and re.match(r'^\w+$', mc.args[0]) and mc.args[0] not in (linev, outp), 'matched text is the word', rel, mc.line, 'match() is applied to %s' % mc.args)
    # on match: delete the pattern, append the matched word, stop trying patterns for this word
    dels = [e for e in G.effects if e.kind == 'del' and re.match(r'^%s\[\w+\]$' % re.escape(pname), e.target)]
    # the other way of retiring a satisfied request: it is recorded in a set of resolved names, and a name in that set is never matched again
    retired_set = None
    if not dels:
        for e in gsa.find(G, 'call', r'^\w+\.add$'):
            sname = e.target.split('.')[0]
            member = [a_ for a_ in G.atoms() if re.match(r'^\w+ in %s$' % re.escape(sname), a_)]
            if e.args and member and e.args[0] == member[0].split(' in ')[0] and all(gsa.impossible(G, mc, [(r'^%s$' % re.escape(member[0]), True)]) for mc in mcalls):
                dels.append(e)
                retired_set = sname
    MATCHED = r'\.match\(\w+\)( is None)?$'
    r2.check(len(dels) >= 1 and all(gsa.impossible(G, e, [(MATCHED, 'A')]) and any(re.match(r'^\w+\.split\(\)$', l) for l in e.loops) for e in dels), 'satisfied request removed', rel, dels[0].line if dels else g.lineno,
             'a satisfied request stays outstanding (later files could replace the first listed one): deletions %s' % [(e.target, e.when()[:100]) for e in dels])
    appends = [e for e in G.effects if e.kind == 'call' and e.target.endswith('.append') and e.args and (re.search(r'\.match\(\w+\)\.group\(0?\)$', e.args[0]) or
                                                                                                         (mcalls and e.args[0] == mcalls[0].args[0]))]
    r2.check(len(appends) >= 1 and all(gsa.impossible(G, e, [(MATCHED, 'A')]) for e in appends), 'whole matched word recorded', rel, appends[0].line if appends else g.lineno,
             'recorded values: %s' % [e.value for e in G.effects if e.kind == 'call' and e.target.endswith('.append')])
    stops = [e for e in G.effects if e.kind in ('break', 'return') and any(is_pat_loop(l) for l in e.loops)]
    r2.check(bool(dels) and all(any(gsa.implies(d.cond, x.cond) for x in stops) for d in dels), 'one file satisfies one request', rel, dels[0].line if dels else g.lineno,
             'after a match the remaining patterns are still tried against the same file')
    # base name
    s = py.func('shlibs', 'sanitize_shlib_path')
    SS = gsa.Summary(py, 'shlibs', 'sanitize_shlib_path', inline_only=())
    nd = gsa.returns_under(SS, gsa.decide_by([(r"^sys\.platform == 'darwin'$", False)]))
    r2.check([x[0] for x in nd] == ['os.path.basename(%s)' % SS.P(0)], 'reported by base name', rel, s.lineno, 'on non-darwin platforms the result is %s, not os.path.basename(lib)' % [x[0] for x in nd])
    nl = py.func('shlibs', '_resolve_non_libtool')
    NL = gsa.Summary(py, 'shlibs', '_resolve_non_libtool', inline_module_funcs=True, opaque=('resolve_from_ldd_output', 'sanitize_shlib_path', '_ldd_library_pattern'))
    vals = [gsa._unparse(n) for g_, n in NL.returns if 'resolve_from_ldd_output(' in gsa._unparse(n)]
    okm = len(vals) >= 1 and all(re.match(r'^list\(map\(sanitize_shlib_path, resolve_from_ldd_output\(.*\)\)\)$', v_) or
                                 re.match(r'^\[sanitize_shlib_path\((\w+)\) for \1 in resolve_from_ldd_output\(.*\)\]$', v_) for v_ in vals)
    r2.check(okm, 'every resolved path sanitised', rel, nl.lineno, 'results of resolve_from_ldd_output are not all passed through sanitize_shlib_path: %s' % vals)

    # ---------------------------------------------------------------- R3 loud failure
    r3 = ctx.rule('R3', 'any unresolved name -> SystemExit naming it; nothing swallows it', floor=4)
    LEFT = r'^%s$' % re.escape(pname)
    if retired_set is not None:
        # outstanding requests = the requested names that are not in the resolved set
        LEFT = r'^\[(\w+) for \1 in %s if \1 not in %s\]$' % (re.escape(pname), re.escape(retired_set))
    raises = [e for e in G.effects if e.kind == 'raise' and e.value.startswith('SystemExit(')]
    ok = any(not e.loops and gsa.impossible(G, e, [(LEFT, False)]) and gsa.allowed(G, e, [(LEFT, True)]) and
             [a_ for a_ in gsa.atoms(e.cond) if not a_.startswith('@') and not re.match(LEFT, a_) and not re.match(r'^%s$' % re.escape(G.P(0)), a_) and a_ != pname] == [] for e in raises)
    r3.check(ok, 'raise SystemExit when requests remain', rel, g.lineno,
             'there is no `raise SystemExit` reached exactly when some requested library is still unresolved (%s non-empty): %s' % (pname, [e.when()[:120] for e in raises]))
    msg_ok = any(re.search(r'join\((list\()?%s(\.keys\(\))?\)?\)' % re.escape(pname), e.value) or ('%s.keys()' % pname) in e.value or
                 (retired_set is not None and re.search(r'join\(\[(\w+) for \1 in %s if \1 not in %s\]\)' % (re.escape(pname), re.escape(retired_set)), e.value)) for e in raises)
    if not msg_ok and retired_set is not None:
        left_locals = [t.id for t, v, st in P.stores_in(g) if isinstance(t, ast.Name) and re.match(LEFT, gsa._unparse(v))]
        msg_ok = any(re.search(r'join\((%s)\)' % '|'.join(map(re.escape, left_locals)), e.value) for e in raises) if left_locals else False
    r3.check(msg_ok, 'error names the unresolved libraries', rel, g.lineno, 'the SystemExit message does not list the unresolved names')
    for ret in [e for e in G.effects if e.kind == 'return' and e.fn == 'resolve_from_ldd_output']:
        early = ret.seq < ps.seq
        r3.check(not ret.loops and (early or gsa.impossible(G, ret, [(LEFT, True)]) or gsa.impossible(G, ret, [(r'^%s$' % re.escape(pname), True)])), 'return only with nothing unresolved', rel, ret.line,
                 'resolve_from_ldd_output can return normally while requested libraries are unresolved: returns when %s' % ret.when()[:200], detail=ret.when()[:200])
    # nothing on the way to scanner_main swallows SystemExit
    offenders = []
    for mod in py.all_modules():
        for n in ast.walk(mod.tree):
            if isinstance(n, ast.ExceptHandler):
                t_ = P.src(n.type) if n.type is not None else '<bare>'
                if n.type is None or 'BaseException' in t_ or 'SystemExit' in t_:
                    reraises = any(isinstance(x, ast.Raise) and x.exc is None for x in ast.walk(n))
                    if not reraises:
                        offenders.append('%s:%d except %s' % (mod.rel, n.lineno, t_))
    r3.check(not offenders, 'no handler can swallow SystemExit', rel, 1,
             'handlers that catch SystemExit/BaseException without re-raising: %s' % offenders,
             detail='no bare/BaseException/SystemExit handler in giscanner/*.py')
    fx = ast.parse(open(__file__.rsplit('/gilint/', 1)[0] + '/fixtures/c19_swallow.py').read())
    if len([n for n in ast.walk(fx) if isinstance(n, ast.ExceptHandler) and n.type is None]) != 1:
        raise AnalysisError('handler matcher self-test failed')
    # the scanner passes the result on and calls resolve_shlibs unconditionally for the libraries given
    sm = py.mod('scannermain')
    calls = []
    for n in ast.walk(sm.tree):
        if isinstance(n, ast.Call) and P.call_name(n) == 'resolve_shlibs':
            calls.append(n)
    r3.check(len(calls) == 1 and P.src(calls[0].args[-1]) == 'options.libraries' and not any(
        isinstance(a, ast.Try) for a in _ancestors(calls[0])), 'scanner resolves all requested libraries', sm.rel,
        calls[0].lineno if calls else 1, 'resolve_shlibs is not called on options.libraries outside any try block')

    # ---------------------------------------------------------------- R4 libtool
    r4 = ctx.rule('R4', 'libtool archives resolve to the base name of their dlname', floor=3)
    um = py.mod('utils')
    # the dlname pattern: the module-level re.compile whose text names the `dlname=` field (whatever the constant is called)
    dl_names = [k for k, v in um.assigns.items() if v and isinstance(v[0], ast.Call) and P.call_name(v[0]) == 're.compile' and v[0].args
                and isinstance(py.try_fold(v[0].args[0], um), str) and py.try_fold(v[0].args[0], um).startswith('dlname=')]
    if len(dl_names) != 1:
        raise AnalysisError('utils: the compiled pattern for the dlname field was not found uniquely (%s)' % dl_names)
    DLPAT = dl_names[0]
    pv = um.assigns.get(DLPAT)
    ptxt = py.fold(pv[0].args[0], um)
    try:
        tree = rx.parse(ptxt)
    except rx.RxError as e:
        raise AnalysisError(str(e))
    gd = dict(tree.state.groupdict)
    # shape: dlname=' ( class+ ) '\n ; the class must contain every character a shared-object file name can have
    mm = re.match(r"^dlname='\((\[.*\])\+\)'\n$", ptxt)
    ok = bool(mm)
    missing = []
    if ok:
        cls = re.compile(mm.group(1))
        for ch in 'abcdefghijklmnopqrstuvwxyzABCDEFGHIJKLMNOPQRSTUVWXYZ0123456789._-+':
            if not cls.fullmatch(ch):
                missing.append(ch)
        extra = [ch for ch in "'/ \n\"" if cls.fullmatch(ch)]
        ok = not extra
    r4.check(ok and not missing, 'dlname pattern covers file-name characters', um.rel, pv[0].lineno,
             "dlname pattern %r does not accept every file-name character (letters, digits, . _ - +): missing %r"
             % (ptxt, ''.join(missing)), detail={'pattern': ptxt})
    ef = py.func('utils', '_extract_dlname_field')
    EF = gsa.Summary(py, 'utils', '_extract_dlname_field', inline_module_funcs=True)
    src_ = sorted(set(gsa._unparse(n) for g_, n in EF.returns))
    r4.check(len(src_) == 2 and 'None' in src_ and any(re.search(r'^%s\.search\(.*\)\.(groups\(\)\[0\]|group\(1\))$' % re.escape(DLPAT), x) for x in src_), 'dlname capture returned', um.rel, ef.lineno,
             '_extract_dlname_field returns %s' % src_)
    xf = py.func('utils', 'extract_libtool_shlib')
    XF = gsa.Summary(py, 'utils', 'extract_libtool_shlib', inline_only=())
    nd = gsa.returns_under(XF, gsa.decide_by([(r"^platform\.system\(\) == 'Darwin'$", False), (r'^_extract_dlname_field\(.*\) is None$', False)]))
    r4.check([x[0] for x in nd] == ['os.path.basename(_extract_dlname_field(%s))' % XF.P(0)], 'libtool result is a base name', um.rel, xf.lineno,
             'extract_libtool_shlib returns %s' % [x[0] for x in nd])


def _ancestors(n):
    n = P.parent(n)
    while n is not None:
        yield n
        n = P.parent(n)
