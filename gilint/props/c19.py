"""C19 — library names resolve to the right shared objects or fail loudly."""
import ast
import re

from ..core import AnalysisError
from .. import pyfront as P
from .. import pycfg
from .. import rx

EXPLANATION = ('The ldd pattern is folded from the source, parsed with CPython\'s own regex parser, turned into '
               'an automaton with the library name as an opaque symbol, and compared for LANGUAGE EQUIVALENCE '
               'with the rule stated in the property (exhaustive over all words and, by homomorphism, all names). '
               'Structural rules cover the matching loop (header lines skipped, first match wins, one file per '
               'request, base name reported), the loud failure on any unresolved name, absence of handlers that '
               'could swallow the SystemExit, and the libtool dlname pattern.')

NAME = 0xE000  # private-use code point standing for the (escaped) library name

# The property's rule: optional directory prefix ending in '/', then lib<name>, then one character that is
# not a letter, digit, underscore, hyphen (nor '/'), then no '/' up to the end.
REFERENCE = '^(.*/)?lib' + chr(NAME) + '[^/A-Za-z0-9_-][^/]*$'


def nonempty_test(test, name):
    """does `test` mean "the collection `name` is non-empty"?  returns True / False(=means empty) / None"""
    t = P.src(test)
    pos = {'len(%s) > 0' % name, name, 'len(%s) != 0' % name, 'len(%s) >= 1' % name, 'bool(%s)' % name,
           '0 < len(%s)' % name, 'len(%s)' % name}
    neg = {'len(%s) == 0' % name, 'not %s' % name, 'not len(%s)' % name, 'len(%s) < 1' % name, '0 == len(%s)' % name}
    if t in pos:
        return True
    if t in neg:
        return False
    return None


def check(ctx):
    py = ctx.py
    m = py.mod('shlibs')
    rel = m.rel

    # ---------------------------------------------------------------- R1 the pattern's language
    r1 = ctx.rule('R1', 'ldd pattern language == property rule (automaton equivalence, name symbolic)', floor=3)
    f = py.func('shlibs', '_ldd_library_pattern')
    if len(f.args.args) != 1:
        raise AnalysisError('_ldd_library_pattern: expected one parameter')
    param = f.args.args[0].arg
    rets = [n for n in P.walk_no_nested(f) if isinstance(n, ast.Return)]
    if len(rets) != 1 or not isinstance(rets[0].value, ast.Call) or P.call_name(rets[0].value) != 're.compile':
        raise AnalysisError('_ldd_library_pattern: expected a single `return re.compile(...)`')
    call = rets[0].value
    pat = call.args[0]
    flags = 0
    if len(call.args) > 1:
        flags = py.fold(call.args[1], m)
    for k in call.keywords:
        if k.arg == 'flags':
            flags = py.fold(k.value, m)
    # template % re.escape(param)
    template = None
    esc_ok = False
    if isinstance(pat, ast.BinOp) and isinstance(pat.op, ast.Mod):
        template = py.try_fold(pat.left, m)
        arg = pat.right
        if isinstance(arg, ast.Tuple) and len(arg.elts) == 1:
            arg = arg.elts[0]
        esc_ok = isinstance(arg, ast.Call) and P.call_name(arg) == 're.escape' and len(arg.args) == 1 \
            and isinstance(arg.args[0], ast.Name) and arg.args[0].id == param
    elif isinstance(pat, ast.JoinedStr):
        parts = []
        esc_ok = True
        for v in pat.values:
            if isinstance(v, ast.Constant):
                parts.append(v.value.replace('%', '%%'))
            else:
                a = v.value
                ok = isinstance(a, ast.Call) and P.call_name(a) == 're.escape' and len(a.args) == 1 \
                    and isinstance(a.args[0], ast.Name) and a.args[0].id == param
                esc_ok = esc_ok and ok
                parts.append('%s')
        template = ''.join(parts)
    if not isinstance(template, str) or template.count('%s') != 1:
        raise AnalysisError('_ldd_library_pattern: pattern is not a constant template with one %s slot')
    r1.check(esc_ok and m.imports.get('re') == ('ext:re', None), 'library name is regex-escaped', rel, call.lineno,
             'the requested name is substituted into the pattern without re.escape(): names with regex '
             'metacharacters (libstdc++, gtk+-2.0) change the pattern', detail='re.escape(%s)' % param)
    pattern = template % chr(NAME)
    try:
        got = rx.Language(pattern, flags, 'match', symbols=[NAME])
        ref = rx.Language(REFERENCE, 0, 'match', symbols=[NAME])
        diff = rx.compare(got, ref)
        st = rx.stats(got, ref)
    except rx.RxError as e:
        raise AnalysisError('ldd pattern uses a regex construct the automaton builder does not support: %s' % e)
    if diff is None:
        r1.ok('language equivalence', rel, call.lineno, detail={'reference': REFERENCE.replace(chr(NAME), '<NAME>'), 'automata': st})
    else:
        word, side = diff
        shown = word.replace(chr(NAME), '<NAME>')
        r1.fail('language equivalence', rel, call.lineno,
                'pattern is not equivalent to the documented rule: the word %r is accepted only by %s '
                '(the source pattern = first, the property rule = second)' % (shown, side))
    r1.exhaustive = True
    # the pattern is used with .match() on whitespace-split words of each line
    g = py.func('shlibs', 'resolve_from_ldd_output')
    mcalls = [c for c in P.calls_in(g) if isinstance(c.func, ast.Attribute) and c.func.attr in ('match', 'search', 'fullmatch', 'findall')]
    r1.check(len(mcalls) == 1 and mcalls[0].func.attr == 'match', 'pattern applied with match()', rel, g.lineno,
             'pattern is applied with %s' % [c.func.attr for c in mcalls], detail=[P.src(c) for c in mcalls])

    # ---------------------------------------------------------------- R2 matching loop
    r2 = ctx.rule('R2', 'header lines skipped; first match wins; one file per request; base name reported', floor=7)
    # patterns dict: name -> _ldd_library_pattern(name)
    pat_store = [(t, v, st) for t, v, st in P.stores_in(g) if isinstance(t, ast.Subscript) and isinstance(v, ast.Call)
                 and P.call_name(v) == '_ldd_library_pattern']
    if len(pat_store) != 1:
        raise AnalysisError('resolve_from_ldd_output: patterns[...] = _ldd_library_pattern(...) not found')
    t, v, st = pat_store[0]
    pname = P.src(t.value)
    r2.check(P.src(t.slice) == P.src(v.args[0]), 'pattern keyed by its library', rel, st.lineno,
             'pattern for %s stored under key %s' % (P.src(v.args[0]), P.src(t.slice)))
    # line loop
    line_loops = [n for n in P.walk_no_nested(g) if isinstance(n, ast.For) and 'splitlines' in P.src(n.iter)]
    if len(line_loops) != 1:
        raise AnalysisError('resolve_from_ldd_output: loop over output.splitlines() not found')
    ll = line_loops[0]
    r2.check(P.src(ll.iter) == 'output.splitlines()' and isinstance(ll.target, ast.Name), 'lines in listed order', rel, ll.lineno,
             'lines are not walked in the order listed: %s' % P.src(ll.iter))
    lv = ll.target.id
    first = ll.body[0]
    ok = isinstance(first, ast.If) and P.src(first.test) == "%s.endswith(':')" % lv and len(first.body) == 1 \
        and isinstance(first.body[0], ast.Continue) and not first.orelse
    r2.check(ok, 'header line skipped', rel, ll.lineno, 'lines ending in ":" (the binary\'s own name) are not skipped before matching')
    mc = mcalls[0] if mcalls else None
    if mc is None:
        raise AnalysisError('no match call')
    # match inside: for word in line.split(): for library, pattern in patterns.items():
    loops = []
    n = P.parent(mc)
    while n is not None and n is not ll:
        if isinstance(n, ast.For):
            loops.append(n)
        n = P.parent(n)
    r2.check(len(loops) == 2 and P.src(loops[1].iter) == '%s.split()' % lv and P.src(loops[0].iter) == '%s.items()' % pname,
             'words then outstanding patterns', rel, mc.lineno,
             'match is not tried for every whitespace-separated word against every outstanding pattern: %s'
             % [P.src(l.iter) for l in loops], detail=[P.src(l.iter) for l in loops])
    word = loops[1].target.id if len(loops) == 2 and isinstance(loops[1].target, ast.Name) else None
    r2.check(word is not None and [P.src(a) for a in mc.args] == [word], 'matched text is the word', rel, mc.lineno,
             'match() is applied to %s' % [P.src(a) for a in mc.args])
    # on match: delete the pattern, append m.group(), break
    mvar = None
    stm = P.enclosing_stmt(mc)
    if isinstance(stm, ast.Assign) and isinstance(stm.targets[0], ast.Name):
        mvar = stm.targets[0].id
    hit = None
    if mvar and len(loops) == 2:
        for s_ in loops[0].body:
            if isinstance(s_, ast.If) and P.src(s_.test) in (mvar, '%s is not None' % mvar):
                hit = s_
    if hit is None:
        raise AnalysisError('resolve_from_ldd_output: `if m:` block not found')
    body = [P.src(s_) for s_ in hit.body]
    lib = loops[0].target.elts[0].id if isinstance(loops[0].target, ast.Tuple) else '?'
    r2.check('del %s[%s]' % (pname, lib) in body, 'satisfied request removed', rel, hit.lineno,
             'a satisfied request stays outstanding (later files could replace the first listed one): %s' % body)
    appends = [c for c in ast.walk(hit) if isinstance(c, ast.Call) and isinstance(c.func, ast.Attribute) and c.func.attr == 'append']
    r2.check(len(appends) == 1 and P.src(appends[0].args[0]) in ('%s.group()' % mvar, '%s.group(0)' % mvar, word),
             'whole matched word recorded', rel, hit.lineno, 'recorded value is %s' % [P.src(a.args[0]) for a in appends])
    r2.check(isinstance(hit.body[-1], ast.Break), 'one file satisfies one request', rel, hit.lineno,
             'after a match the remaining patterns are still tried against the same file')
    result_list = P.src(appends[0].func.value) if appends else None
    # base name
    s = py.func('shlibs', 'sanitize_shlib_path')
    rets_ = [n for n in P.walk_no_nested(s) if isinstance(n, ast.Return)]
    non_darwin = [r_ for r_ in rets_ if any(x.text() == "not (sys.platform == 'darwin')" for x in P.guards(r_))]
    r2.check(len(non_darwin) == 1 and P.src(non_darwin[0].value) == 'os.path.basename(lib)', 'reported by base name', rel, s.lineno,
             'on non-darwin platforms the result is not os.path.basename(lib)')
    nl = py.func('shlibs', '_resolve_non_libtool')
    okm = any(P.src(r_.value) == 'list(map(sanitize_shlib_path, shlibs))' for r_ in P.walk_no_nested(nl) if isinstance(r_, ast.Return)) \
        and any(P.src(v_) == 'resolve_from_ldd_output(libraries, output)' and P.src(t_) == 'shlibs' for t_, v_, s_ in P.stores_in(nl))
    r2.check(okm, 'every resolved path sanitised', rel, nl.lineno, 'results of resolve_from_ldd_output are not all passed through sanitize_shlib_path')

    # ---------------------------------------------------------------- R3 loud failure
    r3 = ctx.rule('R3', 'any unresolved name -> SystemExit naming it; nothing swallows it', floor=4)
    cfg = pycfg.CFG(g)
    raises = [n for n in P.walk_no_nested(g) if isinstance(n, ast.Raise)]
    ok = False
    msg_ok = False
    for r_ in raises:
        gs = [x for x in P.guards(r_) if x.kind == 'if']
        if len(gs) == 1 and nonempty_test(gs[0].test, pname) is True and isinstance(r_.exc, ast.Call) \
                and P.call_name(r_.exc) == 'SystemExit':
            ok = True
            msg_ok = '%s.keys()' % pname in P.src(r_.exc) or 'join(%s)' % pname in P.src(r_.exc)
    r3.check(ok, 'raise SystemExit when requests remain', rel, g.lineno,
             'there is no `raise SystemExit` guarded exactly by "some requested library is still unresolved" (%s non-empty): %s'
             % (pname, [[x.text() for x in P.guards(r_)] for r_ in raises]))
    r3.check(msg_ok, 'error names the unresolved libraries', rel, g.lineno, 'the SystemExit message does not list the unresolved names')
    # every return either is the "nothing requested" early return or is reached only when patterns is empty
    for ret in [n for n in P.walk_no_nested(g) if isinstance(n, ast.Return)]:
        gs = [x for x in P.guards(ret) if x.kind in ('if', 'early')]
        empties = [x for x in gs if (nonempty_test(x.test, pname) is False and x.polarity) or
                   (nonempty_test(x.test, pname) is True and not x.polarity)]
        r3.check(bool(empties) and 'for' not in [x.kind for x in P.guards(ret)], 'return only with nothing unresolved', rel, ret.lineno,
                 'resolve_from_ldd_output can return normally while requested libraries are unresolved: guards=%s'
                 % [x.text() for x in gs], detail=[x.text() for x in gs])
    # nothing on the way to scanner_main swallows SystemExit
    offenders = []
    for mod in py.all_modules():
        for n in ast.walk(mod.tree):
            if isinstance(n, ast.ExceptHandler):
                t_ = P.src(n.type) if n.type is not None else '<bare>'
                if n.type is None or 'BaseException' in t_ or 'SystemExit' in t_:
                    reraises = any(isinstance(x, ast.Raise) and x.exc is None for x in ast.walk(n))
                    if not reraises:
                        offenders.append('%s:%d except %s' % (mod.rel, n.lineno, t_))
    r3.check(not offenders, 'no handler can swallow SystemExit', rel, 1,
             'handlers that catch SystemExit/BaseException without re-raising: %s' % offenders,
             detail='no bare/BaseException/SystemExit handler in giscanner/*.py')
    fx = ast.parse(open(__file__.rsplit('/gilint/', 1)[0] + '/fixtures/c19_swallow.py').read())
    if len([n for n in ast.walk(fx) if isinstance(n, ast.ExceptHandler) and n.type is None]) != 1:
        raise AnalysisError('handler matcher self-test failed')
    # the scanner passes the result on and calls resolve_shlibs unconditionally for the libraries given
    sm = py.mod('scannermain')
    calls = []
    for n in ast.walk(sm.tree):
        if isinstance(n, ast.Call) and P.call_name(n) == 'resolve_shlibs':
            calls.append(n)
    r3.check(len(calls) == 1 and P.src(calls[0].args[-1]) == 'options.libraries' and not any(
        isinstance(a, ast.Try) for a in _ancestors(calls[0])), 'scanner resolves all requested libraries', sm.rel,
        calls[0].lineno if calls else 1, 'resolve_shlibs is not called on options.libraries outside any try block')

    # ---------------------------------------------------------------- R4 libtool
    r4 = ctx.rule('R4', 'libtool archives resolve to the base name of their dlname', floor=3)
    um = py.mod('utils')
    pv = um.assigns.get('_libtool_pat')
    if not pv or P.call_name(pv[0]) != 're.compile':
        raise AnalysisError('utils._libtool_pat missing')
    ptxt = py.fold(pv[0].args[0], um)
    try:
        tree = rx.parse(ptxt)
    except rx.RxError as e:
        raise AnalysisError(str(e))
    gd = dict(tree.state.groupdict)
    # shape: dlname=' ( class+ ) '\n ; the class must contain every character a shared-object file name can have
    mm = re.match(r"^dlname='\((\[.*\])\+\)'\n$", ptxt)
    ok = bool(mm)
    missing = []
    if ok:
        cls = re.compile(mm.group(1))
        for ch in 'abcdefghijklmnopqrstuvwxyzABCDEFGHIJKLMNOPQRSTUVWXYZ0123456789._-+':
            if not cls.fullmatch(ch):
                missing.append(ch)
        extra = [ch for ch in "'/ \n\"" if cls.fullmatch(ch)]
        ok = not extra
    r4.check(ok and not missing, 'dlname pattern covers file-name characters', um.rel, pv[0].lineno,
             "dlname pattern %r does not accept every file-name character (letters, digits, . _ - +): missing %r"
             % (ptxt, ''.join(missing)), detail={'pattern': ptxt})
    ef = py.func('utils', '_extract_dlname_field')
    src_ = [P.src(n.value) for n in P.walk_no_nested(ef) if isinstance(n, ast.Return)]
    r4.check(sorted(src_) == ['None', 'm.groups()[0]'] or sorted(src_) == ['None', 'm.group(1)'], 'dlname capture returned', um.rel, ef.lineno,
             '_extract_dlname_field returns %s' % src_)
    xf = py.func('utils', 'extract_libtool_shlib')
    last = [n for n in P.walk_no_nested(xf) if isinstance(n, ast.Return)]
    last.sort(key=lambda n: n.lineno)
    r4.check(P.src(last[-1].value) == 'os.path.basename(dlname)', 'libtool result is a base name', um.rel, xf.lineno,
             'extract_libtool_shlib returns %s' % P.src(last[-1].value))


def _ancestors(n):
    n = P.parent(n)
    while n is not None:
        yield n
        n = P.parent(n)
