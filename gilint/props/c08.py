"""C08 — record and union layout stored in typelibs equals the platform C ABI (algorithm shape only)."""
import re

from ..core import AnalysisError
from .. import cfront as C

EXPLANATION = ('Only the layout ALGORITHM is in the source (the numbers come from libffi at run time).  clang AST rules over '
               'giroffsets.c, girffi.c, girnode.c, girparser.c: struct layout = align-to-member, record offset, advance, tail-pad; '
               'union layout = max size, max alignment, tail-pad; GI_ALIGN is the power-of-two round-up; a failing member poisons the '
               'whole layout (-1 / 0xFFFF); type tag -> machine type tables agree in width and signedness; fixed-size arrays in fields '
               'are embedded (never pointers) and sized count*element; callbacks are pointers.')

GO = 'girepository/giroffsets.c'
GF = 'girepository/girffi.c'
GN = 'girepository/girnode.c'
GP = 'girepository/girparser.c'


def ns(s):
    return re.sub(r'\s+', '', s or '')


def stmt_texts(tu, compound):
    return [ns(tu.text_of(s)) for s in C.kids(compound)]


def success_block(tu, f):
    """then-branch of `if (get_field_size_alignment (...))`"""
    for n in C.walk(tu.body(f)):
        if n.get('kind') == 'IfStmt':
            cond = C.kids(n)[0]
            if any(C.callee(c) == 'get_field_size_alignment' for c in C.calls(cond)) and ns(tu.text_of(cond)).startswith('get_field_size_alignment'):
                return n, C.kids(n)[1], (C.kids(n)[2] if len(C.kids(n)) > 2 else None)
    raise AnalysisError('%s: `if (get_field_size_alignment (...))` not found' % f.get('name'))


def check(ctx):
    tu = ctx.c.tu(GO)

    # ------------------------------------------------------------------ R1 layout algorithm
    r1 = ctx.rule('R1', 'struct: align, record offset, advance, tail-pad; union: max, max, tail-pad; GI_ALIGN rounds up', floor=11)
    m = re.search(r'#define\s+GI_ALIGN\s*\(\s*(\w+)\s*,\s*(\w+)\s*\)\s*(.*)', tu.text)
    if not m:
        raise AnalysisError('GI_ALIGN macro not found')
    n_, a_ = m.group(1), m.group(2)
    r1.check(ns(m.group(3)) == ns('(((%s) + (%s) - 1) & ~((%s) - 1))' % (n_, a_, a_)), 'GI_ALIGN (n, a) = (n + a - 1) & ~(a - 1)', GO, 1,
             'GI_ALIGN is defined as %s: not the round-up-to-a-multiple identity for power-of-two alignments' % m.group(3).strip(), detail=m.group(3).strip())
    sf = tu.func('compute_struct_field_offsets')
    ifs, then, els = success_block(tu, sf)
    st = stmt_texts(tu, then)
    idx = {}
    for i, t in enumerate(st):
        for key, pat in (('align', 'size=GI_ALIGN(size,member_alignment)'), ('maxalign', 'alignment=MAX(alignment,member_alignment)'),
                         ('offset', 'field->offset=size'), ('advance', 'size+=member_size')):
            if t == pat:
                idx[key] = i
    r1.check(set(idx) == {'align', 'maxalign', 'offset', 'advance'}, 'struct member: the four layout steps are present', GO, tu.line(then),
             'struct member layout steps found: %s in %s' % (sorted(idx), st), detail=st)
    if len(idx) == 4:
        r1.check(idx['align'] < idx['offset'] < idx['advance'], 'struct member: align before recording the offset, advance after', GO, tu.line(then),
                 'order of the layout steps is %s: the member offset must be recorded after aligning and before adding the member size' % st)
        others = [t for i, t in enumerate(st) if i not in idx.values()]
        r1.check(not others, 'struct member: nothing else touches size/offset', GO, tu.line(then), 'extra statements: %s' % others)
    r1.check(els is not None and ns(tu.text_of(els)) == 'have_error=TRUE', 'struct member: failure is recorded', GO, tu.line(ifs), 'else branch: %s' % (tu.text_of(els) if els else None))

    def tail(f):
        body = C.kids(tu.body(f))
        texts = [ns(tu.text_of(s)) for s in body]
        loops = [i for i, s in enumerate(body) if s.get('kind') == 'ForStmt']
        if len(loops) != 1:
            raise AnalysisError('%s: member loop not found' % f['name'])
        after = texts[loops[0] + 1:]
        return after
    after = tail(sf)
    r1.check(after and after[0] == 'size=GI_ALIGN(size,alignment)', 'struct tail padding right after the member loop', GO, tu.line(sf),
             'after the member loop: %s — the size is not padded to a multiple of the alignment before it is published' % after[:2], detail=after[:1])
    # embedded callback members
    cbtexts = []
    for n in C.walk(tu.body(sf)):
        if n.get('kind') == 'IfStmt' and 'G_IR_NODE_CALLBACK' in tu.text_of(C.kids(n)[0]) and 'G_IR_NODE_FIELD' not in tu.text_of(C.kids(n)[0]):
            cbtexts = stmt_texts(tu, C.kids(n)[1])
    r1.check(cbtexts == ['size=GI_ALIGN(size,ffi_type_pointer.alignment)', 'alignment=MAX(alignment,ffi_type_pointer.alignment)', 'size+=ffi_type_pointer.size'],
             'callback members are laid out as pointers', GO, tu.line(sf), 'callback member steps: %s' % cbtexts, detail=cbtexts)
    uf = tu.func('compute_union_field_offsets')
    ifs, then, els = success_block(tu, uf)
    ut = stmt_texts(tu, then)
    r1.check(sorted(ut) == sorted(['size=MAX(size,member_size)', 'alignment=MAX(alignment,member_alignment)']), 'union member: size and alignment are maxima', GO,
             tu.line(then), 'union member steps: %s' % ut, detail=ut)
    after = tail(uf)
    r1.check(after and after[0] == 'size=GI_ALIGN(size,alignment)', 'union tail padding right after the member loop', GO, tu.line(uf),
             'after the member loop of compute_union_field_offsets: %s — a union whose largest member is not a multiple of the strictest alignment '
             'gets a size smaller than sizeof()' % after[:2], detail=after[:1])
    # published values
    for f in (sf, uf):
        pub = {}
        for l, r, s_ in C.assignments(tu.body(f)):
            p = ns(tu.text_of(l))
            if p in ('*size_out', '*alignment_out'):
                g = [ns(tu.text_of(c)) + ('' if pol else '=F') for c, pol, o in C.guards(tu, s_)]
                pub.setdefault(p, []).append((ns(tu.text_of(r)), g))
        ok = ('size', ['!have_error']) in pub.get('*size_out', []) and ('alignment', ['!have_error']) in pub.get('*alignment_out', []) and \
             ('-1', ['!have_error=F']) in pub.get('*size_out', []) and ('-1', ['!have_error=F']) in pub.get('*alignment_out', [])
        r1.check(ok, '%s publishes (size, alignment) or (-1, -1)' % f['name'], GO, tu.line(f), 'published: %s' % pub, detail=str(pub)[:200])

    # ------------------------------------------------------------------ R2 unknown stays unknown
    r2 = ctx.rule('R2', 'a member of unknown size poisons the layout; unknown offsets are encoded as 0xFFFF', floor=5)
    offs = [(ns(tu.text_of(r)), [ns(tu.text_of(c)) for c, pol, o in C.guards(tu, s_) if pol]) for l, r, s_ in C.assignments(tu.body(sf))
            if (C.member_path(l) or '') == 'field->offset']
    r2.check(('-1', ['member->type==G_IR_NODE_FIELD', 'have_error']) in offs, 'after an error every field offset is -1', GO, tu.line(sf), 'field->offset stores: %s' % offs, detail=offs)
    gta = tu.func('get_type_size_alignment')
    fails = []
    for n in C.walk(tu.body(gta)):
        if n.get('kind') == 'ReturnStmt' and C.int_value(C.kids(n)[0]) == 0:
            blk = tu.par(n)
            fails.append(stmt_texts(tu, blk))
    r2.check(len(fails) >= 3 and all('*size=-1' in f_ and '*alignment=-1' in f_ for f_ in fails), 'unknown types report size -1 / alignment -1', GO, tu.line(gta),
             'failure blocks: %s' % fails)
    arr = None
    for n in C.walk(tu.body(gta)):
        if n.get('kind') == 'IfStmt' and ns(tu.text_of(C.kids(n)[0])) == 'type->tag==GI_TYPE_TAG_ARRAY':
            arr = n
    if arr is None:
        raise AnalysisError('get_type_size_alignment: array branch not found')
    at = ns(tu.text_of(C.kids(arr)[1]))
    r2.check('!type->has_size||!get_type_size_alignment(build,type->parameter_type1,&elt_size,&elt_alignment,who)' in at and '*size=type->size*elt_size' in at and
             '*alignment=elt_alignment' in at, 'fixed-size array: count * element size, element alignment; unknown without fixed size', GO, tu.line(arr),
             'array branch changed')
    first = C.kids(tu.body(gta))
    ptr = [n for n in C.walk(tu.body(gta)) if n.get('kind') == 'IfStmt' and ns(tu.text_of(C.kids(n)[0])) == 'type->is_pointer']
    r2.check(len(ptr) == 1 and 'type_ffi=&ffi_type_pointer' in ns(tu.text_of(C.kids(ptr[0])[1])), 'pointers have pointer size', GO, tu.line(gta), 'pointer branch changed')
    gn = ctx.c.tu(GN)
    bt = gn.func('_g_ir_node_build_typelib')
    so = [(ns(gn.text_of(r)), [ns(gn.text_of(c)) + ('' if pol else '=F') for c, pol, o in C.guards(gn, s_)][-1:]) for l, r, s_ in C.assignments(gn.body(bt))
          if ns(gn.text_of(l)) == 'blob->struct_offset' and 'field' in gn.text_of(r) + ''.join(gn.text_of(c) for c, p_, o in C.guards(gn, s_))]
    r2.check(('field->offset', ['field->offset>=0']) in so and ('0xFFFF', ['field->offset>=0=F']) in so, 'unknown field offset written as 0xFFFF', GN, gn.line(bt),
             'FieldBlob.struct_offset stores: %s' % so, detail=so)

    # ------------------------------------------------------------------ R3 tag -> machine type tables
    r3 = ctx.rule('R3', 'type tag -> ffi type: width and signedness agree', floor=20)
    gf = ctx.c.tu(GF)
    tf = gf.func('gi_type_tag_get_ffi_type_internal')
    sws = [n for n in C.walk(gf.body(tf)) if n.get('kind') == 'SwitchStmt']
    table = {}
    for labels, stmts in C.switch_cases(gf, sws[0]):
        rets = []
        for s_ in stmts:
            for n in C.walk(s_):
                if n.get('kind') == 'ReturnStmt' and C.kids(n):
                    rets.append(ns(gf.text_of(C.kids(n)[0])))
        for l in labels:
            table[l] = rets
    EXPECT = {'BOOLEAN': ['&ffi_type_uint'], 'FLOAT': ['&ffi_type_float'], 'DOUBLE': ['&ffi_type_double'], 'UNICHAR': ['&ffi_type_uint32'],
              'GTYPE': ['&ffi_type_uint64'], 'VOID': ['&ffi_type_pointer', '&ffi_type_void'], 'INTERFACE': ['&ffi_type_pointer', '&ffi_type_sint32']}
    for tag in ('UTF8', 'FILENAME', 'ARRAY', 'GLIST', 'GSLIST', 'GHASH', 'ERROR'):
        EXPECT[tag] = ['&ffi_type_pointer']
    for w in (8, 16, 32, 64):
        EXPECT['INT%d' % w] = ['&ffi_type_sint%d' % w]
        EXPECT['UINT%d' % w] = ['&ffi_type_uint%d' % w]
    for tag, exp in sorted(EXPECT.items()):
        got = table.get('GI_TYPE_TAG_' + tag)
        r3.check(got == exp, 'GI_TYPE_TAG_%s -> %s' % (tag, exp), GF, gf.line(tf), 'GI_TYPE_TAG_%s maps to %s, expected %s' % (tag, got, exp), detail=got)
    ef = tu.func('get_enum_size_alignment')
    sws = [n for n in C.walk(tu.body(ef)) if n.get('kind') == 'SwitchStmt']
    for labels, stmts in C.switch_cases(tu, sws[0]):
        if labels == ['default']:
            continue
        widths = set(re.findall(r'\d+', ' '.join(labels)))
        asg = [ns(tu.text_of(r)) for s_ in stmts for l, r, a in C.assignments(s_) if C.declref(l) == 'type_ffi']
        fw = set(re.findall(r'\d+', ' '.join(asg)))
        r3.check(len(widths) == 1 and fw == widths and len(asg) == 1, 'enum storage %s -> %s' % ('/'.join(l.replace('GI_TYPE_TAG_', '') for l in labels), asg), GO,
                 tu.line(stmts[0]), 'enum storage tags %s are sized with %s: an enumeration stored in %s bits is laid out with the size/alignment of a %s-bit '
                 'integer' % (labels, asg, sorted(widths), sorted(fw)), detail=asg)
    r3.exhaustive = True
    # storage type from width
    cs = tu.func('compute_enum_storage_type')
    for w, bits in ((1, 8), (2, 16), (4, 32), (8, 64)):
        txt = ns(tu.text_of(cs))
        r3.check('width==%d)enum_node->storage_type=signed_type?GI_TYPE_TAG_INT%d:GI_TYPE_TAG_UINT%d' % (w, bits, bits) in txt, 'enum width %d -> (U)INT%d' % (w, bits), GO,
                 tu.line(cs), 'width %d no longer maps to INT%d/UINT%d' % (w, bits, bits))

    # ------------------------------------------------------------------ R4 embedded arrays
    r4 = ctx.rule('R4', 'a fixed-size array directly inside a field is embedded (not a pointer), whatever its other attributes', floor=2)
    gp = ctx.c.tu(GP)
    stf = gp.func('start_type')
    hits = []
    for l, r, s_ in C.assignments(gp.body(stf)):
        if (C.member_path(l) or '') == 'typenode->is_pointer' and C.int_value(r) == 0:
            g = [ns(gp.text_of(c)) for c, pol, o in C.guards(gp, s_) if pol and 'has_size' in gp.text_of(c)]
            hits.append(g)
    r4.check(['typenode->has_size&&ctx->current_typed->type==G_IR_NODE_FIELD'] in hits, 'is_pointer cleared for every fixed-size array in a field', GP, gp.line(stf),
             'start_type() clears is_pointer under %s: a fixed-size array field that carries further attributes (e.g. zero-terminated="1") is laid out as '
             'a pointer instead of count*element' % hits, detail=hits)
    gfa = tu.func('get_field_size_alignment')
    t = ns(tu.text_of(gfa))
    r4.check('if(field->callback){*size=ffi_type_pointer.size;*alignment=ffi_type_pointer.alignment;success=TRUE;}' in t, 'callback fields are pointers', GO, tu.line(gfa),
             'callback field sizing changed')
