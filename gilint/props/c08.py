"""C08 — record and union layout stored in typelibs equals the platform C ABI (algorithm shape only)."""
import re

from ..core import AnalysisError
from .. import cfront as C
from .. import cgsa, gsa

EXPLANATION = ('Only the layout ALGORITHM is in the source (the numbers come from libffi at run time).  clang AST rules over '
               'giroffsets.c, girffi.c, girnode.c, girparser.c: struct layout = align-to-member, record offset, advance, tail-pad; '
               'union layout = max size, max alignment, tail-pad; GI_ALIGN is the power-of-two round-up; a failing member poisons the '
               'whole layout (-1 / 0xFFFF); type tag -> machine type tables agree in width and signedness; fixed-size arrays in fields '
               'are embedded (never pointers) and sized count*element; callbacks are pointers.')

GO = 'girepository/giroffsets.c'
GF = 'girepository/girffi.c'
GN = 'girepository/girnode.c'
GP = 'girepository/girparser.c'


def ns(s):
    return re.sub(r'\s+', '', s or '')


def stmt_texts(tu, compound):
    return [ns(tu.text_of(s)) for s in C.kids(compound)]


def rup(x, a):
    """canonical text of GI_ALIGN (x, a) = (x + a - 1) & ~(a - 1)"""
    return '((%s+%s)-1)&~(%s-1)' % (x, a, a)


TAIL = re.compile(r'^\(\((.+)\+([\w.>-]+)\)-1\)&~\(([\w.>-]+)-1\)$')


def check(ctx):
    tu = ctx.c.tu(GO)

    # ------------------------------------------------------------------ R1 layout algorithm (gated summaries; macros expanded, helpers inlined)
    r1 = ctx.rule('R1', 'struct: align, record offset, advance, tail-pad; union: max, max, tail-pad; GI_ALIGN rounds up', floor=11)
    GFSA = r'^get_field_size_alignment\('
    sums = {}
    for fname in ('compute_struct_field_offsets', 'compute_union_field_offsets'):
        S = cgsa.summarise(ctx, GO, fname, opaque=('get_field_size_alignment',))
        f = S.func
        gc = [e for e in S.effects if e.kind == 'call' and e.target == 'get_field_size_alignment']
        if not gc or len(gc[0].args) < 5 or not gc[0].args[3].startswith('&') or not gc[0].args[4].startswith('&'):
            raise AnalysisError('%s: call get_field_size_alignment(..., &size, &alignment) not found' % fname)
        M, A = gc[0].args[3][1:], gc[0].args[4][1:]
        carried = sorted(set(re.findall(r'@carried:(\w+)#', ' '.join(S.atoms()))))
        pub_s = [e for e in S.effects if e.kind == 'store' and e.target == '*%s' % S.P(3)]
        pub_a = [e for e in S.effects if e.kind == 'store' and e.target == '*%s' % S.P(4)]
        ok_s = [e for e in pub_s if e.value != '-1']
        ok_a = [e for e in pub_a if e.value not in ('-1', '-2')]
        sums[fname] = (S, M, A, carried, pub_s, pub_a, ok_s, ok_a)
        tails = [TAIL.match(e.value) for e in ok_s]
        r1.check(bool(ok_s) and all(t_ and t_.group(2) == t_.group(3) for t_ in tails), '%s: size is padded to a multiple of the alignment before it is published' % fname, GO, tu.line(f),
                 'published sizes %s are not GI_ALIGN (size, alignment) = (size + alignment - 1) & ~(alignment - 1)' % sorted(set(e.value for e in ok_s))[:3], detail=sorted(set(e.value for e in ok_s))[:4])
        aligns = set(t_.group(2) for t_ in tails if t_)
        r1.check(A in aligns and set(e.value for e in ok_a) == aligns, '%s: the published alignment is the one the size was padded to, and it includes each member alignment' % fname, GO, tu.line(f),
                 'tail alignments %s, published alignments %s' % (sorted(aligns), sorted(set(e.value for e in ok_a))), detail=sorted(aligns))
        amax = [e for e in ok_a if e.value == A]
        r1.check(bool(amax) and all(any(re.search(r'%s' % re.escape(A), a_) and ' < ' in a_ for a_ in gsa.atoms(e.cond)) for e in amax),
                 '%s: alignment = MAX (alignment, member alignment)' % fname, GO, tu.line(f), 'the member alignment is taken without comparing it with the running maximum')
        # published (size, alignment) or (-1, -1)
        ERR = [(r'^have_error$', True), (r'^@carried:have_error', True)]
        NOERR = [(r'^have_error$', False), (GFSA, True)]
        bad_s = [e for e in pub_s if e.value == '-1']
        bad_a = [e for e in pub_a if e.value == '-1']
        okp = bool(bad_s) and bool(bad_a) and all(gsa.impossible(S, e, NOERR) and gsa.allowed(S, e, ERR) for e in bad_s + bad_a) and \
            all(gsa.impossible(S, e, ERR) and gsa.allowed(S, e, NOERR) for e in ok_s + ok_a)
        r1.check(okp, '%s publishes (size, alignment) or (-1, -1)' % fname, GO, tu.line(f), 'published: %s / %s' % (sorted(set(e.value for e in pub_s))[:4], sorted(set(e.value for e in pub_a))[:4]))
        he = [e for e in S.effects if e.kind == 'local' and e.target == 'have_error' and e.value in ('1', '!0')]
        r1.check(bool(he) and all(gsa.impossible(S, e, [(GFSA, True), (r'^have_error$', False)]) for e in he) and any(gsa.allowed(S, e, [(GFSA, False), (r'^have_error$', False)]) for e in he), '%s: failure is recorded' % fname, GO, tu.line(f),
                 'a member whose size is unknown does not set have_error')
    S, M, A, carried, pub_s, pub_a, ok_s, ok_a = sums['compute_struct_field_offsets']
    sf = S.func
    offs = [e for e in S.effects if e.kind == 'store' and e.target.endswith('->offset')]
    good = [e for e in offs if e.value != '-1']
    bases = set()
    okoff = bool(good)
    for e in good:
        mm = TAIL.match(e.value)
        if not (mm and mm.group(2) == mm.group(3) == A):
            okoff = False
        else:
            bases.add(mm.group(1))
    SZ = sorted(bases - {'0'})
    r1.check(okoff and len(SZ) == 1 and SZ[0] in carried, 'struct member: offset = running size aligned to the member alignment', GO, good[0].line if good else tu.line(sf),
             'field offsets are stored as %s' % sorted(set(e.value for e in good)), detail=sorted(set(e.value for e in good)))
    sz = SZ[0] if SZ else 'size'
    adv = set()
    for e in ok_s:
        mm = TAIL.match(e.value)
        if mm:
            adv.add(mm.group(1))
    want_field = set('((%s)+%s)' % (rup(b_, A), M) for b_ in ('0', sz))
    want_cb = set('((%s)+ffi_type_pointer.size)' % rup(b_, 'ffi_type_pointer.alignment') for b_ in ('0', sz))
    r1.check(want_field <= adv, 'struct member: advance by the member size after aligning', GO, tu.line(sf), 'sizes before tail padding: %s, expected to include %s' % (sorted(adv), sorted(want_field)), detail=sorted(adv))
    r1.check(want_cb <= adv, 'callback members are laid out as pointers', GO, tu.line(sf), 'sizes before tail padding: %s, expected to include %s' % (sorted(adv), sorted(want_cb)))
    r1.check(adv <= want_field | want_cb | {'0', sz}, 'struct member: nothing else touches size/offset', GO, tu.line(sf), 'unexpected size computations: %s' % sorted(adv - want_field - want_cb - {'0', sz}))
    US, UM, UA, ucar, upub_s, upub_a, uok_s, uok_a = sums['compute_union_field_offsets']
    ub = set()
    for e in uok_s:
        mm = TAIL.match(e.value)
        if mm:
            ub.add(mm.group(1))
    usz = sorted(x for x in ub if x in ucar)
    r1.check(UM in ub and len(usz) == 1 and ub <= {'0', UM, usz[0]}, 'union member: size and alignment are maxima', GO, tu.line(US.func), 'union sizes before tail padding: %s' % sorted(ub), detail=sorted(ub))
    mx = [e for e in uok_s if TAIL.match(e.value) and TAIL.match(e.value).group(1) == UM]
    r1.check(bool(mx) and all(any(re.search(r' < %s$|^%s < |%s' % (re.escape(UM), re.escape(UM), re.escape(UM)), a_) and ' < ' in a_ for a_ in gsa.atoms(e.cond)) for e in mx),
             'union member: member size replaces the running size only when larger', GO, tu.line(US.func), 'member size taken without comparing it with the running maximum')

    # ------------------------------------------------------------------ R2 unknown stays unknown
    r2 = ctx.rule('R2', 'a member of unknown size poisons the layout; unknown offsets are encoded as 0xFFFF', floor=5)
    neg1 = [e for e in offs if e.value == '-1']
    r2.check(bool(neg1) and all(gsa.impossible(S, e, [(r'^have_error$', False), (GFSA, True)]) and gsa.allowed(S, e, [(r'^have_error$', True), (r'^@carried:have_error', True)]) for e in neg1),
             'after an error every field offset is -1', GO, tu.line(sf), 'field->offset = -1 stores: %s' % [gsa.show(e.cond)[:120] for e in neg1][:2])
    GT = cgsa.summarise(ctx, GO, 'get_type_size_alignment', opaque=('get_interface_size_alignment', 'get_type_size_alignment'))
    gta = GT.func
    sp, ap = GT.P(2), GT.P(3)
    fails = [e for e in GT.effects if e.kind == 'return' and e.value == '0']
    s1 = [e for e in GT.effects if e.kind == 'store' and e.target == '*%s' % sp and e.value == '-1']
    a1 = [e for e in GT.effects if e.kind == 'store' and e.target == '*%s' % ap and e.value == '-1']
    r2.check(len(fails) >= 3 and all(gsa.implies(r_.cond, gsa.cond_any(s1)) and gsa.implies(r_.cond, gsa.cond_any(a1)) for r_ in fails), 'unknown types report size -1 / alignment -1', GO, tu.line(gta),
             'a failing return of get_type_size_alignment leaves *size / *alignment unset: failures %s' % [gsa.show(r_.cond)[:100] for r_ in fails][:3])
    REC = r'^get_type_size_alignment\(.*parameter_type1'
    arr_s = [e for e in GT.effects if e.kind == 'store' and e.target == '*%s' % sp and re.match(r'^(type->size\*\w+|\w+\*type->size)$', e.value)]
    arr_a = [e for e in GT.effects if e.kind == 'store' and e.target == '*%s' % ap and re.match(r'^\w+$', e.value) and e.value != '-1']
    okarr = bool(arr_s) and bool(arr_a) and all(gsa.impossible(GT, e, [(r'^type->has_size$', False)]) and gsa.impossible(GT, e, [(REC, False)]) and gsa.allowed(GT, e, [(r'^type->has_size$', True), (REC, True), (r'ARRAY$', True), (r'is_pointer$', False)])
                                               for e in arr_s + arr_a)
    r2.check(okarr, 'fixed-size array: count * element size, element alignment; unknown without fixed size', GO, tu.line(gta), 'array branch changed: %s' % [(e.value, gsa.show(e.cond)[:100]) for e in arr_s + arr_a][:3])
    ptr = [e for e in GT.effects if e.kind == 'store' and e.target == '*%s' % sp and re.search(r'ffi_type_pointer(\.|->)size$', e.value)]
    r2.check(bool(ptr) and any(gsa.allowed(GT, e, [(r'^type->is_pointer$', True)]) and gsa.impossible(GT, e, [(r'^type->is_pointer$', False)]) for e in ptr), 'pointers have pointer size', GO, tu.line(gta), 'pointer branch changed')
    gn = ctx.c.tu(GN)
    bt = gn.func('_g_ir_node_build_typelib')
    so = []
    tern = False
    for l, r, s_ in C.assignments(gn.body(bt)):
        if ns(gn.text_of(l)) == 'blob->struct_offset' and 'field' in gn.text_of(r) + ''.join(gn.text_of(c) for c, p_, o in C.guards(gn, s_)):
            rt = ns(gn.text_of(r))
            so.append((rt, [ns(gn.text_of(c)) + ('' if pol else '=F') for c, pol, o in C.guards(gn, s_)][-1:]))
            if rt in ('(field->offset>=0)?field->offset:0xFFFF', 'field->offset>=0?field->offset:0xFFFF', '(field->offset<0)?0xFFFF:field->offset', 'field->offset<0?0xFFFF:field->offset'):
                tern = True
    r2.check(tern or (('field->offset', ['field->offset>=0']) in so and ('0xFFFF', ['field->offset>=0=F']) in so), 'unknown field offset written as 0xFFFF', GN, gn.line(bt),
             'FieldBlob.struct_offset stores: %s' % so, detail=so)

    # ------------------------------------------------------------------ R3 tag -> machine type tables
    r3 = ctx.rule('R3', 'type tag -> ffi type: width and signedness agree', floor=20)
    gf = ctx.c.tu(GF)
    tf = gf.func('gi_type_tag_get_ffi_type_internal')
    # gated summary of the mapping function: for every tag, the values it can return when the switch operand equals that tag
    # (insensitive to case order, fall-through, if-chains and conditional expressions)
    TF = cgsa.summarise(ctx, GF, 'gi_type_tag_get_ffi_type_internal')
    tag_atoms = [a_ for a_ in TF.atoms() if re.search(r'== GI_TYPE_TAG_\w+$', a_)]
    all_tags = sorted(set(re.search(r'== (GI_TYPE_TAG_\w+)$', a_).group(1) for a_ in tag_atoms))
    if len(all_tags) < 20:
        raise AnalysisError('gi_type_tag_get_ffi_type_internal: only %d type tags distinguished' % len(all_tags))
    table = {}
    for tg_ in all_tags:
        val = dict((a_, a_.endswith('== ' + tg_)) for a_ in tag_atoms)
        table[tg_] = sorted(set(re.sub(r'\s', '', e.value) for e in gsa.find(TF, 'return') if e.fn == 'gi_type_tag_get_ffi_type_internal' and gsa.can_hold(e.cond, val)
                                and e.value not in ('0', 'NULL')))
    EXPECT = {'BOOLEAN': ['&ffi_type_uint'], 'FLOAT': ['&ffi_type_float'], 'DOUBLE': ['&ffi_type_double'], 'UNICHAR': ['&ffi_type_uint32'],
              'GTYPE': ['&ffi_type_uint64'], 'VOID': ['&ffi_type_pointer', '&ffi_type_void'], 'INTERFACE': ['&ffi_type_pointer', '&ffi_type_sint32']}
    for tag in ('UTF8', 'FILENAME', 'ARRAY', 'GLIST', 'GSLIST', 'GHASH', 'ERROR'):
        EXPECT[tag] = ['&ffi_type_pointer']
    for w in (8, 16, 32, 64):
        EXPECT['INT%d' % w] = ['&ffi_type_sint%d' % w]
        EXPECT['UINT%d' % w] = ['&ffi_type_uint%d' % w]
    for tag, exp in sorted(EXPECT.items()):
        got = table.get('GI_TYPE_TAG_' + tag)
        r3.check(got == exp, 'GI_TYPE_TAG_%s -> %s' % (tag, exp), GF, gf.line(tf), 'GI_TYPE_TAG_%s maps to %s, expected %s' % (tag, got, exp), detail=got)
    ES = cgsa.summarise(ctx, GO, 'get_enum_size_alignment', opaque=('compute_enum_storage_type',))
    ef = ES.func
    szp = ES.P(1)
    for bits in (8, 16, 32, 64):
        for sign in ('INT', 'UINT'):
            tag = 'GI_TYPE_TAG_%s%d' % (sign, bits)
            val = dict((a_, a_.endswith('== ' + tag)) for a_ in ES.atoms() if re.search(r'storage_type == GI_TYPE_TAG_\w+$', a_))
            got = sorted(set(e.value for e in ES.effects if e.kind == 'store' and e.target == '*%s' % szp and gsa.can_hold(e.cond, val)))
            r3.check(len(got) == 1 and re.match(r'^&?ffi_type_[us]int%d(->|\.)size$' % bits, got[0]), 'enum storage %s%d -> %d-bit ffi type' % (sign, bits, bits), GO, tu.line(ef),
                     'an enumeration stored as %s is sized as %s: it is laid out with the size/alignment of an integer of another width' % (tag, got), detail=got)
    r3.exhaustive = True
    # storage type from width
    CE = cgsa.summarise(ctx, GO, 'compute_enum_storage_type')
    cs = CE.func
    st_eff = [e for e in CE.effects if e.kind == 'store' and e.target.endswith('->storage_type')]
    # the storage type is chosen by comparing the width (sizeof of a test enum, or a table column holding it) with 1/2/4/8
    watoms = sorted(set(a_ for e in st_eff for a_ in gsa.atoms(e.cond) if re.match(r'^.+ == (1|2|4|8)$', a_)))
    for w, bits in ((1, 8), (2, 16), (4, 32), (8, 64)):
        val = dict((a_, a_.endswith('== %d' % w)) for a_ in watoms)
        got = sorted(set(e.value for e in st_eff if gsa.can_hold(e.cond, val)))
        r3.check(got == ['GI_TYPE_TAG_INT%d' % bits, 'GI_TYPE_TAG_UINT%d' % bits], 'enum width %d -> (U)INT%d' % (w, bits), GO,
                 tu.line(cs), 'an enumeration of width %d is stored as %s, expected INT%d/UINT%d' % (w, got, bits, bits), detail=got)

    from . import c06
    c06.alias_rule(ctx, r3)

    # ------------------------------------------------------------------ R4 embedded arrays
    r4 = ctx.rule('R4', 'a fixed-size array directly inside a field is embedded (not a pointer), whatever its other attributes', floor=2)
    gp = ctx.c.tu(GP)
    stf = gp.func('start_type')
    hits = []
    for l, r, s_ in C.assignments(gp.body(stf)):
        if (C.member_path(l) or '') == 'typenode->is_pointer' and C.int_value(r) == 0:
            g = [ns(gp.text_of(c)) for c, pol, o in C.guards(gp, s_) if pol and 'has_size' in gp.text_of(c)]
            hits.append(g)
    r4.check(['typenode->has_size&&ctx->current_typed->type==G_IR_NODE_FIELD'] in hits, 'is_pointer cleared for every fixed-size array in a field', GP, gp.line(stf),
             'start_type() clears is_pointer under %s: a fixed-size array field that carries further attributes (e.g. zero-terminated="1") is laid out as '
             'a pointer instead of count*element' % hits, detail=hits)
    GFA = cgsa.summarise(ctx, GO, 'get_field_size_alignment', opaque=('get_type_size_alignment',))
    gfa = GFA.func
    cbs = [e for e in GFA.effects if e.kind == 'store' and e.target == '*%s' % GFA.P(3) and e.value == 'ffi_type_pointer.size']
    cba = [e for e in GFA.effects if e.kind == 'store' and e.target == '*%s' % GFA.P(4) and e.value == 'ffi_type_pointer.alignment']
    okcb = bool(cbs) and bool(cba) and all(gsa.impossible(GFA, e, [(r'->callback$', False)]) and gsa.allowed(GFA, e, [(r'->callback$', True)]) for e in cbs + cba)
    rets = [e for e in GFA.effects if e.kind == 'return' and gsa.can_hold(e.cond, dict((a_, True) for a_ in GFA.atoms() if a_.endswith('->callback')))]
    r4.check(okcb and rets and all(e.value in ('1', '!0') for e in rets), 'callback fields are pointers', GO, tu.line(gfa), 'callback field sizing changed: %s' % [(e.target, e.value) for e in cbs + cba])
    # the scanner must hand the compiler the fixed size of EVERY fixed-size array, zero-length included (else the field is laid out as a pointer)
    WT = gsa.summarise(ctx, 'girwriter', 'GIRWriter._write_type', opaque=('write_tag', 'tagcontext', '_write_generic', '_write_type', '_write_type_ref', '_type_to_name'))
    tp_ = WT.P(1)
    fs = [(c, gsa._unparse(v)) for c, k, v, n in gsa.list_items(WT, 'attrs') if k == 'fixed-size']
    NONE_ = '%s.size is None' % tp_
    arr_ = dict((a_, True) for c, t in fs for a_ in gsa.atoms(c) if a_ == 'isinstance(%s, ast.Array)' % tp_)
    arr_.update(dict((a_, False) for c, t in fs for a_ in gsa.atoms(c) if a_ == 'isinstance(%s, ast.Varargs)' % tp_))
    fsc = gsa.disj(*[c for c, t in fs])
    r4.check(bool(fs) and gsa.equiv(gsa.assign(fsc, arr_), gsa.neg(gsa.atom(NONE_))), 'fixed-size written for every array that has a size (0 included)', 'giscanner/girwriter.py', WT.func.lineno,
             'array/@fixed-size is written when %s: a zero-length trailing array (`guint8 data[0]`) loses its fixed-size, is compiled as a pointer and shifts size and offsets of the record'
             % gsa.show(fsc)[:200], detail=gsa.show(fsc)[:200])
