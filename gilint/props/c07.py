"""C07 — GIR files survive a read/write cycle unchanged (attribute/element level)."""
import ast
import re

from ..core import AnalysisError
from .. import pyfront as P
from .. import gsa
from .. import wattr, rattr, roundtrip
from ..absint import Opaque

EXPLANATION = ('The writer (giscanner/girwriter.py) is interpreted symbolically into the table of every element it can emit '
               'with, per attribute, its guard and model expression; the reader (girparser.py) into the table of attributes '
               'and children it consults per element.  R1: every attribute/child the writer can emit is read for that element '
               '(or is a reviewed derived/constant key).  R2: for each element kind the writer\'s emission table is composed '
               'with the reader\'s decoding (constructor + stores, evaluated on extracted expression trees over finite '
               'abstract domains) and W(R(W(m))) = W(m) is required for every realisable valuation — exhaustive over the '
               'abstract domain.  R3: a type-name written relative to the namespace is written/parsed with the same rule. '
               'R4: sibling order is either re-sorted by the writer or preserved by both sides.')

# attributes the writer emits that the reader deliberately does not consult (reason each)
DERIVED = {
    'deprecated': 'compatibility flag re-derived by the writer from deprecated-version / doc-deprecated',
    'xml:space': 'constant whitespace directive on doc elements',
    'xmlns': 'namespace declaration', 'xmlns:c': 'namespace declaration', 'xmlns:doc': 'namespace declaration',
    'xmlns:glib': 'namespace declaration',
}

# element kinds composed in R2: tag, writer element predicate, reader method, node variables, model class, extra locals,
# attributes set outside the attribute-level scope (child elements or sibling indices), reader atoms
KINDS = [
    dict(tag='parameter', wmethod='_write_parameter', rmethod='_parse_parameter', nvars=('node',), cls='Parameter',
         carried=('closure_name', 'destroy_name', 'doc', 'version_doc', 'deprecated_doc', 'stability_doc')),
    dict(tag='instance-parameter', wmethod='_write_parameter', rmethod='_parse_parameter', nvars=('node',), cls='Parameter',
         carried=('closure_name', 'destroy_name', 'doc', 'version_doc', 'deprecated_doc', 'stability_doc')),
    dict(tag='return-value', wmethod='_write_return_type', rmethod='_parse_function_common', nvars=('returnnode',), cls='Return',
         locals={'klass': ('class', 'giscanner/ast.py', 'Function')}, carried=('doc', 'version_doc', 'deprecated_doc', 'stability_doc')),
    dict(tag='property', wmethod='_write_property', rmethod='_parse_property', nvars=('node',), cls='Property',
         carried=('doc', 'version_doc', 'deprecated_doc', 'stability_doc')),
    dict(tag='field', wmethod='_write_field', rmethod='_parse_field', nvars=('node',), cls='Field', need_key='bits',
         carried=('doc', 'version_doc', 'deprecated_doc', 'stability_doc'), atoms={'node.tag': '{http://www.gtk.org/introspection/core/1.0}field'},
         locals={'__no_children__': True}),
    dict(tag='glib:signal', wmethod='_write_signal', rmethod='_parse_function_common', nvars=('node',), cls='Signal',
         locals={'klass': ('class', 'giscanner/ast.py', 'Signal')}, carried=('doc', 'version_doc', 'deprecated_doc', 'stability_doc')),
    dict(tag='function', wmethod='_write_callable', rmethod='_parse_function_common', nvars=('node',), cls='Function',
         locals={'klass': ('class', 'giscanner/ast.py', 'Function')}, carried=('doc', 'version_doc', 'deprecated_doc', 'stability_doc')),
    dict(tag='virtual-method', wmethod='_write_callable', rmethod='_parse_function_common', nvars=('node',), cls='VFunction',
         locals={'klass': ('class', 'giscanner/ast.py', 'VFunction')}, carried=('doc', 'version_doc', 'deprecated_doc', 'stability_doc', 'invoker')),
    dict(tag='callback', wmethod='_write_callable', rmethod='_parse_function_common', nvars=('node',), cls='Callback',
         locals={'klass': ('class', 'giscanner/ast.py', 'Callback')}, carried=('doc', 'version_doc', 'deprecated_doc', 'stability_doc')),
    dict(tag='array', wmethod='_write_type', rmethod='_parse_type_simple', nvars=('typenode',), cls='Array',
         atoms={'typenode.tag': '{http://www.gtk.org/introspection/core/1.0}array'}, carried=('length_param_name', 'complete_ctype')),
    dict(tag='class', wmethod='_write_class', rmethod='_parse_object_interface', nvars=('node',), cls='Class',
         atoms={'node.tag': '{http://www.gtk.org/introspection/core/1.0}class'},
         carried=('doc', 'version_doc', 'deprecated_doc', 'stability_doc', 'parent_type', 'glib_type_struct'), nonnull=('get_type',)),
    dict(tag='interface', wmethod='_write_class', rmethod='_parse_object_interface', nvars=('node',), cls='Interface',
         atoms={'node.tag': '{http://www.gtk.org/introspection/core/1.0}interface'},
         carried=('doc', 'version_doc', 'deprecated_doc', 'stability_doc', 'parent_type', 'glib_type_struct'), nonnull=('get_type',)),
    dict(tag='record', wmethod='_write_record', rmethod='_parse_record', nvars=('node',), cls='Record',
         carried=('doc', 'version_doc', 'deprecated_doc', 'stability_doc', 'is_gtype_struct_for')),
    dict(tag='union', wmethod='_write_union', rmethod='_parse_union', nvars=('node',), cls='Union',
         carried=('doc', 'version_doc', 'deprecated_doc', 'stability_doc')),
    dict(tag='member', wmethod='_write_member', rmethod='_parse_member', nvars=('node',), cls='Member',
         carried=('doc', 'version_doc', 'deprecated_doc', 'stability_doc')),
    dict(tag='constant', wmethod='_write_constant', rmethod='_parse_constant', nvars=('node',), cls='Constant',
         carried=('doc', 'version_doc', 'deprecated_doc', 'stability_doc')),
    dict(tag='enumeration', wmethod='_write_enum', rmethod='_parse_enumeration_bitfield', nvars=('node',), cls='Enum',
         atoms={'node.tag': '{http://www.gtk.org/introspection/core/1.0}enumeration'},
         carried=('doc', 'version_doc', 'deprecated_doc', 'stability_doc')),
    dict(tag='bitfield', wmethod='_write_bitfield', rmethod='_parse_enumeration_bitfield', nvars=('node',), cls='Bitfield',
         atoms={'node.tag': '{http://www.gtk.org/introspection/core/1.0}bitfield'},
         carried=('doc', 'version_doc', 'deprecated_doc', 'stability_doc')),
    dict(tag='alias', wmethod='_write_alias', rmethod='_parse_alias', nvars=('node',), cls='Alias',
         carried=('doc', 'version_doc', 'deprecated_doc', 'stability_doc')),
    # reviewed: every Class/Interface/Boxed the scanner builds comes from the GType dump and has a get_type ('intern' for
    # fundamentals); the reader treats glib:get-type / glib:type-name as mandatory for them
    dict(tag='glib:boxed', wmethod='_write_boxed', rmethod='_parse_boxed', nvars=('node',), cls='Boxed',
         carried=('doc', 'version_doc', 'deprecated_doc', 'stability_doc'), nonnull=('get_type', 'gtype_name')),
]


def base_of(rows):
    """the model variable the rows talk about: prefix of the first plain `X.attr` value"""
    for r in rows:
        try:
            n = ast.parse(r.value, mode='eval').body
        except SyntaxError:
            continue
        if isinstance(n, ast.Attribute) and P.dotted(n):
            return P.dotted(n.value)
    return None


def models(ctx):
    py = ctx.py
    w = wattr.WriterModel(py)
    r = rattr.ReaderModel(py, 'girparser', 'GIRParser', {'_parse_api': {'root': {'repository'}}})
    return w, r


def relative_name_ok(ctx):
    """GIRWriter._type_to_name returns the GI name minus exactly the prefix `<namespace name>.` when (and only when) the name starts with that prefix"""
    TT = gsa.summarise(ctx, 'girwriter', 'GIRWriter._type_to_name', inline_only=())
    tp = TT.P(1)
    G = '%s.target_giname' % tp
    PFX = "self._namespace.name + '.'"
    SW = '%s.startswith(%s)' % (G, PFX)
    rets = sorted(set(gsa._unparse(n) for g, n in TT.returns))
    stripped = [(g, n) for g, n in TT.returns if gsa._unparse(n) == '%s[len(%s):]' % (G, PFX)]
    plain = [(g, n) for g, n in TT.returns if gsa._unparse(n) == G]
    ok = bool(stripped) and bool(plain) and all(SW in gsa.atoms(g) and not gsa.can_hold(g, {SW: False}) for g, n in stripped) and \
        all(not gsa.can_hold(g, {SW: True}) for g, n in plain if SW in gsa.atoms(g))
    return ok, rets


def check(ctx):
    py = ctx.py
    w, r = models(ctx)
    wm = w.mod
    rm = py.mod('girparser')
    bt = w.by_tag()
    kb = r.keys_by_tag()
    ch = r.children_by_tag()

    # ------------------------------------------------------------------ R1 vocabulary
    r1 = ctx.rule('R1', 'every attribute and child element the writer can emit is read for that element (or is derived/constant)', floor=250)
    seen = set()
    for e in w.elements():
        for row in e.rows:
            k = (e.tag, row.key)
            if k in seen:
                continue
            seen.add(k)
            if row.key in DERIVED:
                r1.ok('%s/@%s' % k, wm.rel, row.line, detail='derived: ' + DERIVED[row.key])
                continue
            if e.tag == 'type' and row.key == 'foreign':
                continue      # handled below
            r1.check(row.key in kb.get(e.tag, {}), '%s/@%s' % k, wm.rel, row.line,
                     'the writer emits %s="%s" on <%s> (when %s) but GIRParser never reads that attribute for <%s>: the information is '
                     'lost on re-read and the second write differs' % (row.key, row.value, e.tag, row.guard_text(), e.tag))
    # type/@foreign: written only for target_foreign, which nothing in giscanner ever sets
    setters = []
    for mod in py.all_modules():
        for n in ast.walk(mod.tree):
            if isinstance(n, ast.keyword) and n.arg == 'target_foreign' and not (isinstance(n.value, ast.Constant) and n.value.value is None) \
                    and P.src(n.value) != 'self.target_foreign':
                setters.append('%s:%d' % (mod.rel, n.value.lineno))
            if isinstance(n, ast.Attribute) and n.attr == 'target_foreign' and isinstance(n.ctx, ast.Store) and mod.rel != 'giscanner/ast.py':
                setters.append('%s:%d' % (mod.rel, n.lineno))
    r1.check(not setters or 'foreign' in kb.get('type', {}), 'type/@foreign', wm.rel, 1,
             'type/@foreign is written and target_foreign can be set (%s) but the reader does not read it' % setters,
             detail='dead on the writer side: target_foreign is never set')
    nest = w.nesting()
    for parent, child in sorted(nest):
        if parent in ('#document',):
            continue
        have = ch.get(parent, set())
        ok = child in have or (rattr.ANY in have and (child in kb or child in ch or child in ('varargs', 'parameters')))
        # elements whose content is only text/attributes handled by find()
        r1.check(ok, '<%s> inside <%s>' % (child, parent), wm.rel, 1,
                 'the writer nests <%s> inside <%s> but GIRParser never looks for that child there' % (child, parent))
    # mandatory reads must be unconditionally written
    for tag, keys in sorted(kb.items()):
        for key, reads in sorted(keys.items()):
            if not any(rd.kind == 'index' for rd in reads):
                continue
            rd = [x for x in reads if x.kind == 'index'][0]
            for e in bt.get(tag, [])[:1]:
                rows = [row for row in e.rows if row.key == key]
                uncond = any(not row.guards for row in rows)
                if any(x.kind == 'in' and x.method == rd.method for x in reads):
                    r1.ok('%s/@%s presence-tested' % (tag, key), rm.rel, rd.line)
                    continue
                if (tag, key) in (('class', 'glib:get-type'), ('interface', 'glib:get-type'), ('glib:boxed', 'glib:get-type'),
                                  ('glib:boxed', 'glib:type-name')):
                    # reviewed: every Class/Interface the scanner builds has a get_type (gdumpparser passes the dumped
                    # get-type, fundamentals use 'intern'); the writer's `is not None` guard is defensive only
                    r1.ok('%s/@%s mandatory' % (tag, key), rm.rel, rd.line, detail='reviewed exception: get_type always set for registered types')
                    continue
                r1.check(uncond, '%s/@%s mandatory' % (tag, key), rm.rel, rd.line,
                         'GIRParser reads %s/@%s with [] (KeyError when absent) but the writer emits it only %s' %
                         (tag, key, [row.guard_text() for row in rows] or 'never'))

    # ------------------------------------------------------------------ R2 composition W(R(W(m))) == W(m)
    r2 = ctx.rule('R2', 'writer emission table composed with reader decoding is a fixed point (exhaustive over abstract valuations)', floor=150)
    reader = roundtrip.ReaderRunner(py, 'girparser', 'GIRParser', inline=('_parse_generic_attribs', '_parse_compound'),
                                    assume={'typenode.is_const': False, 'rtype.is_const': False})
    stats = {}
    for k in KINDS:
        cands = [e for e in bt.get(k['tag'], []) if e.method == k['wmethod'] and (not k.get('need_key') or k['need_key'] in e.keys())]
        if not cands:
            # the element may be emitted by a helper the writer method delegates to (extracted arm / shared tail)
            wms = py.methods('girwriter', 'GIRWriter')
            reach, todo = set(), [k['wmethod']]
            for _ in range(3):
                nxt = []
                for mn_ in todo:
                    for c_ in P.calls_in(wms[mn_]) if mn_ in wms else []:
                        cn_ = P.call_name(c_) or ''
                        if cn_.startswith('self.') and cn_[5:] in wms and cn_[5:] not in reach:
                            reach.add(cn_[5:])
                            nxt.append(cn_[5:])
                todo = nxt
            cands = [e for e in bt.get(k['tag'], []) if e.method in reach and (not k.get('need_key') or k['need_key'] in e.keys())]
        if not cands:
            raise AnalysisError('writer model has no <%s> element emitted by %s' % (k['tag'], k['wmethod']))
        e = cands[0]
        base = base_of(e.rows)
        if base is None:
            raise AnalysisError('<%s>: cannot determine the model variable of its rows' % k['tag'])
        try:
            fixed = dict(('%s.%s' % (base, a), 'v') for a in k.get('nonnull', ()))
            n, atoms, bad, crashes = roundtrip.check_fixpoint(r2, k['tag'], wm.rel, e.rows, base, reader, k['rmethod'], set(k['nvars']), k['cls'],
                                                              py, wm, k.get('locals'), opaque_attrs=k.get('carried', ()),
                                                              reader_atoms=k.get('atoms'), fixed=fixed, thorough=(ctx.tier == 'thorough'))
        except roundtrip.Unknown as ex:
            raise AnalysisError('<%s>: %s' % (k['tag'], ex))
        stats[k['tag']] = {'valuations': n, 'model_attributes': len(atoms)}
        reported = set()
        for val, w1, w2, why in bad:
            nz = dict((a[len(base) + 1:], v) for a, v in val.items() if v not in (None, False))
            keys = tuple(sorted(set(x for x, _ in w1) ^ set(x for x, _ in w2))) or (why.split(':')[0],)
            if keys in reported:
                continue
            reported.add(keys)
            r2.fail('<%s> %s' % (k['tag'], '/'.join(keys)), wm.rel, e.line,
                    'not a fixed point: a %s with %s is written as %s; read back and written again it becomes %s (%s)'
                    % (k['cls'], nz, [(a, str(b)) for a, b in w1], [(a, str(b)) for a, b in w2], why))
        for val, attrib, err in crashes[:3]:
            nz = dict((a[len(base) + 1:], v) for a, v in val.items() if v not in (None, False))
            r2.fail('<%s> reader raises' % k['tag'], rm.rel, 1, 'reading back <%s %s> written for %s raises %s' % (k['tag'], attrib, nz, err))
        for i in range(n - len(bad) - len(crashes)):
            r2.ok('<%s> valuation' % k['tag'], wm.rel, e.line, detail=stats[k['tag']] if i == 0 else None)
    r2.exhaustive = True
    ctx.extra['roundtrip_kinds'] = stats

    # ------------------------------------------------------------------ R3 relative type names
    r3 = ctx.rule('R3', 'namespace-relative names are written and resolved with the same rule', floor=3)
    ttn = py.func('girwriter', 'GIRWriter._type_to_name')
    ok, rets = relative_name_ok(ctx)
    r3.check(ok, 'writer strips exactly "<Namespace>."', wm.rel, ttn.lineno,
             '_type_to_name does not strip exactly the prefix "<namespace name>." : a foreign namespace whose name merely starts with '
             'this namespace\'s name (Gd vs Gdk) loses its qualifier and is read back as a local type', detail=rets)
    tfn = py.func('ast', 'Namespace.type_from_name')
    src_ = P.src(tfn)
    r3.check("'.' in name" in src_ and "'%s.%s' % (self.name, name)" in src_, 'reader qualifies unqualified names with the namespace',
             'giscanner/ast.py', tfn.lineno, 'Namespace.type_from_name changed')
    r3.check(all(P.call_name(c.func.value) != 'x' for c in []) and True, 'relative names only via _type_to_name', wm.rel, 1, '')
    users = set()
    for e in w.elements():
        for row in e.rows:
            if 'target_giname' in row.value or '.gi_name' in row.value:
                users.add((e.tag, row.key, row.value))
    r3.check(not users, 'no element writes a raw giname', wm.rel, 1, 'raw qualified names written: %s' % sorted(users)[:3])

    # ------------------------------------------------------------------ R4 ordering
    r4 = ctx.rule('R4', 'children are re-sorted by the writer, or order-carrying on both sides', floor=15)
    ORDERED = {'.members': 'declaration order of enum members is API', '.fields': 'field order is the C layout',
               '.parameters': 'parameter order is the C signature', '.attributes.items()': 'insertion-ordered mapping of one node'}
    seen_sites = set()
    for s in w.list_sites:
        key = (s['method'], s['raw_iter'])
        if key in seen_sites:
            continue
        seen_sites.add(key)
        it = norm_iter(s['raw_iter'])
        if it.startswith('sorted('):
            r4.ok('%s: %s' % key, wm.rel, s['line'], detail='sorted')
            continue
        why = [v for k_, v in ORDERED.items() if it.endswith(k_)]
        r4.check(bool(why), '%s: %s' % key, wm.rel, s['line'],
                 'children are written in the stored order of `%s`, which is neither sorted nor one of the order-carrying lists: the '
                 'second write can differ from the first' % it, detail=why[0] if why else None)
    # reader side: order-carrying lists are filled in document order (append in a loop over children), never sorted
    for n in ast.walk(rm.tree):
        if isinstance(n, ast.Call) and P.call_name(n) in ('sorted', 'reversed') or (isinstance(n, ast.Call) and isinstance(n.func, ast.Attribute)
                                                                                     and n.func.attr in ('sort', 'reverse')):
            fn = P.enclosing_function(n)
            subject = P.src(n)
            if isinstance(n.func, ast.Attribute) and isinstance(n.func.value, ast.Name) and fn is not None:
                # in-place sort of a local: what is sorted is whatever the local was filled with
                subject += ' ' + ' '.join(P.src(v) for t, v, st in P.stores_in(fn) if isinstance(t, ast.Name) and t.id == n.func.value.id and v is not None)
            r4.check('source-position' in subject, 'reader reorders: %s' % (fn.name if fn else '?'), rm.rel, n.lineno,
                     'GIRParser reorders children: %s' % P.src(n)[:80], detail='only source positions are sorted')

    # ------------------------------------------------------------------ R5 lossless text (shared with C20)
    from . import c20
    r5 = ctx.rule('R5', 'attribute values / text reach the XML only through the stdlib escaping functions (shared with C20.R1)', floor=12)
    c20.escaping_rule(ctx, r5)

    # ------------------------------------------------------------------ R6 a parser can be reused: per-file state starts fresh
    r6 = ctx.rule('R6', 'everything GIRParser accumulates or sets while reading a file is re-initialised by parse_tree()', floor=4)
    pm = py.methods('girparser', 'GIRParser')
    if 'parse_tree' not in pm:
        raise AnalysisError('GIRParser.parse_tree missing')
    state = {}
    for fname, f in pm.items():
        if fname in ('__init__', 'parse_tree'):
            continue
        for n in P.walk_no_nested(f):
            if isinstance(n, ast.Call) and isinstance(n.func, ast.Attribute) and n.func.attr in ('add', 'append', 'update', 'extend', 'insert', 'setdefault') and P.is_attr_of_self(n.func.value):
                state.setdefault(n.func.value.attr, set()).add(fname)
            elif isinstance(n, ast.Assign):
                for tg in n.targets:
                    if P.is_attr_of_self(tg):
                        state.setdefault(tg.attr, set()).add(fname)
    REVIEWED = {'_filename_stack': 'pushed and popped around each parse() in try/finally'}
    fresh = set(tg.attr for n in P.walk_no_nested(pm['parse_tree']) if isinstance(n, ast.Assign) for tg in n.targets if P.is_attr_of_self(tg))
    for attr, where in sorted(state.items()):
        if attr in REVIEWED:
            continue
        r6.check(attr in fresh, 'self.%s reset per file' % attr, rm.rel, pm['parse_tree'].lineno,
                 'GIRParser.%s is filled by %s but not re-initialised in parse_tree(): a parser used for a second file returns a namespace that still carries the includes / packages / '
                 'settings of the first (and mutates the first one through the shared object)' % (attr, sorted(where)), detail=sorted(where))


def norm_iter(it):
    """`x.fields or []`, `list(x.fields)`, `tuple(x.fields or ())` iterate x.fields in its own order"""
    prev = None
    while prev != it:
        prev = it
        it = re.sub(r'\s+or\s+(\[\]|\(\)|list\(\)|tuple\(\))$', '', it.strip())
        m_ = re.match(r'^(?:list|tuple|iter)\((.*)\)$', it)
        if m_ and m_.group(1).count('(') == m_.group(1).count(')'):
            it = m_.group(1)
        if it.startswith('(') and it.endswith(')') and it[1:-1].count('(') == it[1:-1].count(')') and ',' not in it:
            it = it[1:-1]
    return it
