"""C01 — parameter and return annotations are reflected exactly in the GIR."""
import ast
import re

from ..core import AnalysisError
from .. import pyfront as P
from .. import wattr, rst

EXPLANATION = ('Tables that must agree are extracted and compared: the documentation (giannotations.rst list-tables), the comment '
               'parser\'s valid_annotations, the consumption sites in MainTransformer reachable from _apply_annotations_param/_return, '
               'and the attribute table of GIRWriter.  A guarded-effect table (control dependence of every attribute store and every '
               'message.warn) of the annotation-application functions is queried for the documented (annotation -> store) rows, for '
               '"invalid => warned and not applied", for the (not) override being last, for the length parameter following the array\'s '
               'direction, and the writer emits each stored attribute under the documented XML key (indices only through checked '
               'lookups of the same parent).')

MT = 'maintransformer'


def check(ctx):
    py = ctx.py
    mt = py.mod(MT)
    rel = mt.rel
    ap = py.mod('annotationparser')
    A = lambda n: py.fold_name(ap, n)

    # ------------------------------------------------------------------ R1 vocabulary closure
    r1 = ctx.rule('R1', 'documented <= valid <= consumed annotations for parameters and return values', floor=40)
    text = ctx.read('docs/website/annotations/giannotations.rst')
    cut = text.find('Deprecated GObject-Introspection annotations')
    doc_rows = rst.annotation_rows(text[:cut] if cut > 0 else text)
    if len(doc_rows) < 30:
        raise AnalysisError('only %d annotation rows found in giannotations.rst' % len(doc_rows))
    doc_param = set(n for n, applies in doc_rows if 'parameter' in applies)
    doc_ret = set(n for n, applies in doc_rows if 'return value' in applies)
    valid_param = set(py.fold(py.class_attr('annotationparser', 'GtkDocParameter', 'valid_annotations')[1], ap))
    valid_tag = set(py.fold(py.class_attr('annotationparser', 'GtkDocTag', 'valid_annotations')[1], ap))
    for a in sorted(doc_param):
        r1.check(a in valid_param, 'documented parameter annotation (%s) accepted' % a, ap.rel, 1,
                 'the documentation lists (%s) for parameters but GtkDocParameter.valid_annotations does not contain it: it is reported as unexpected and ignored' % a)
    for a in sorted(doc_ret):
        r1.check(a in valid_tag, 'documented return-value annotation (%s) accepted' % a, ap.rel, 1,
                 'the documentation lists (%s) for return values but GtkDocTag.valid_annotations does not contain it' % a)
    # consumption
    reach_p = P.reachable_methods(py, MT, 'MainTransformer', ['_apply_annotations_param'])
    reach_r = P.reachable_methods(py, MT, 'MainTransformer', ['_apply_annotations_return'])
    methods = py.methods(MT, 'MainTransformer')
    ann_consts = dict((k, py.fold_name(ap, k)) for k in ap.assigns if k.startswith('ANN_') and k not in ('ANN_LPAR', 'ANN_RPAR'))

    def consumed(reach):
        out = {}
        for mname in reach:
            f = methods[mname]
            for n in P.walk_no_nested(f):
                nm = None
                if isinstance(n, ast.Compare) and len(n.ops) == 1 and isinstance(n.ops[0], (ast.In, ast.NotIn)) and isinstance(n.left, ast.Name):
                    nm = n.left.id
                elif isinstance(n, ast.Call) and isinstance(n.func, ast.Attribute) and n.func.attr == 'get' and n.args and isinstance(n.args[0], ast.Name):
                    nm = n.args[0].id
                elif isinstance(n, ast.Subscript) and isinstance(n.slice, ast.Name):
                    nm = n.slice.id
                elif isinstance(n, (ast.Tuple, ast.List)):
                    for e in n.elts:
                        if isinstance(e, ast.Name) and e.id in ann_consts:
                            out.setdefault(ann_consts[e.id], set()).add(mname)
                if nm in ann_consts:
                    out.setdefault(ann_consts[nm], set()).add(mname)
        return out
    cp, cr = consumed(reach_p), consumed(reach_r)
    for a in sorted(valid_param):
        r1.check(a in cp, 'parameter annotation (%s) consumed' % a, rel, 1,
                 '(%s) is accepted on parameters but nothing reachable from _apply_annotations_param looks at it: the annotation has no effect' % a,
                 detail=sorted(cp.get(a, ())))
    for a in sorted(valid_tag):
        r1.check(a in cr, 'return-value annotation (%s) consumed' % a, rel, 1,
                 '(%s) is accepted on return values but nothing reachable from _apply_annotations_return looks at it' % a, detail=sorted(cr.get(a, ())))

    # ------------------------------------------------------------------ R2 effect table
    r2 = ctx.rule('R2', 'documented (annotation -> model attribute) rows of the annotation-application functions', floor=25)
    common = py.func(MT, 'MainTransformer._apply_annotations_param_ret_common')
    eff = P.effects(common)
    stores = [e for e in eff if e.kind == 'store']

    def row(target, value, must=(), mustnot=(), what=None, fn_eff=None, where=None):
        cands = [e for e in (fn_eff or stores) if e.target == target and (value is None or e.value == value)]
        good = [e for e in cands if all(e.under(m_, pol) for m_, pol in must) and not any(e.under(m_, pol) for m_, pol in mustnot)]
        r2.check(bool(good), what or '%s = %s when %s' % (target, value, [m_ for m_, p_ in must]), rel, (cands[0].line if cands else (where or common).lineno),
                 'no store `%s = %s` under %s (candidates: %s): the annotation is not reflected in the model and hence not in the GIR'
                 % (target, value, ['%s%s' % ('' if p_ else 'not ', m_) for m_, p_ in must], [repr(c) for c in cands][:3]),
                 detail=repr(good[0]) if good else None)
        return good
    # direction
    dirs = {}
    for t, v, st in P.stores_in(common):
        if isinstance(t, ast.Name) and t.id == 'annotated_direction' and P.src(v) != 'None':
            g = [x for x in P.guards(st) if x.kind == 'if' and x.polarity]
            dirs[P.src(v)] = [P.src(x.test) for x in g][-1:] if g else []
    for ann, const in (('ANN_INOUT', 'ast.PARAM_DIRECTION_INOUT'), ('ANN_OUT', 'ast.PARAM_DIRECTION_OUT'), ('ANN_IN', 'ast.PARAM_DIRECTION_IN')):
        r2.check(dirs.get(const) == ['%s in annotations' % ann], '(%s) -> direction %s' % (A(ann), const.split('_')[-1].lower()), rel, common.lineno,
                 '%s is selected under %s, expected `%s in annotations`' % (const, dirs.get(const), ann), detail=dirs.get(const))
    row('node.direction', 'annotated_direction', must=[('annotated_direction is not None', True)])
    row('node.caller_allocates', 'caller_allocates', must=[('annotated_direction is not None', True)])
    ca = dict()
    for t, v, st in P.stores_in(common):
        if isinstance(t, ast.Name) and t.id == 'caller_allocates':
            g = [x.text() for x in P.guards(st) if x.kind == 'if']
            ca.setdefault(P.src(v), []).append(g)
    r2.check(any('option == OPT_OUT_CALLER_ALLOCATES' in g for g in ca.get('True', [[]])[0:3] for g in [' '.join(g)]) and
             any('option == OPT_OUT_CALLEE_ALLOCATES' in ' '.join(g) for g in ca.get('False', [])), '(out caller-allocates|callee-allocates) select caller_allocates',
             rel, common.lineno, 'caller_allocates assignments: %s' % ca)
    # nullable / optional / allow-none / not / skip / attributes
    row('node.nullable', 'True', must=[('ANN_NULLABLE in annotations', True), ('self._is_pointer_type(node, annotations)', True)])
    row('node.optional', 'True', must=[('ANN_OPTIONAL in annotations', True), ('isinstance(node, ast.Return)', None), ('ast.PARAM_DIRECTION_OUT', None)],
        what='(optional) only on out/inout parameters')
    row('node.nullable', 'False', must=[('ANN_NOT in annotations', True)])
    row('node.not_nullable', 'True', must=[('ANN_NOT in annotations', True)])
    row('node.skip', 'True', must=[('ANN_SKIP in annotations', True)])
    row('node.attributes[key]', 'value', must=[('attributes_annotation is not None', True)])
    row('node.nullable', 'True', must=[('node.type.is_equiv(ast.TYPE_ANY)', True)], what='untyped pointers are nullable by default')
    # (not) is the final word on nullability: no store of nullable can execute after it
    from .. import pycfg
    cfg = pycfg.CFG(common)
    nots = [e for e in stores if e.target == 'node.nullable' and e.value == 'False' and e.under('ANN_NOT in annotations', True)]
    later = []
    if nots:
        for e in stores:
            if e.target in ('node.nullable', 'node.not_nullable') and e.stmt is not nots[0].stmt and not e.under('ANN_NOT in annotations', True):
                if cfg.reaches(nots[0].stmt, e.stmt):
                    later.append(e)
    r2.check(nots and not later, '(not nullable) overrides: nothing stores nullable afterwards', rel, nots[0].line if nots else common.lineno,
             'after the (not) block nullable can still be changed by %s' % [repr(e) for e in later])
    # transfer
    tf = py.func(MT, 'MainTransformer._apply_transfer_annotation')
    teff = P.effects(tf)
    tst = [e for e in teff if e.kind == 'store' and e.target == 'node.transfer']
    r2.check(len(tst) == 1 and tst[0].value == 'transfer', 'transfer option stored', rel, tf.lineno, 'node.transfer stores: %s' % [repr(e) for e in tst])
    fl = [(P.src(v), [g.text() for g in P.guards(st) if g.kind == 'if']) for t, v, st in P.stores_in(tf) if isinstance(t, ast.Name) and t.id == 'transfer']
    r2.check(('OPT_TRANSFER_NONE', ['transfer == OPT_TRANSFER_FLOATING']) in fl and ('transfer_annotation[0]', []) in fl, '(transfer floating) means none', rel, tf.lineno,
             'transfer rewrites: %s' % fl, detail=fl)
    # arrays
    af = py.func(MT, 'MainTransformer._apply_annotations_array')
    aeff = P.effects(af)
    ast_ = [e for e in aeff if e.kind == 'store']
    row('container_type.length_param_name', 'paramname', must=[('paramname', True)], fn_eff=ast_, where=af)
    row('container_type.size', 'int(fixed)', must=[('fixed', True)], fn_eff=ast_, where=af)
    row('node.type', 'container_type', fn_eff=ast_, where=af)
    good = row('param.direction', 'node.direction', must=[('paramname', True)], fn_eff=ast_, where=af, what='length parameter follows the array\'s direction')
    if good:
        extra = [g for g in good[0].gtexts() if g not in ('length', 'paramname', 'not (isinstance(parent, ast.Compound))')]
        r2.check(not extra, 'length parameter direction copied for every direction', rel, good[0].line,
                 'the length parameter takes the array\'s direction only when %s: for the other directions (e.g. an inout array) it keeps its own' % extra, detail=extra)
    zt = [(e.value, e.gtexts()) for e in ast_ if e.target == 'container_type.zeroterminated']
    r2.check(('False', ["array_options.get(OPT_ARRAY_ZERO_TERMINATED, '0') == '0'"]) in zt and any(v == 'True' for v, g in zt), '(array zero-terminated=0|1) -> zeroterminated', rel, af.lineno,
             'zeroterminated stores: %s' % zt, detail=zt)
    # callbacks
    cf = py.func(MT, 'MainTransformer._apply_annotations_param_callback')
    ceff = [e for e in P.effects(cf) if e.kind == 'store']
    row('param.scope', 'scope_annotation[0]', must=[('scope_annotation and len(scope_annotation) == 1', True)], fn_eff=ceff, where=cf)
    row('param.destroy_name', 'self._get_validate_parameter_name(parent, destroy_annotation[0], param)', fn_eff=ceff, where=cf)
    row('param.closure_name', 'self._get_validate_parameter_name(parent, closure_annotation[0], param)', fn_eff=ceff, where=cf)
    row('param.scope', 'ast.PARAM_SCOPE_NOTIFIED', must=[('param.destroy_name is not None', True)], fn_eff=ceff, where=cf, what='(destroy) implies notified scope')
    gv = py.func(MT, 'MainTransformer._get_validate_parameter_name')
    r2.check(any(e.kind == 'call' and e.target == 'message.log_node' and 'message.FATAL' in e.value and e.under('param is None', True) for e in P.effects(gv)),
             'dangling parameter names are fatal', rel, gv.lineno, '_get_validate_parameter_name no longer fails on a name that is not a parameter')
    # type / element-type
    row('node.type', 'self._resolve_toplevel(type_annotation[0], node.type, node, parent)', must=[('type_annotation', True)])
    ef = py.func(MT, 'MainTransformer._apply_annotations_element_type')
    eeff = [e for e in P.effects(ef) if e.kind == 'store']
    for tgt in ('node.type.element_type', 'node.type.key_type', 'node.type.value_type'):
        r2.check(any(e.target == tgt and e.value.startswith('self._resolve(element_type_options[') for e in eeff), '(element-type) -> %s' % tgt.split('.')[-1], rel, ef.lineno,
                 'no store of %s from the element-type options' % tgt)

    # ------------------------------------------------------------------ R3 warn => not applied, invalid => warned
    r3 = ctx.rule('R3', 'an invalid annotation is warned about and leaves the attribute unchanged', floor=10)
    # transfer: each `invalid "transfer"` warning is immediately followed by return, and node.transfer is stored after all of them
    warns = [e for e in teff if e.kind == 'call' and e.target == 'message.warn' and 'invalid "transfer"' in e.value.replace('\\', '')]
    r3.check(len(warns) == 3, 'three transfer validity rules (floating, container, non-pointer)', rel, tf.lineno, '%d "invalid transfer" warnings found' % len(warns))
    tcfg = pycfg.CFG(tf)
    for w_ in warns:
        st = w_.stmt
        r3.check(not tcfg.reaches(st, tst[0].stmt) if tst else False, 'transfer not stored after warning (line %d)' % 0, rel, w_.line,
                 'after warning about an invalid transfer annotation the function still stores node.transfer')
    kinds = [' '.join(w_.gtexts()) for w_ in warns]
    r3.check(any('OPT_TRANSFER_FLOATING' in k and 'ast.Class, ast.Interface' in k for k in kinds) and any('OPT_TRANSFER_CONTAINER' in k and 'ast.Array, ast.List, ast.Map' in k for k in kinds)
             and any('self._is_pointer_type(node, annotations)' in k for k in kinds), 'transfer validity conditions', rel, tf.lineno, 'conditions: %s' % kinds)
    # nullable / optional / allow-none: warning in the else branch of the applying if
    for ann, attr, cond in (('ANN_NULLABLE', 'node.nullable', 'self._is_pointer_type(node, annotations)'),
                            ('ANN_OPTIONAL', 'node.optional', 'node.direction in'), ('ANN_ALLOW_NONE', 'node.nullable', 'self._is_pointer_type(node, annotations)')):
        ws = [e for e in eff if e.kind == 'call' and e.target == 'message.warn' and e.under('%s in annotations' % ann, True)]
        ok = len(ws) == 1 and ws[0].under(cond, False)
        r3.check(ok, 'invalid (%s) warned' % A(ann), rel, ws[0].line if ws else common.lineno, 'no warning for an invalid (%s) (guards %s)' % (A(ann), [w_.gtexts() for w_ in ws]))
        if ok:
            applied = [e for e in stores if e.target == attr and e.value == 'True' and e.under('%s in annotations' % ann, True)]
            r3.check(all(e.under(cond, True) or e.under('node.direction == ast.PARAM_DIRECTION_OUT', True) for e in applied) and applied,
                     '(%s) applied only where valid' % A(ann), rel, applied[0].line if applied else common.lineno,
                     '(%s) is applied without its validity condition: %s' % (A(ann), [repr(e) for e in applied]))
    # _is_pointer_type: a return value is never a pointer merely because its direction is out
    ip = py.func(MT, 'MainTransformer._is_pointer_type')
    first = [n for n in P.walk_no_nested(ip) if isinstance(n, ast.Return) and P.src(n.value) == 'True']
    g = [x.text() for r_ in first for x in P.guards(r_)]
    r3.check(any('not isinstance(node, ast.Return)' in t and 'ast.PARAM_DIRECTION_OUT' in t for t in g), 'out-direction shortcut excludes return values', rel, ip.lineno,
             '_is_pointer_type treats everything with direction out as a pointer (%s): ast.Return always has direction out, so nullable/transfer on a plain gint '
             'return value are accepted silently' % g, detail=g)
    # callbacks: scope/destroy/closure on non-callbacks
    cw = [e for e in P.effects(cf) if e.kind == 'call' and e.target == 'message.warn' and e.under('isinstance(target, ast.Callback)', False)]
    rets = [n for n in P.walk_no_nested(cf) if isinstance(n, ast.Return) and any(x.text() == 'not isinstance(target, ast.Callback)' for x in P.guards(n))]
    r3.check(len(cw) == 1 and len(rets) == 1 and 'ANN_SCOPE, ANN_DESTROY, ANN_CLOSURE' in P.src(cf), 'scope/destroy/closure on a non-callback: warned and ignored', rel, cf.lineno,
             'non-callback branch changed')
    clf = py.func(MT, 'MainTransformer._apply_annotations_param_closure')
    cl_st = [e for e in P.effects(clf) if e.kind == 'store' and e.target == 'param.closure_name']
    r3.check(len(cl_st) == 1 and cl_st[0].under('len(closure_annotation) != 0', False), '(closure X) with argument on a callback type is rejected', rel, clf.lineno,
             'closure_name stores: %s' % [repr(e) for e in cl_st])

    # ------------------------------------------------------------------ R4 emission mapping
    r4 = ctx.rule('R4', 'stored attributes are emitted under the documented XML keys; indices through checked lookups of the same parent', floor=14)
    w = wattr.WriterModel(py)
    pe = [e for e in w.by_tag()['parameter'] if e.method == '_write_parameter'][0]
    rows = dict()
    for r_ in pe.rows:
        rows.setdefault(r_.key, []).append(r_)
    base = 'parameter'
    expect = {'transfer-ownership': '%s.transfer' % base, 'direction': '%s.direction' % base, 'scope': '%s.scope' % base, 'name': '%s.argname' % base}
    for k, v in sorted(expect.items()):
        r4.check(any(x.value == v for x in rows.get(k, [])), 'parameter/@%s <- %s' % (k, v), w.mod.rel, rows[k][0].line if k in rows else 1,
                 'parameter/@%s is written from %s' % (k, [x.value for x in rows.get(k, [])]), detail=[str(x) for x in rows.get(k, [])])
    flag = {'nullable': ('parameter.nullable', 'parameter.not_nullable'), 'optional': ('parameter.optional',), 'skip': ('parameter.skip',)}
    for k, atoms in sorted(flag.items()):
        gt = [x.guard_text() for x in rows.get(k, [])]
        r4.check(len(gt) == 1 and all(a in gt[0] for a in atoms) and rows[k][0].value == "'1'", 'parameter/@%s="1" iff %s' % (k, ' and not '.join(atoms)), w.mod.rel,
                 rows[k][0].line if k in rows else 1, 'parameter/@%s is written when %s' % (k, gt), detail=gt)
    ca_ = rows.get('caller-allocates', [])
    r4.check(len(ca_) == 1 and ca_[0].value == "'1' if parameter.caller_allocates else '0'", 'caller-allocates written as 1/0', w.mod.rel, ca_[0].line if ca_ else 1,
             'caller-allocates rows: %s' % [str(x) for x in ca_])
    for k, attr in (('closure', 'closure_name'), ('destroy', 'destroy_name')):
        x = rows.get(k, [])
        ok = len(x) == 1 and x[0].value == "'%%d' %% (node.get_parameter_index(parameter.%s),)" % attr and x[0].guard_text() == 'parameter.%s is not None' % attr
        r4.check(ok, 'parameter/@%s = index of %s in the same callable' % (k, attr), w.mod.rel, x[0].line if x else 1, '%s rows: %s' % (k, [str(y) for y in x]),
                 detail=[str(y) for y in x])
    wp = py.func('girwriter', 'GIRWriter._write_parameter')
    idxs = [c for c in P.calls_in(wp) if isinstance(c.func, ast.Attribute) and c.func.attr == 'get_parameter_index']
    r4.check(len(idxs) == 2 and all(P.src(c.func.value) == wp.args.args[1].arg for c in idxs), 'indices computed on the parent being written', w.mod.rel, wp.lineno, 'get_parameter_index receivers changed')
    gpi = py.func('ast', 'Callable.get_parameter_index')
    r4.check(any(isinstance(n, ast.Raise) for n in ast.walk(gpi)), 'get_parameter_index raises on unknown names', 'giscanner/ast.py', gpi.lineno, 'get_parameter_index no longer raises for a dangling name')
    # arrays
    arr = [e for e in w.by_tag()['array'] if any(r_.key == 'length' for r_ in e.rows)][0]
    arows = {}
    for r_ in arr.rows:
        arows.setdefault(r_.key, []).append(r_)
    abase = arows['fixed-size'][0].value.split('(')[-1].split('.size')[0] if 'fixed-size' in arows else None
    r4.check(abase is not None and arows['fixed-size'][0].guard_text() == '%s.size is not None' % abase, 'array/@fixed-size <- size', w.mod.rel, arows['fixed-size'][0].line if 'fixed-size' in arows else 1,
             'fixed-size rows: %s' % [str(x) for x in arows.get('fixed-size', [])])
    r4.check('length' in arows and arows['length'][0].guard_text() == '%s.length_param_name is not None' % abase, 'array/@length <- length_param_name', w.mod.rel,
             arows['length'][0].line if 'length' in arows else 1, 'length rows: %s' % [str(x) for x in arows.get('length', [])])
    wt = py.func('girwriter', 'GIRWriter._write_type')
    li = [(P.src(c.func.value), c.func.attr, [g.text() for g in P.guards(c) if g.kind == 'if'][-1:]) for c in P.calls_in(wt) if isinstance(c.func, ast.Attribute) and c.func.attr in ('get_parameter_index', 'get_field_index')]
    r4.check(sorted(li) == sorted([('parent', 'get_parameter_index', ['isinstance(parent, ast.Callable)']), ('parent', 'get_field_index', ['isinstance(parent, ast.Compound)'])]),
             'length index: parameter index in callables, field index in compounds', w.mod.rel, wt.lineno, 'length lookups: %s' % li, detail=li)
    z1 = [x.guard_text() for x in arows.get('zero-terminated', []) if x.value == "'1'"]
    z0 = [x.guard_text() for x in arows.get('zero-terminated', []) if x.value == "'0'"]
    r4.check(len(z1) == 1 and '.size is not None or' in z1[0] and '.length_param_name is not None' in z1[0] and len(z0) == 1 and z0[0].startswith('not '), 'zero-terminated explicit whenever the reader default differs',
             w.mod.rel, arows['zero-terminated'][0].line if 'zero-terminated' in arows else 1,
             'zero-terminated="1" is written when %s: an array that is zero-terminated AND has a fixed size or a length needs the explicit attribute, because readers '
             'default to "not zero-terminated" as soon as fixed-size/length is present' % z1, detail={'1': z1, '0': z0})
    rv = [e for e in w.by_tag()['return-value']][0]
    rr = dict((x.key, x) for x in rv.rows)
    rb = rr['transfer-ownership'].value.rsplit('.', 1)[0] if 'transfer-ownership' in rr else '?'
    r4.check(set(rr) == {'transfer-ownership', 'skip', 'nullable'} and rr['nullable'].guard_text() == '%s.nullable and (not %s.not_nullable)' % (rb, rb), 'return-value attributes', w.mod.rel, rv.line,
             'return-value rows: %s' % [str(x) for x in rv.rows], detail=[str(x) for x in rv.rows])
