"""C01 — parameter and return annotations are reflected exactly in the GIR."""
import ast
import re

from ..core import AnalysisError
from .. import pyfront as P
from .. import wattr, rst, gsa

EXPLANATION = ('Tables that must agree are extracted and compared: the documentation (giannotations.rst list-tables), the comment '
               'parser\'s valid_annotations, the consumption sites in MainTransformer reachable from _apply_annotations_param/_return, '
               'and the attribute table of GIRWriter.  A guarded-effect table (control dependence of every attribute store and every '
               'message.warn) of the annotation-application functions is queried for the documented (annotation -> store) rows, for '
               '"invalid => warned and not applied", for the (not) override being last, for the length parameter following the array\'s '
               'direction, and the writer emits each stored attribute under the documented XML key (indices only through checked '
               'lookups of the same parent).')

MT = 'maintransformer'


def check(ctx):
    py = ctx.py
    mt = py.mod(MT)
    rel = mt.rel
    ap = py.mod('annotationparser')
    A = lambda n: py.fold_name(ap, n)

    # ------------------------------------------------------------------ R1 vocabulary closure
    r1 = ctx.rule('R1', 'documented <= valid <= consumed annotations for parameters and return values', floor=40)
    text = ctx.read('docs/website/annotations/giannotations.rst')
    cut = text.find('Deprecated GObject-Introspection annotations')
    doc_rows = rst.annotation_rows(text[:cut] if cut > 0 else text)
    if len(doc_rows) < 30:
        raise AnalysisError('only %d annotation rows found in giannotations.rst' % len(doc_rows))
    doc_param = set(n for n, applies in doc_rows if 'parameter' in applies)
    doc_ret = set(n for n, applies in doc_rows if 'return value' in applies)
    valid_param = set(py.fold(py.class_attr('annotationparser', 'GtkDocParameter', 'valid_annotations')[1], ap))
    valid_tag = set(py.fold(py.class_attr('annotationparser', 'GtkDocTag', 'valid_annotations')[1], ap))
    for a in sorted(doc_param):
        r1.check(a in valid_param, 'documented parameter annotation (%s) accepted' % a, ap.rel, 1,
                 'the documentation lists (%s) for parameters but GtkDocParameter.valid_annotations does not contain it: it is reported as unexpected and ignored' % a)
    for a in sorted(doc_ret):
        r1.check(a in valid_tag, 'documented return-value annotation (%s) accepted' % a, ap.rel, 1,
                 'the documentation lists (%s) for return values but GtkDocTag.valid_annotations does not contain it' % a)
    # consumption
    reach_p = P.reachable_methods(py, MT, 'MainTransformer', ['_apply_annotations_param'])
    reach_r = P.reachable_methods(py, MT, 'MainTransformer', ['_apply_annotations_return'])
    methods = py.methods(MT, 'MainTransformer')
    ann_consts = dict((k, py.fold_name(ap, k)) for k in ap.assigns if k.startswith('ANN_') and k not in ('ANN_LPAR', 'ANN_RPAR'))

    def consumed(reach):
        out = {}
        for mname in reach:
            f = methods[mname]
            for n in P.walk_no_nested(f):
                nm = None
                if isinstance(n, ast.Compare) and len(n.ops) == 1 and isinstance(n.ops[0], (ast.In, ast.NotIn)) and isinstance(n.left, ast.Name):
                    nm = n.left.id
                elif isinstance(n, ast.Call) and isinstance(n.func, ast.Attribute) and n.func.attr == 'get' and n.args and isinstance(n.args[0], ast.Name):
                    nm = n.args[0].id
                elif isinstance(n, ast.Subscript) and isinstance(n.slice, ast.Name):
                    nm = n.slice.id
                elif isinstance(n, (ast.Tuple, ast.List)):
                    for e in n.elts:
                        if isinstance(e, ast.Name) and e.id in ann_consts:
                            out.setdefault(ann_consts[e.id], set()).add(mname)
                if nm in ann_consts:
                    out.setdefault(ann_consts[nm], set()).add(mname)
        return out
    cp, cr = consumed(reach_p), consumed(reach_r)
    for a in sorted(valid_param):
        r1.check(a in cp, 'parameter annotation (%s) consumed' % a, rel, 1,
                 '(%s) is accepted on parameters but nothing reachable from _apply_annotations_param looks at it: the annotation has no effect' % a,
                 detail=sorted(cp.get(a, ())))
    for a in sorted(valid_tag):
        r1.check(a in cr, 'return-value annotation (%s) consumed' % a, rel, 1,
                 '(%s) is accepted on return values but nothing reachable from _apply_annotations_return looks at it' % a, detail=sorted(cr.get(a, ())))

    # ------------------------------------------------------------------ R2 effect table (gated summaries)
    r2 = ctx.rule('R2', 'documented (annotation -> model attribute) rows of the annotation-application functions', floor=25)
    OPAQUE = ('_is_pointer_type', '_get_validate_parameter_name', '_resolve_toplevel', '_resolve', '_get_transfer_default')
    SP = gsa.summarise(ctx, MT, 'MainTransformer._apply_annotations_param', opaque=OPAQUE)
    SR = gsa.summarise(ctx, MT, 'MainTransformer._apply_annotations_return', opaque=OPAQUE)
    fn = SP.func
    if len(SP.params) < 4:
        raise AnalysisError('_apply_annotations_param no longer takes (parent, param, tag)')
    parent, node, tag = SP.P(1), SP.P(2), SP.P(3)
    N = re.escape(node)
    TAG = [(r'^%s$' % re.escape(tag), True)]
    ctx.notes.append('C01 gated summary of _apply_annotations_param: %d effects, helpers inlined: %s' % (len(SP.effects), sorted(SP.inlined)))

    def line_of(effs, default=None):
        return effs[0].line if effs else (default or fn).lineno

    def show_(effs):
        return ['%s = %s if %s' % (e.target, e.value[:60], e.when()[:160]) for e in effs][:4]

    def row(target, value, must, what, S=SP, forbid=(), given=()):
        """a store target=value exists that needs every `must` atom, is impossible under each `forbid` atom and possible when must+given hold"""
        cands = gsa.find(S, 'store', target, value)
        good = [e for e in cands if all(gsa.needs(S, e, m_) for m_ in must) and all(gsa.impossible(S, e, [f_] if isinstance(f_, tuple) else [(f_, 'P')]) for f_ in forbid)
                and gsa.allowed(S, e, TAG + [(m_, 'P') for m_ in must] + list(given))]
        r2.check(bool(good), what, rel, line_of(good or cands),
                 'no store matching `%s = %s` that happens exactly when %s hold%s (candidates: %s): the annotation is not reflected in the model and hence not in the GIR'
                 % (target, value, list(must), (' and never when %s' % list(forbid)) if forbid else '', show_(cands)), detail=show_(good))
        return good

    def ann(c):
        return r'\b%s\b' % c
    # direction: inout > out > in
    D = r'^%s\.direction$' % N
    for spec, const in (([(ann('ANN_INOUT'), True), (ann('ANN_OUT'), True), (ann('ANN_IN'), True)], 'ast.PARAM_DIRECTION_INOUT'),
                        ([(ann('ANN_INOUT'), False), (ann('ANN_OUT'), True), (ann('ANN_IN'), True)], 'ast.PARAM_DIRECTION_OUT'),
                        ([(ann('ANN_INOUT'), False), (ann('ANN_OUT'), False), (ann('ANN_IN'), True)], 'ast.PARAM_DIRECTION_IN')):
        got = gsa.possible(SP, D, TAG + spec)
        r2.check(got == {const}, '(%s) -> direction %s' % (const.split('_')[-1].lower(), const.split('_')[-1].lower()), rel, line_of(gsa.find(SP, 'store', D)),
                 'with the annotations %s the stored direction can be %s, expected exactly %s' % ([p_ for p_, v_ in spec if v_], sorted(got), const), detail=sorted(got))
    none = gsa.possible(SP, D, TAG + [(ann('ANN_INOUT'), False), (ann('ANN_OUT'), False), (ann('ANN_IN'), False)])
    r2.check(not none, 'no direction annotation: direction untouched', rel, line_of(gsa.find(SP, 'store', D)), 'without (in)/(out)/(inout) the direction may still be set to %s' % sorted(none))
    CA = r'^%s\.caller_allocates$' % N
    base = TAG + [(ann('ANN_INOUT'), False), (r'OPT_OUT_CALLER_ALLOCATES', None), (r'OPT_OUT_CALLEE_ALLOCATES', None)]
    got_t = gsa.possible(SP, CA, TAG + [(ann('ANN_INOUT'), False), (r'OPT_OUT_CALLER_ALLOCATES', True), (r'OPT_OUT_CALLEE_ALLOCATES', False), (ann('ANN_OUT'), True)])
    got_f = gsa.possible(SP, CA, TAG + [(ann('ANN_INOUT'), False), (r'OPT_OUT_CALLER_ALLOCATES', False), (r'OPT_OUT_CALLEE_ALLOCATES', True), (ann('ANN_OUT'), True)])
    r2.check(got_t == {'True'} and got_f == {'False'}, '(out caller-allocates|callee-allocates) select caller_allocates', rel, line_of(gsa.find(SP, 'store', CA)),
             'caller_allocates under (out caller-allocates) can be %s, under (out callee-allocates) %s' % (sorted(got_t), sorted(got_f)), detail=[sorted(got_t), sorted(got_f)])
    # nullable / optional / allow-none / not / skip / attributes / type
    PT = r'_is_pointer_type\('
    row(r'^%s\.nullable$' % N, r'^True$', [ann('ANN_NULLABLE'), PT], '(nullable) -> nullable on pointer types')
    row(r'^%s\.optional$' % N, r'^True$', [ann('ANN_OPTIONAL')], '(optional) only on out/inout parameters', forbid=[r'isinstance\(%s, ast\.Return\)' % N],
        given=[(r'PARAM_DIRECTION_OUT', True), (r'isinstance\(%s, ast\.Return\)' % N, False)])
    opt = [e for e in gsa.find(SP, 'store', r'^%s\.optional$' % N, r'^True$') if gsa.needs(SP, e, ann('ANN_OPTIONAL'))]
    r2.check(opt and all(gsa.needs(SP, e, r'PARAM_DIRECTION_(OUT|INOUT)') for e in opt), '(optional) needs direction out or inout', rel, line_of(opt),
             '(optional) is applied when the direction is neither out nor inout: %s' % show_(opt))
    row(r'^%s\.nullable$' % N, r'^False$', [ann('ANN_NOT')], '(not nullable) -> nullable = False')
    row(r'^%s\.not_nullable$' % N, r'^True$', [ann('ANN_NOT')], '(not nullable) -> not_nullable = True')
    row(r'^%s\.skip$' % N, r'^True$', [ann('ANN_SKIP')], '(skip) -> skip')
    row(r'^%s\.attributes\[' % N, r'', [ann('ANN_ATTRIBUTES')], '(attributes) -> attributes[key] = value')
    row(r'^%s\.nullable$' % N, r'^True$', [r'is_equiv\(ast\.TYPE_ANY\)'], 'untyped pointers are nullable by default')
    row(r'^%s\.type$' % N, r'_resolve_toplevel\(.*ANN_TYPE', [ann('ANN_TYPE')], '(type) -> type')
    # (not) is the final word on nullability
    fin = gsa.possible(SP, r'^%s\.nullable$' % N, TAG + [(ann('ANN_NOT'), True)])
    r2.check(fin == {'False'}, '(not nullable) overrides: nothing stores nullable afterwards', rel, line_of(gsa.find(SP, 'store', r'^%s\.nullable$' % N, '^False$')),
             'with (not nullable) present nullable can end up as %s' % sorted(fin), detail=sorted(fin))
    # transfer
    T = r'^%s\.transfer$' % N
    raw = [e for e in gsa.find(SP, 'store', T, r'ANN_TRANSFER') if gsa.needs(SP, e, ann('ANN_TRANSFER'))]
    r2.check(bool(raw), 'transfer option stored', rel, line_of(raw), '%s.transfer stores: %s' % (node, show_(gsa.find(SP, 'store', T))))
    fl = gsa.possible(SP, T, TAG + [(r'== OPT_TRANSFER_FLOATING$', True), (r'== OPT_TRANSFER_\w+$', False), (ann('ANN_TRANSFER'), 'P')], value=r'ANN_TRANSFER|OPT_TRANSFER')
    r2.check(fl == {'OPT_TRANSFER_NONE'}, '(transfer floating) means none', rel, line_of(raw), 'with (transfer floating) the stored transfer can be %s' % sorted(fl), detail=sorted(fl))
    # arrays
    row(r'\.length_param_name$', r'', [r'OPT_ARRAY_LENGTH'], '(array length=) -> length_param_name')
    row(r'\.size$', r'^int\(.*OPT_ARRAY_FIXED_SIZE', [r'OPT_ARRAY_FIXED_SIZE'], '(array fixed-size=) -> size')
    row(r'^%s\.type$' % N, r'^ast\.Array\(', [ann('ANN_ARRAY')], '(array) -> Array type')
    ld = row(r'get_parameter\(.*\)\.direction$', r'^%s\.direction$' % N, [r'OPT_ARRAY_LENGTH'], 'length parameter follows the array\'s direction')
    if ld:
        extra = sorted(set(a_ for e in ld for a_ in gsa.atoms(e.cond) if 'PARAM_DIRECTION' in a_))
        r2.check(not extra, 'length parameter direction copied for every direction', rel, ld[0].line,
                 'the length parameter takes the array\'s direction only when %s: for the other directions (e.g. an inout array) it keeps its own' % extra, detail=extra)
    Z = r'\.zeroterminated$'
    z0 = gsa.possible(SP, Z, TAG + [(r"OPT_ARRAY_ZERO_TERMINATED, '0'\) == '0'", True), (ann('ANN_ARRAY'), True)])
    z1 = gsa.possible(SP, Z, TAG + [(r"OPT_ARRAY_ZERO_TERMINATED, '0'\) == '0'", False), (r'OPT_ARRAY_ZERO_TERMINATED', True), (ann('ANN_ARRAY'), True)])
    r2.check(z0 == {'False'} and z1 == {'True'}, '(array zero-terminated=0|1) -> zeroterminated', rel, line_of(gsa.find(SP, 'store', Z)),
             'zero-terminated=0 gives %s, zero-terminated=1 gives %s' % (sorted(z0), sorted(z1)), detail=[sorted(z0), sorted(z1)])
    # callbacks
    CB = r'ast\.Callback\)'
    row(r'\.scope$', r'ANN_SCOPE\)\[0\]$', [ann('ANN_SCOPE'), CB], '(scope) -> scope')
    row(r'\.destroy_name$', r'_get_validate_parameter_name\(.*ANN_DESTROY', [ann('ANN_DESTROY'), CB], '(destroy) -> destroy_name (validated)')
    row(r'\.closure_name$', r'_get_validate_parameter_name\(.*ANN_CLOSURE', [ann('ANN_CLOSURE'), CB], '(closure) -> closure_name (validated)')
    row(r'^%s\.scope$' % N, r'^ast\.PARAM_SCOPE_NOTIFIED$', [ann('ANN_DESTROY')], '(destroy) implies notified scope', forbid=[(r'destroy_name is None$', True)])
    GV = gsa.summarise(ctx, MT, 'MainTransformer._get_validate_parameter_name')
    fatal = [e for e in gsa.find(GV, 'call', r'^message\.log_node$') if any('FATAL' in a_ for a_ in e.args)]
    r2.check(any(gsa.impossible(GV, e, [(r' is None$', False), (r'^@except', False)]) and gsa.allowed(GV, e, [(r' is None$', True), (r'^@except', False)]) for e in fatal), 'dangling parameter names are fatal', rel, line_of(fatal, GV.func),
             '_get_validate_parameter_name no longer fails on a name that is not a parameter')
    # element-type
    for attr in ('element_type', 'key_type', 'value_type'):
        row(r'^%s\.type\.%s$' % (N, attr), r'_resolve\(.*ANN_ELEMENT_TYPE', [ann('ANN_ELEMENT_TYPE')], '(element-type) -> %s' % attr)

    # ------------------------------------------------------------------ R3 warn => not applied, invalid => warned
    r3 = ctx.rule('R3', 'an invalid annotation is warned about and leaves the attribute unchanged', floor=10)
    warns = [e for e in gsa.find(SP, 'call', r'^message\.warn$') if 'invalid "transfer"' in e.value.replace('\\', '')]
    r3.check(len(warns) >= 3, 'three transfer validity rules (floating, container, non-pointer)', rel, line_of(warns), '%d "invalid transfer" warnings found' % len(warns))
    tstores = [e for e in gsa.find(SP, 'store', T) if '_get_transfer_default' not in e.value]
    for w_ in warns:
        both = [e for e in tstores if gsa.compatible(w_, e)]
        r3.check(not both, 'transfer not stored after warning', rel, w_.line,
                 'after warning about an invalid transfer annotation the function still stores %s' % show_(both))
    kinds = [' '.join(gsa.atoms(w_.cond)) for w_ in warns]
    r3.check(any('OPT_TRANSFER_FLOATING' in k and 'ast.Class' in k and 'ast.Interface' in k for k in kinds) and any('OPT_TRANSFER_CONTAINER' in k and 'ast.Array' in k and 'ast.List' in k and 'ast.Map' in k for k in kinds)
             and any('_is_pointer_type(' in k for k in kinds), 'transfer validity conditions', rel, line_of(warns), 'conditions: %s' % [k[:200] for k in kinds])
    for annc, attr, cond, text in (('ANN_NULLABLE', 'nullable', PT, '"nullable"'), ('ANN_OPTIONAL', 'optional', r'PARAM_DIRECTION_(OUT|INOUT)', '"optional"'),
                                   ('ANN_ALLOW_NONE', '(nullable|optional)', PT, '"allow-none"')):
        ws = [e for e in gsa.find(SP, 'call', r'^message\.warn$') if text in e.value and gsa.needs(SP, e, ann(annc))]
        ok = len(ws) >= 1 and all(gsa.impossible(SP, w_, [(cond, True), (r'isinstance\(%s, ast\.Return\)' % N, False)]) for w_ in ws)
        r3.check(ok, 'invalid (%s) warned' % A(annc), rel, line_of(ws), 'no warning for an invalid (%s) (conditions %s)' % (A(annc), [w_.when()[:200] for w_ in ws]))
        if ok:
            applied = [e for e in gsa.find(SP, 'store', r'^%s\.%s$' % (N, attr), r'^True$') if gsa.needs(SP, e, ann(annc))]
            clash = [(w_, e) for w_ in ws for e in applied if gsa.compatible(w_, e)]
            r3.check(applied and not clash and all(gsa.needs(SP, e, cond) or gsa.needs(SP, e, r'PARAM_DIRECTION_OUT') for e in applied),
                     '(%s) applied only where valid' % A(annc), rel, line_of(applied),
                     '(%s) is applied without its validity condition or together with its warning: %s' % (A(annc), show_(applied)))
    # _is_pointer_type: a return value is never a pointer merely because its direction is out
    IP = gsa.summarise(ctx, MT, 'MainTransformer._is_pointer_type')
    short = [(g, n) for g, n in IP.returns if gsa._unparse(n) == 'True' and any('PARAM_DIRECTION_OUT' in a_ for a_ in gsa.atoms(g))]
    okp = bool(short) and all(gsa.ev3(g, dict((a_, True) for a_ in gsa.atoms(g) if re.search(r'isinstance\(\w+, ast\.Return\)', a_))) is False for g, n in short)
    r3.check(okp, 'out-direction shortcut excludes return values', rel, IP.func.lineno,
             '_is_pointer_type treats everything with direction out as a pointer (%s): ast.Return always has direction out, so nullable/transfer on a plain gint '
             'return value are accepted silently' % [gsa.show(g)[:200] for g, n in short], detail=[gsa.show(g)[:200] for g, n in short])
    # callbacks: scope/destroy/closure on non-callbacks
    cw = [e for e in gsa.find(SP, 'call', r'^message\.warn$') if gsa.excluded_by(SP, e, CB) and re.search(r'ANN_(SCOPE|DESTROY|CLOSURE)', e.when())]
    cstores = gsa.find(SP, 'store', r'\.(scope|destroy_name|closure_name)$')
    cstores = [e for e in cstores if gsa.needs(SP, e, r'ANN_(SCOPE|DESTROY|CLOSURE)\b') and 'argname' not in e.value]
    clash = [(w_, e) for w_ in cw for e in cstores if gsa.compatible(w_, e)]
    r3.check(len(cw) >= 1 and not clash and all(any(re.search(a_, w_.when()) for w_ in cw) for a_ in ('ANN_SCOPE', 'ANN_DESTROY', 'ANN_CLOSURE')),
             'scope/destroy/closure on a non-callback: warned and ignored', rel, line_of(cw), 'non-callback branch changed: warnings %s, stores alongside %s' % (show_(cw), show_([e for w_, e in clash])))
    cl_st = gsa.find(SP, 'store', r'\.closure_name$', r'\.argname$')
    r3.check(len(cl_st) >= 1 and all(gsa.excluded_by(SP, e, r'\.get\(ANN_CLOSURE\)$') for e in cl_st), '(closure X) with argument on a callback type is rejected', rel, line_of(cl_st),
             'closure_name stores: %s' % show_(cl_st))

    # ------------------------------------------------------------------ R4 emission mapping
    r4 = ctx.rule('R4', 'stored attributes are emitted under the documented XML keys; indices through checked lookups of the same parent', floor=14)
    w = wattr.WriterModel(py)
    pe = [e for e in w.by_tag()['parameter'] if e.method == '_write_parameter'][0]
    rows = dict()
    for r_ in pe.rows:
        rows.setdefault(r_.key, []).append(r_)
    base = 'parameter'
    expect = {'transfer-ownership': '%s.transfer' % base, 'direction': '%s.direction' % base, 'scope': '%s.scope' % base, 'name': '%s.argname' % base}
    for k, v in sorted(expect.items()):
        r4.check(any(x.value == v for x in rows.get(k, [])), 'parameter/@%s <- %s' % (k, v), w.mod.rel, rows[k][0].line if k in rows else 1,
                 'parameter/@%s is written from %s' % (k, [x.value for x in rows.get(k, [])]), detail=[str(x) for x in rows.get(k, [])])
    flag = {'nullable': ('parameter.nullable', 'parameter.not_nullable'), 'optional': ('parameter.optional',), 'skip': ('parameter.skip',)}
    for k, atoms in sorted(flag.items()):
        gt = [x.guard_text() for x in rows.get(k, [])]
        r4.check(len(gt) == 1 and all(a in gt[0] for a in atoms) and rows[k][0].value == "'1'", 'parameter/@%s="1" iff %s' % (k, ' and not '.join(atoms)), w.mod.rel,
                 rows[k][0].line if k in rows else 1, 'parameter/@%s is written when %s' % (k, gt), detail=gt)
    ca_ = rows.get('caller-allocates', [])
    r4.check(len(ca_) == 1 and ca_[0].value == "'1' if parameter.caller_allocates else '0'", 'caller-allocates written as 1/0', w.mod.rel, ca_[0].line if ca_ else 1,
             'caller-allocates rows: %s' % [str(x) for x in ca_])
    for k, attr in (('closure', 'closure_name'), ('destroy', 'destroy_name')):
        x = rows.get(k, [])
        ok = len(x) == 1 and x[0].value == "'%%d' %% (node.get_parameter_index(parameter.%s),)" % attr and x[0].guard_text() == 'parameter.%s is not None' % attr
        r4.check(ok, 'parameter/@%s = index of %s in the same callable' % (k, attr), w.mod.rel, x[0].line if x else 1, '%s rows: %s' % (k, [str(y) for y in x]),
                 detail=[str(y) for y in x])
    wp = py.func('girwriter', 'GIRWriter._write_parameter')
    idxs = [c for c in P.calls_in(wp) if isinstance(c.func, ast.Attribute) and c.func.attr == 'get_parameter_index']
    r4.check(len(idxs) == 2 and all(P.src(c.func.value) == wp.args.args[1].arg for c in idxs), 'indices computed on the parent being written', w.mod.rel, wp.lineno, 'get_parameter_index receivers changed')
    gpi = py.func('ast', 'Callable.get_parameter_index')
    r4.check(any(isinstance(n, ast.Raise) for n in ast.walk(gpi)), 'get_parameter_index raises on unknown names', 'giscanner/ast.py', gpi.lineno, 'get_parameter_index no longer raises for a dangling name')
    # arrays
    arr = [e for e in w.by_tag()['array'] if any(r_.key == 'length' for r_ in e.rows)][0]
    arows = {}
    for r_ in arr.rows:
        arows.setdefault(r_.key, []).append(r_)
    abase = arows['fixed-size'][0].value.split('(')[-1].split('.size')[0] if 'fixed-size' in arows else None
    r4.check(abase is not None and arows['fixed-size'][0].guard_text() == '%s.size is not None' % abase, 'array/@fixed-size <- size', w.mod.rel, arows['fixed-size'][0].line if 'fixed-size' in arows else 1,
             'fixed-size rows: %s' % [str(x) for x in arows.get('fixed-size', [])])
    r4.check('length' in arows and arows['length'][0].guard_text() == '%s.length_param_name is not None' % abase, 'array/@length <- length_param_name', w.mod.rel,
             arows['length'][0].line if 'length' in arows else 1, 'length rows: %s' % [str(x) for x in arows.get('length', [])])
    wt = py.func('girwriter', 'GIRWriter._write_type')
    li = [(P.src(c.func.value), c.func.attr, [g.text() for g in P.guards(c) if g.kind == 'if'][-1:]) for c in P.calls_in(wt) if isinstance(c.func, ast.Attribute) and c.func.attr in ('get_parameter_index', 'get_field_index')]
    r4.check(sorted(li) == sorted([('parent', 'get_parameter_index', ['isinstance(parent, ast.Callable)']), ('parent', 'get_field_index', ['isinstance(parent, ast.Compound)'])]),
             'length index: parameter index in callables, field index in compounds', w.mod.rel, wt.lineno, 'length lookups: %s' % li, detail=li)
    z1 = [x.guard_text() for x in arows.get('zero-terminated', []) if x.value == "'1'"]
    z0 = [x.guard_text() for x in arows.get('zero-terminated', []) if x.value == "'0'"]
    r4.check(len(z1) == 1 and '.size is not None or' in z1[0] and '.length_param_name is not None' in z1[0] and len(z0) == 1 and z0[0].startswith('not '), 'zero-terminated explicit whenever the reader default differs',
             w.mod.rel, arows['zero-terminated'][0].line if 'zero-terminated' in arows else 1,
             'zero-terminated="1" is written when %s: an array that is zero-terminated AND has a fixed size or a length needs the explicit attribute, because readers '
             'default to "not zero-terminated" as soon as fixed-size/length is present' % z1, detail={'1': z1, '0': z0})
    rv = [e for e in w.by_tag()['return-value']][0]
    rr = dict((x.key, x) for x in rv.rows)
    rb = rr['transfer-ownership'].value.rsplit('.', 1)[0] if 'transfer-ownership' in rr else '?'
    r4.check(set(rr) == {'transfer-ownership', 'skip', 'nullable'} and rr['nullable'].guard_text() == '%s.nullable and (not %s.not_nullable)' % (rb, rb), 'return-value attributes', w.mod.rel, rv.line,
             'return-value rows: %s' % [str(x) for x in rv.rows], detail=[str(x) for x in rv.rows])
