"""C01 — parameter and return annotations are reflected exactly in the GIR."""
import ast
import re

from ..core import AnalysisError
from .. import pyfront as P
from .. import wattr, rst, gsa

EXPLANATION = ('Tables that must agree are extracted and compared: the documentation (giannotations.rst list-tables), the comment '
               'parser\'s valid_annotations, the consumption sites in MainTransformer reachable from _apply_annotations_param/_return, '
               'and the attribute table of GIRWriter.  A guarded-effect table (control dependence of every attribute store and every '
               'message.warn) of the annotation-application functions is queried for the documented (annotation -> store) rows, for '
               '"invalid => warned and not applied", for the (not) override being last, for the length parameter following the array\'s '
               'direction, and the writer emits each stored attribute under the documented XML key (indices only through checked '
               'lookups of the same parent).')

MT = 'maintransformer'


def check(ctx):
    py = ctx.py
    mt = py.mod(MT)
    rel = mt.rel
    ap = py.mod('annotationparser')
    A = lambda n: py.fold_name(ap, n)

    # ------------------------------------------------------------------ R1 vocabulary closure
    r1 = ctx.rule('R1', 'documented <= valid <= consumed annotations for parameters and return values', floor=40)
    text = ctx.read('docs/website/annotations/giannotations.rst')
    cut = text.find('Deprecated GObject-Introspection annotations')
    doc_rows = rst.annotation_rows(text[:cut] if cut > 0 else text)
    if len(doc_rows) < 30:
        raise AnalysisError('only %d annotation rows found in giannotations.rst' % len(doc_rows))
    doc_param = set(n for n, applies in doc_rows if 'parameter' in applies)
    doc_ret = set(n for n, applies in doc_rows if 'return value' in applies)
    valid_param = set(py.fold(py.class_attr('annotationparser', 'GtkDocParameter', 'valid_annotations')[1], ap))
    valid_tag = set(py.fold(py.class_attr('annotationparser', 'GtkDocTag', 'valid_annotations')[1], ap))
    for a in sorted(doc_param):
        r1.check(a in valid_param, 'documented parameter annotation (%s) accepted' % a, ap.rel, 1,
                 'the documentation lists (%s) for parameters but GtkDocParameter.valid_annotations does not contain it: it is reported as unexpected and ignored' % a)
    for a in sorted(doc_ret):
        r1.check(a in valid_tag, 'documented return-value annotation (%s) accepted' % a, ap.rel, 1,
                 'the documentation lists (%s) for return values but GtkDocTag.valid_annotations does not contain it' % a)
    # consumption
    reach_p = P.reachable_methods(py, MT, 'MainTransformer', ['_apply_annotations_param'])
    reach_r = P.reachable_methods(py, MT, 'MainTransformer', ['_apply_annotations_return'])
    methods = py.methods(MT, 'MainTransformer')
    ann_consts = dict((k, py.fold_name(ap, k)) for k in ap.assigns if k.startswith('ANN_') and k not in ('ANN_LPAR', 'ANN_RPAR'))

    def consumed(reach):
        out = {}
        for mname in reach:
            f = methods[mname]
            for n in P.walk_no_nested(f):
                nm = None
                if isinstance(n, ast.Compare) and len(n.ops) == 1 and isinstance(n.ops[0], (ast.In, ast.NotIn)) and isinstance(n.left, ast.Name):
                    nm = n.left.id
                elif isinstance(n, ast.Call) and isinstance(n.func, ast.Attribute) and n.func.attr == 'get' and n.args and isinstance(n.args[0], ast.Name):
                    nm = n.args[0].id
                elif isinstance(n, ast.Subscript) and isinstance(n.slice, ast.Name):
                    nm = n.slice.id
                elif isinstance(n, (ast.Tuple, ast.List)):
                    for e in n.elts:
                        if isinstance(e, ast.Name) and e.id in ann_consts:
                            out.setdefault(ann_consts[e.id], set()).add(mname)
                if nm in ann_consts:
                    out.setdefault(ann_consts[nm], set()).add(mname)
        return out
    cp, cr = consumed(reach_p), consumed(reach_r)
    for a in sorted(valid_param):
        r1.check(a in cp, 'parameter annotation (%s) consumed' % a, rel, 1,
                 '(%s) is accepted on parameters but nothing reachable from _apply_annotations_param looks at it: the annotation has no effect' % a,
                 detail=sorted(cp.get(a, ())))
    for a in sorted(valid_tag):
        r1.check(a in cr, 'return-value annotation (%s) consumed' % a, rel, 1,
                 '(%s) is accepted on return values but nothing reachable from _apply_annotations_return looks at it' % a, detail=sorted(cr.get(a, ())))

    # ------------------------------------------------------------------ R2 effect table (gated summaries)
    r2 = ctx.rule('R2', 'documented (annotation -> model attribute) rows of the annotation-application functions', floor=25)
    OPAQUE = ('_is_pointer_type', '_get_validate_parameter_name', '_resolve_toplevel', '_resolve', '_get_transfer_default')
    SP = gsa.summarise(ctx, MT, 'MainTransformer._apply_annotations_param', opaque=OPAQUE)
    SR = gsa.summarise(ctx, MT, 'MainTransformer._apply_annotations_return', opaque=OPAQUE)
    fn = SP.func
    if len(SP.params) < 4:
        raise AnalysisError('_apply_annotations_param no longer takes (parent, param, tag)')
    parent, node, tag = SP.P(1), SP.P(2), SP.P(3)
    N = re.escape(node)
    TAG = [(r'^%s$' % re.escape(tag), True)]
    ctx.notes.append('C01 gated summary of _apply_annotations_param: %d effects, helpers inlined: %s' % (len(SP.effects), sorted(SP.inlined)))

    def line_of(effs, default=None):
        return effs[0].line if effs else (default or fn).lineno

    def show_(effs):
        return ['%s = %s if %s' % (e.target, e.value[:60], e.when()[:160]) for e in effs][:4]

    def row(target, value, must, what, S=SP, forbid=(), given=()):
        """a store target=value exists that needs every `must` atom, is impossible under each `forbid` atom and possible when must+given hold"""
        cands = gsa.find(S, 'store', target, value)
        good = [e for e in cands if all(gsa.needs(S, e, m_) for m_ in must) and all(gsa.impossible(S, e, [f_] if isinstance(f_, tuple) else [(f_, 'P')]) for f_ in forbid)
                and gsa.allowed(S, e, TAG + [(m_, 'P') for m_ in must] + list(given))]
        r2.check(bool(good), what, rel, line_of(good or cands),
                 'no store matching `%s = %s` that happens exactly when %s hold%s (candidates: %s): the annotation is not reflected in the model and hence not in the GIR'
                 % (target, value, list(must), (' and never when %s' % list(forbid)) if forbid else '', show_(cands)), detail=show_(good))
        return good

    def ann(c):
        return r'\b%s\b' % c
    # direction: inout > out > in
    D = r'^%s\.direction$' % N
    for spec, const in (([(ann('ANN_INOUT'), True), (ann('ANN_OUT'), True), (ann('ANN_IN'), True)], 'ast.PARAM_DIRECTION_INOUT'),
                        ([(ann('ANN_INOUT'), False), (ann('ANN_OUT'), True), (ann('ANN_IN'), True)], 'ast.PARAM_DIRECTION_OUT'),
                        ([(ann('ANN_INOUT'), False), (ann('ANN_OUT'), False), (ann('ANN_IN'), True)], 'ast.PARAM_DIRECTION_IN')):
        got = gsa.possible(SP, D, TAG + spec)
        r2.check(got == {const}, '(%s) -> direction %s' % (const.split('_')[-1].lower(), const.split('_')[-1].lower()), rel, line_of(gsa.find(SP, 'store', D)),
                 'with the annotations %s the stored direction can be %s, expected exactly %s' % ([p_ for p_, v_ in spec if v_], sorted(got), const), detail=sorted(got))
    none = gsa.possible(SP, D, TAG + [(ann('ANN_INOUT'), False), (ann('ANN_OUT'), False), (ann('ANN_IN'), False)])
    r2.check(not none, 'no direction annotation: direction untouched', rel, line_of(gsa.find(SP, 'store', D)), 'without (in)/(out)/(inout) the direction may still be set to %s' % sorted(none))
    CA = r'^%s\.caller_allocates$' % N
    base = TAG + [(ann('ANN_INOUT'), False), (r'OPT_OUT_CALLER_ALLOCATES', None), (r'OPT_OUT_CALLEE_ALLOCATES', None)]
    got_t = gsa.possible(SP, CA, TAG + [(ann('ANN_INOUT'), False), (r'OPT_OUT_CALLER_ALLOCATES', True), (r'OPT_OUT_CALLEE_ALLOCATES', False), (ann('ANN_OUT'), True)])
    got_f = gsa.possible(SP, CA, TAG + [(ann('ANN_INOUT'), False), (r'OPT_OUT_CALLER_ALLOCATES', False), (r'OPT_OUT_CALLEE_ALLOCATES', True), (ann('ANN_OUT'), True)])
    r2.check(got_t == {'True'} and got_f == {'False'}, '(out caller-allocates|callee-allocates) select caller_allocates', rel, line_of(gsa.find(SP, 'store', CA)),
             'caller_allocates under (out caller-allocates) can be %s, under (out callee-allocates) %s' % (sorted(got_t), sorted(got_f)), detail=[sorted(got_t), sorted(got_f)])
    # nullable / optional / allow-none / not / skip / attributes / type
    PT = r'_is_pointer_type\('
    row(r'^%s\.nullable$' % N, r'^True$', [ann('ANN_NULLABLE'), PT], '(nullable) -> nullable on pointer types')
    row(r'^%s\.optional$' % N, r'^True$', [ann('ANN_OPTIONAL')], '(optional) only on out/inout parameters', forbid=[r'isinstance\(%s, ast\.Return\)' % N],
        given=[(r'PARAM_DIRECTION_OUT', True), (r'isinstance\(%s, ast\.Return\)' % N, False)])
    opt = [e for e in gsa.find(SP, 'store', r'^%s\.optional$' % N, r'^True$') if gsa.needs(SP, e, ann('ANN_OPTIONAL'))]
    r2.check(opt and all(gsa.needs(SP, e, r'PARAM_DIRECTION_(OUT|INOUT)') for e in opt), '(optional) needs direction out or inout', rel, line_of(opt),
             '(optional) is applied when the direction is neither out nor inout: %s' % show_(opt))
    row(r'^%s\.nullable$' % N, r'^False$', [ann('ANN_NOT')], '(not nullable) -> nullable = False')
    row(r'^%s\.not_nullable$' % N, r'^True$', [ann('ANN_NOT')], '(not nullable) -> not_nullable = True')
    row(r'^%s\.skip$' % N, r'^True$', [ann('ANN_SKIP')], '(skip) -> skip')
    row(r'^%s\.attributes\[' % N, r'', [ann('ANN_ATTRIBUTES')], '(attributes) -> attributes[key] = value')
    row(r'^%s\.nullable$' % N, r'^True$', [r'is_equiv\(ast\.TYPE_ANY\)'], 'untyped pointers are nullable by default')
    row(r'^%s\.type$' % N, r'_resolve_toplevel\(.*ANN_TYPE', [ann('ANN_TYPE')], '(type) -> type')
    # (not) is the final word on nullability
    fin = gsa.possible(SP, r'^%s\.nullable$' % N, TAG + [(ann('ANN_NOT'), True)])
    r2.check(fin == {'False'}, '(not nullable) overrides: nothing stores nullable afterwards', rel, line_of(gsa.find(SP, 'store', r'^%s\.nullable$' % N, '^False$')),
             'with (not nullable) present nullable can end up as %s' % sorted(fin), detail=sorted(fin))
    # transfer
    T = r'^%s\.transfer$' % N
    raw = [e for e in gsa.find(SP, 'store', T, r'ANN_TRANSFER') if gsa.needs(SP, e, ann('ANN_TRANSFER'))]
    r2.check(bool(raw), 'transfer option stored', rel, line_of(raw), '%s.transfer stores: %s' % (node, show_(gsa.find(SP, 'store', T))))
    fl = gsa.possible(SP, T, TAG + [(r'== OPT_TRANSFER_FLOATING$', True), (r'== OPT_TRANSFER_\w+$', False), (ann('ANN_TRANSFER'), 'P')], value=r'ANN_TRANSFER|OPT_TRANSFER')
    r2.check(fl == {'OPT_TRANSFER_NONE'}, '(transfer floating) means none', rel, line_of(raw), 'with (transfer floating) the stored transfer can be %s' % sorted(fl), detail=sorted(fl))
    # arrays
    row(r'\.length_param_name$', r'', [r'OPT_ARRAY_LENGTH'], '(array length=) -> length_param_name')
    row(r'\.size$', r'^int\(.*OPT_ARRAY_FIXED_SIZE', [r'OPT_ARRAY_FIXED_SIZE'], '(array fixed-size=) -> size')
    row(r'^%s\.type$' % N, r'^ast\.Array\(', [ann('ANN_ARRAY')], '(array) -> Array type')
    ld = row(r'get_parameter\(.*\)\.direction$', r'^%s\.direction$' % N, [r'OPT_ARRAY_LENGTH'], 'length parameter follows the array\'s direction')
    if ld:
        extra = sorted(set(a_ for e in ld for a_ in gsa.atoms(e.cond) if 'PARAM_DIRECTION' in a_))
        r2.check(not extra, 'length parameter direction copied for every direction', rel, ld[0].line,
                 'the length parameter takes the array\'s direction only when %s: for the other directions (e.g. an inout array) it keeps its own' % extra, detail=extra)
    Z = r'\.zeroterminated$'
    z0 = gsa.possible(SP, Z, TAG + [(r"OPT_ARRAY_ZERO_TERMINATED, '0'\) == '0'", True), (ann('ANN_ARRAY'), True)])
    z1 = gsa.possible(SP, Z, TAG + [(r"OPT_ARRAY_ZERO_TERMINATED, '0'\) == '0'", False), (r'OPT_ARRAY_ZERO_TERMINATED', True), (ann('ANN_ARRAY'), True)])
    r2.check(z0 == {'False'} and z1 == {'True'}, '(array zero-terminated=0|1) -> zeroterminated', rel, line_of(gsa.find(SP, 'store', Z)),
             'zero-terminated=0 gives %s, zero-terminated=1 gives %s' % (sorted(z0), sorted(z1)), detail=[sorted(z0), sorted(z1)])
    # callbacks
    CB = r'ast\.Callback\)'
    row(r'\.scope$', r'ANN_SCOPE\)\[0\]$', [ann('ANN_SCOPE'), CB], '(scope) -> scope')
    row(r'\.destroy_name$', r'_get_validate_parameter_name\(.*ANN_DESTROY', [ann('ANN_DESTROY'), CB], '(destroy) -> destroy_name (validated)')
    row(r'\.closure_name$', r'_get_validate_parameter_name\(.*ANN_CLOSURE', [ann('ANN_CLOSURE'), CB], '(closure) -> closure_name (validated)')
    row(r'^%s\.scope$' % N, r'^ast\.PARAM_SCOPE_NOTIFIED$', [ann('ANN_DESTROY')], '(destroy) implies notified scope', forbid=[(r'(destroy_name|_get_validate_parameter_name\(.*ANN_DESTROY.*\)) is None$', True)])
    GV = gsa.summarise(ctx, MT, 'MainTransformer._get_validate_parameter_name')
    fatal = [e for e in gsa.find(GV, 'call', r'^message\.log_node$') if any('FATAL' in a_ for a_ in e.args)]
    r2.check(any(gsa.impossible(GV, e, [(r' is None$', False), (r'^@except', False)]) and gsa.allowed(GV, e, [(r' is None$', True), (r'^@except', False)]) for e in fatal), 'dangling parameter names are fatal', rel, line_of(fatal, GV.func),
             '_get_validate_parameter_name no longer fails on a name that is not a parameter')
    # element-type
    for attr in ('element_type', 'key_type', 'value_type'):
        row(r'^%s\.type\.%s$' % (N, attr), r'_resolve\(.*ANN_ELEMENT_TYPE', [ann('ANN_ELEMENT_TYPE')], '(element-type) -> %s' % attr)

    # ------------------------------------------------------------------ R3 warn => not applied, invalid => warned
    r3 = ctx.rule('R3', 'an invalid annotation is warned about and leaves the attribute unchanged', floor=10)
    warns = [e for e in gsa.find(SP, 'call', r'^message\.warn$') if 'invalid "transfer"' in e.value.replace('\\', '')]
    r3.check(len(warns) >= 3, 'three transfer validity rules (floating, container, non-pointer)', rel, line_of(warns), '%d "invalid transfer" warnings found' % len(warns))
    tstores = [e for e in gsa.find(SP, 'store', T) if '_get_transfer_default' not in e.value]
    for w_ in warns:
        both = [e for e in tstores if gsa.compatible(w_, e)]
        r3.check(not both, 'transfer not stored after warning', rel, w_.line,
                 'after warning about an invalid transfer annotation the function still stores %s' % show_(both))
    kinds = [' '.join(gsa.atoms(w_.cond)) for w_ in warns]
    r3.check(any('OPT_TRANSFER_FLOATING' in k and 'ast.Class' in k and 'ast.Interface' in k for k in kinds) and any('OPT_TRANSFER_CONTAINER' in k and 'ast.Array' in k and 'ast.List' in k and 'ast.Map' in k for k in kinds)
             and any('_is_pointer_type(' in k for k in kinds), 'transfer validity conditions', rel, line_of(warns), 'conditions: %s' % [k[:200] for k in kinds])
    for annc, attr, cond, text in (('ANN_NULLABLE', 'nullable', PT, '"nullable"'), ('ANN_OPTIONAL', 'optional', r'PARAM_DIRECTION_(OUT|INOUT)', '"optional"'),
                                   ('ANN_ALLOW_NONE', '(nullable|optional)', PT, '"allow-none"')):
        ws = [e for e in gsa.find(SP, 'call', r'^message\.warn$') if text in e.value and gsa.needs(SP, e, ann(annc))]
        ok = len(ws) >= 1 and all(gsa.impossible(SP, w_, [(cond, True), (r'isinstance\(%s, ast\.Return\)' % N, False)]) for w_ in ws)
        r3.check(ok, 'invalid (%s) warned' % A(annc), rel, line_of(ws), 'no warning for an invalid (%s) (conditions %s)' % (A(annc), [w_.when()[:200] for w_ in ws]))
        if ok:
            applied = [e for e in gsa.find(SP, 'store', r'^%s\.%s$' % (N, attr), r'^True$') if gsa.needs(SP, e, ann(annc))]
            clash = [(w_, e) for w_ in ws for e in applied if gsa.compatible(w_, e)]
            r3.check(applied and not clash and all(gsa.needs(SP, e, cond) or gsa.needs(SP, e, r'PARAM_DIRECTION_OUT') for e in applied),
                     '(%s) applied only where valid' % A(annc), rel, line_of(applied),
                     '(%s) is applied without its validity condition or together with its warning: %s' % (A(annc), show_(applied)))
    # _is_pointer_type: a return value is never a pointer merely because its direction is out
    IP = gsa.summarise(ctx, MT, 'MainTransformer._is_pointer_type')
    # T = "returns true".  For a Return node T must not depend on the direction at all; for a parameter, direction out/inout alone makes T hold
    T_ = gsa.true_formula(IP)
    ra = [a_ for a_ in gsa.atoms(T_) if re.search(r'isinstance\(\w+, ast\.Return\)', a_)]
    da = [a_ for a_ in gsa.atoms(T_) if 'PARAM_DIRECTION_' in a_]
    as_ret = gsa.assign(T_, dict((a_, True) for a_ in ra))
    as_par = gsa.assign(T_, dict((a_, False) for a_ in ra))
    okp = bool(ra) and bool(da) and gsa.equiv(gsa.assign(as_ret, dict((a_, True) for a_ in da)), gsa.assign(as_ret, dict((a_, False) for a_ in da))) and \
        all(gsa.assign(as_par, {a_: True}) is True for a_ in da)
    as_ret, as_par = gsa.show(as_ret)[:160], gsa.show(as_par)[:160]
    r3.check(okp, 'out-direction shortcut excludes return values', rel, IP.func.lineno,
             '_is_pointer_type treats everything with direction out as a pointer (%s): ast.Return always has direction out, so nullable/transfer on a plain gint '
             'return value are accepted silently' % ['return node: %s' % as_ret, 'parameter: %s' % as_par], detail=[str(as_ret), str(as_par)])
    # callbacks: scope/destroy/closure on non-callbacks
    cw = [e for e in gsa.find(SP, 'call', r'^message\.warn$') if gsa.excluded_by(SP, e, CB) and re.search(r'ANN_(SCOPE|DESTROY|CLOSURE)', e.when())]
    cstores = gsa.find(SP, 'store', r'\.(scope|destroy_name|closure_name)$')
    cstores = [e for e in cstores if gsa.needs(SP, e, r'ANN_(SCOPE|DESTROY|CLOSURE)\b') and 'argname' not in e.value]
    clash = [(w_, e) for w_ in cw for e in cstores if gsa.compatible(w_, e)]
    r3.check(len(cw) >= 1 and not clash and all(any(re.search(a_, w_.when()) for w_ in cw) for a_ in ('ANN_SCOPE', 'ANN_DESTROY', 'ANN_CLOSURE')),
             'scope/destroy/closure on a non-callback: warned and ignored', rel, line_of(cw), 'non-callback branch changed: warnings %s, stores alongside %s' % (show_(cw), show_([e for w_, e in clash])))
    cl_st = gsa.find(SP, 'store', r'\.closure_name$', r'\.argname$')
    r3.check(len(cl_st) >= 1 and all(gsa.excluded_by(SP, e, r'(\.get\(ANN_CLOSURE\)|\[ANN_CLOSURE\])$') for e in cl_st), '(closure X) with argument on a callback type is rejected', rel, line_of(cl_st),
             'closure_name stores: %s' % show_(cl_st))

    # ------------------------------------------------------------------ R4 emission mapping
    r4 = ctx.rule('R4', 'stored attributes are emitted under the documented XML keys; indices through checked lookups of the same parent', floor=14)
    WOPQ = ('write_tag', 'tagcontext', '_write_generic', '_write_type', '_write_type_ref', '_write_return_type', '_write_parameters')
    wrel = py.mod('girwriter').rel
    WP = gsa.summarise(ctx, 'girwriter', 'GIRWriter._write_parameter', opaque=WOPQ)
    if len(WP.params) < 3:
        raise AnalysisError('_write_parameter(self, parent, parameter, ...) signature changed')
    par, pm = WP.P(1), WP.P(2)
    rows = {}
    for cond, key, val, n in gsa.list_items(WP):
        rows.setdefault(key, []).append((cond, gsa._unparse(val), val))
    A_ = gsa.atom
    expect = {'transfer-ownership': '%s.transfer' % pm, 'direction': '%s.direction' % pm, 'scope': '%s.scope' % pm, 'name': '%s.argname' % pm}
    for k, v in sorted(expect.items()):
        r4.check(any(t == v for c, t, n in rows.get(k, [])), 'parameter/@%s <- %s' % (k, v), wrel, WP.func.lineno,
                 'parameter/@%s is written from %s' % (k, [t for c, t, n in rows.get(k, [])]), detail=[t for c, t, n in rows.get(k, [])])
    flag = {'nullable': gsa.conj(A_('%s.nullable' % pm), gsa.neg(A_('%s.not_nullable' % pm))), 'optional': A_('%s.optional' % pm), 'skip': A_('%s.skip' % pm)}
    for k, want in sorted(flag.items()):
        got = rows.get(k, [])
        r4.check(len(got) >= 1 and all(t == "'1'" for c, t, n in got) and gsa.equiv(gsa.disj(*[c for c, t, n in got]), want), 'parameter/@%s="1" iff %s' % (k, gsa.show(want)), wrel,
                 WP.func.lineno, 'parameter/@%s is written when %s' % (k, [gsa.show(c) for c, t, n in got]), detail=[gsa.show(c) for c, t, n in got])
    ca_ = rows.get('caller-allocates', [])
    okca = False
    if len(ca_) == 1:
        okca = ca_[0][1] == "'1' if %s.caller_allocates else '0'" % pm
    elif len(ca_) == 2:
        d = dict((t, c) for c, t, n in ca_)
        CA = A_('%s.caller_allocates' % pm)
        okca = set(d) == {"'1'", "'0'"} and gsa.equiv(d["'1'"], gsa.conj(gsa.disj(d["'1'"], d["'0'"]), CA)) and gsa.equiv(d["'0'"], gsa.conj(gsa.disj(d["'1'"], d["'0'"]), gsa.neg(CA)))
    r4.check(okca, 'caller-allocates written as 1/0', wrel, WP.func.lineno, 'caller-allocates rows: %s' % [(t, gsa.show(c)) for c, t, n in ca_])
    for k, attr in (('closure', 'closure_name'), ('destroy', 'destroy_name')):
        x = rows.get(k, [])
        ok = len(x) == 1 and re.match(r"^('%%d' %% \(|str\()%s\.get_parameter_index\(%s\.%s\)(,\)|\))$" % (re.escape(par), re.escape(pm), attr), x[0][1]) and \
            gsa.equiv(x[0][0], gsa.neg(A_('%s.%s is None' % (pm, attr))))
        r4.check(bool(ok), 'parameter/@%s = index of %s in the same callable' % (k, attr), wrel, WP.func.lineno, '%s rows: %s' % (k, [(t, gsa.show(c)) for c, t, n in x]),
                 detail=[(t, gsa.show(c)) for c, t, n in x])
    gpi = py.func('ast', 'Callable.get_parameter_index')
    from . import c05
    r4.check(c05.raises_on_dangling(ctx, 'Callable.get_parameter_index'), 'get_parameter_index raises on unknown names', 'giscanner/ast.py', gpi.lineno, 'get_parameter_index no longer raises for a dangling name')
    # arrays
    WT = gsa.summarise(ctx, 'girwriter', 'GIRWriter._write_type', opaque=WOPQ + ('_type_to_name',))
    tp = WT.P(1)
    if 'parent' not in WT.params:
        raise AnalysisError('_write_type lost its parent parameter')
    arows = {}
    for cond, key, val, n in gsa.list_items(WT, None if len([v for v in WT.final_env.values() if isinstance(v, gsa.ListVal)]) == 1 else 'attrs'):
        arows.setdefault(key, []).append((cond, gsa._unparse(val)))
    SIZE_NONE, LEN_NONE, ZT = '%s.size is None' % tp, '%s.length_param_name is None' % tp, '%s.zeroterminated' % tp
    fs = arows.get('fixed-size', [])
    r4.check(len(fs) >= 1 and all('%s.size' % tp in t and not gsa.can_hold(c, {SIZE_NONE: True}) and gsa.can_hold(c, {SIZE_NONE: False}) for c, t in fs), 'array/@fixed-size <- size', wrel, WT.func.lineno,
             'fixed-size rows: %s' % [(t, gsa.show(c)[-120:]) for c, t in fs])
    ln = arows.get('length', [])
    real = [(c, t) for c, t in ln if 'get_' in t]
    r4.check(len(real) >= 1 and all(not gsa.can_hold(c, {LEN_NONE: True}) for c, t in ln), 'array/@length <- length_param_name', wrel, WT.func.lineno, 'length rows: %s' % [(t, gsa.show(c)[-120:]) for c, t in ln])
    li = []
    for c, t in real:
        mm = re.search(r'(\w+)\.(get_parameter_index|get_field_index)\(%s\.length_param_name\)' % re.escape(tp), t)
        if mm:
            kind = 'ast.Callable' if mm.group(2) == 'get_parameter_index' else 'ast.Compound'
            isk = 'isinstance(%s, %s)' % (mm.group(1), kind)
            li.append((mm.group(1), mm.group(2), (not gsa.can_hold(c, {isk: False})) and gsa.can_hold(c, {isk: True, LEN_NONE: False})))
    r4.check(sorted(li) == sorted([('parent', 'get_parameter_index', True), ('parent', 'get_field_index', True)]),
             'length index: parameter index in callables, field index in compounds', wrel, WT.func.lineno, 'length lookups: %s' % li, detail=li)
    z1 = gsa.disj(*[c for c, t in arows.get('zero-terminated', []) if t == "'1'"])
    z0 = gsa.disj(*[c for c, t in arows.get('zero-terminated', []) if t == "'0'"])
    isarr = dict((a_, True) for a_ in gsa.atoms(gsa.disj(z1, z0)) if re.match(r'^isinstance\(%s, ast\.Array\)$' % re.escape(tp), a_))
    isarr.update(dict((a_, False) for a_ in gsa.atoms(gsa.disj(z1, z0)) if re.match(r'^isinstance\(%s, ast\.Varargs\)$' % re.escape(tp), a_)))

    def zt(f, **kw):
        v = dict(isarr)
        v.update({ZT: kw['zt'], SIZE_NONE: kw['size_none'], LEN_NONE: kw['len_none']})
        return gsa.can_hold(f, v)
    okz = z1 is not False and z0 is not False and zt(z1, zt=True, size_none=False, len_none=True) and zt(z1, zt=True, size_none=True, len_none=False) and \
        not zt(z1, zt=True, size_none=True, len_none=True) and not zt(z1, zt=False, size_none=False, len_none=False) and \
        zt(z0, zt=False, size_none=True, len_none=True) and not zt(z0, zt=True, size_none=True, len_none=True)
    r4.check(okz, 'zero-terminated explicit whenever the reader default differs',
             wrel, WT.func.lineno,
             'zero-terminated="1" is written when %s: an array that is zero-terminated AND has a fixed size or a length needs the explicit attribute, because readers '
             'default to "not zero-terminated" as soon as fixed-size/length is present' % gsa.show(z1)[:300], detail={'1': gsa.show(z1)[:200], '0': gsa.show(z0)[:200]})
    WR = gsa.summarise(ctx, 'girwriter', 'GIRWriter._write_return_type', opaque=WOPQ)
    rp = WR.P(1)
    rr = {}
    for cond, key, val, n in gsa.list_items(WR):
        rr.setdefault(key, []).append((cond, gsa._unparse(val)))
    nullc = gsa.disj(*[c for c, t in rr.get('nullable', [])])
    base_ok = gsa.assign(nullc, {rp: True})
    r4.check(set(rr) == {'transfer-ownership', 'skip', 'nullable'} and gsa.equiv(base_ok, gsa.conj(A_('%s.nullable' % rp), gsa.neg(A_('%s.not_nullable' % rp)))) and
             any(t == '%s.transfer' % rp for c, t in rr.get('transfer-ownership', [])), 'return-value attributes', wrel, WR.func.lineno,
             'return-value rows: %s' % dict((k, [(t, gsa.show(c)) for c, t in v]) for k, v in rr.items()), detail=sorted(rr))

    # ------------------------------------------------------------------ R5 multi-line annotations (shared with C10.R3)
    from . import c10
    rx_ = ctx.rule('R5', 'annotations continued on a following line extend (never replace) those already parsed', floor=4)
    c10.continuation_rule(ctx, rx_)
    rk = ctx.rule('R6', '(attributes key=value): values may contain "="; options split at the first "=" only', floor=3)
    c10.kv_split_rule(ctx, rk)
