"""C03 — identifier-level annotations and tags land on the right GIR element."""
import ast
from .. import strfrag
import re

from ..core import AnalysisError
from .. import pyfront as P
from .. import wattr, rst, gsa

EXPLANATION = ('Chain closure from the documentation through the comment parser\'s vocabulary and MainTransformer\'s consumption sites to the '
               'attribute table of GIRWriter, for every identifier-level annotation and the three value tags; provenance of every comment-block '
               'lookup key (built only from the node being annotated, with the separators the comment parser itself uses, C name before GType '
               'name); the rename-to pairing is mutual and guarded on the target; explicit async/sync/finish annotations are never overwritten '
               'by name heuristics (sibling agreement between the function-level and class-level matchers).')

MT = 'maintransformer'

# annotation -> (model attribute stored, XML key written from that attribute)
CHAIN = {
    'ANN_FINISH_FUNC': ('finish_func', 'glib:finish-func'), 'ANN_SYNC_FUNC': ('sync_func', 'glib:sync-func'), 'ANN_ASYNC_FUNC': ('async_func', 'glib:async-func'),
    'ANN_COPY_FUNC': ('copy_func', 'copy-function'), 'ANN_FREE_FUNC': ('free_func', 'free-function'),
    'ANN_REF_FUNC': ('ref_func', 'glib:ref-func'), 'ANN_UNREF_FUNC': ('unref_func', 'glib:unref-func'),
    'ANN_SET_VALUE_FUNC': ('set_value_func', 'glib:set-value-func'), 'ANN_GET_VALUE_FUNC': ('get_value_func', 'glib:get-value-func'),
    'ANN_SETTER': ('setter', 'setter'), 'ANN_GETTER': ('getter', 'getter'), 'ANN_EMITTER': ('emitter', 'emitter'),
    'ANN_VFUNC': ('invoker', 'invoker'), 'ANN_VALUE': ('value', 'value'),
    'ANN_SET_PROPERTY': ('set_property', 'glib:set-property'), 'ANN_GET_PROPERTY': ('get_property', 'glib:get-property'),
    'ANN_DEFAULT_VALUE': ('default_value', 'default-value'), 'ANN_FOREIGN': ('foreign', 'foreign'),
    'ANN_TRANSFER': ('transfer', 'transfer-ownership'),
}
TAGS = {'TAG_SINCE': (('version', 'version'), ('version_doc', 'doc-version')),
        'TAG_DEPRECATED': (('deprecated', 'deprecated-version'), ('deprecated_doc', 'doc-deprecated')),
        'TAG_STABILITY': (('stability', 'stability'), ('stability_doc', 'doc-stability'))}


def check(ctx):
    py = ctx.py
    mt = py.mod(MT)
    rel = mt.rel
    ap = py.mod('annotationparser')
    methods = py.methods(MT, 'MainTransformer')
    w = wattr.WriterModel(py)

    # ------------------------------------------------------------------ R1 chain closure
    r1 = ctx.rule('R1', 'documented <= valid <= consumed -> model attribute -> XML key, for identifier annotations and value tags', floor=60)
    text = ctx.read('docs/website/annotations/giannotations.rst')
    cut = text.find('Deprecated GObject-Introspection annotations')
    doc_ident = set(n for n, applies in rst.annotation_rows(text[:cut]) if 'identifier' in applies)
    valid = list(py.fold(py.class_attr('annotationparser', 'GtkDocCommentBlock', 'valid_annotations')[1], ap))
    for a in sorted(doc_ident):
        r1.check(a in valid, 'documented identifier annotation (%s) accepted' % a, ap.rel, 1, '(%s) is documented for identifiers but not in GtkDocCommentBlock.valid_annotations' % a)
    ann_consts = dict((k, py.fold_name(ap, k)) for k in ap.assigns if k.startswith('ANN_') and k not in ('ANN_LPAR', 'ANN_RPAR'))
    by_value = dict((v, k) for k, v in ann_consts.items())
    # consumption sites: methods of MainTransformer that mention the annotation constant at all (directly, as an argument of a helper, in a table)
    uses = {}
    for mname, f in methods.items():
        for n in P.walk_no_nested(f):
            if isinstance(n, ast.Name) and n.id in ann_consts and isinstance(n.ctx, ast.Load):
                uses.setdefault(n.id, []).append((mname, n))
    for a in valid:
        c = by_value[a]
        r1.check(c in uses, 'identifier annotation (%s) consumed' % a, rel, 1, '(%s) is accepted on identifiers but MainTransformer never looks at it' % a,
                 detail=sorted(set(m_ for m_, n in uses.get(c, []))))
    # annotation -> attribute store in the consuming function
    keys_by_attr = {}
    for e in w.elements():
        for row in e.rows:
            mm = re.search(r'\.(\w+)$', row.value)
            if mm:
                keys_by_attr.setdefault(mm.group(1), set()).add(row.key)
            elif row.value in ("'1'", "'0'"):
                for gt, pol in row.guards:
                    mm = re.search(r'\.(\w+)$', gt)
                    if mm:
                        keys_by_attr.setdefault(mm.group(1), set()).add(row.key)
    for c, (attr, key) in sorted(CHAIN.items()):
        ok = False
        where = None
        crx = re.compile(r'\b%s\b' % c)
        for mname in sorted(set(m_ for m_, n in uses.get(c, []))):
            # gated summary of the consuming method (private helpers inlined, literal tables unrolled, setattr as a store): a store into
            # `.attr` whose value or condition depends on the annotation
            CS = gsa.summarise(ctx, MT, 'MainTransformer.' + mname, depth=1)
            for e in gsa.find(CS, 'store', r'\.%s$' % attr):
                if crx.search(e.value) or any(crx.search(a_) for a_ in gsa.atoms(e.cond)):
                    ok = True
                    where = e.line
        r1.check(ok, '(%s) -> .%s' % (ann_consts[c], attr), rel, where or 1,
                 'no function stores `.%s` from the (%s) annotation: the annotation never reaches the model' % (attr, ann_consts[c]))
        r1.check(key in keys_by_attr.get(attr, ()), '.%s -> @%s' % (attr, key), w.mod.rel, 1,
                 'GIRWriter does not write %s from the model attribute %s (keys written from it: %s)' % (key, attr, sorted(keys_by_attr.get(attr, ()))),
                 detail=sorted(keys_by_attr.get(attr, ())))
    # tags (gated summary of _apply_annotations_annotated)
    aa = py.func(MT, 'MainTransformer._apply_annotations_annotated')
    AA = gsa.summarise(ctx, MT, 'MainTransformer._apply_annotations_annotated')
    nd, bl = re.escape(AA.P(1)), re.escape(AA.P(2))
    tag_elems = dict((e.tag, e) for e in w.elements())
    for tconst, pairs in sorted(TAGS.items()):
        for (attr, key), part in zip(pairs, ('value', 'description')):
            st = [e for e in gsa.find(AA, 'store', r'^%s\.%s$' % (nd, attr), r'^%s\.tags\.get\(%s\)\.%s$|^%s\.tags\[%s\]\.%s$' % (bl, tconst, part, bl, tconst, part))
                  if gsa.needs(AA, e, r'\b%s\b' % tconst)]
            r1.check(bool(st), '%s.%s -> .%s' % (tconst, part, attr), rel, st[0].line if st else aa.lineno, 'tag %s %s is not stored into node.%s (stores: %s)' % (
                tconst, part, attr, gsa.find(AA, 'store', r'^%s\.%s$' % (nd, attr))))
            other = 'description' if part == 'value' else 'value'
            r1.check(bool(st) and any(gsa.allowed(AA, e, [(r'%s\)\.%s$|%s\]\.%s$' % (tconst, other, tconst, other), False), (r'%s\)\.%s$|%s\]\.%s$' % (tconst, part, tconst, part), True),
                                                          (r' is None$', False)]) for e in st),
                     '%s.%s stored whether or not the tag has a %s' % (tconst, part, other), rel, st[0].line if st else aa.lineno,
                     'the %s of a %s tag is stored only when the tag also has a %s: e.g. "Deprecated: use foo() instead" (no version) loses its text and the deprecated flag' % (part, tconst, other))
            if key.startswith('doc-'):
                okw = key in tag_elems and tag_elems[key].data is not None and (tag_elems[key].data.endswith('.%s' % attr) or ("'%s'" % attr) in tag_elems[key].data)
            else:
                okw = key in keys_by_attr.get(attr, ())
            r1.check(okw, '.%s -> %s' % (attr, key), w.mod.rel, 1, 'the writer does not emit %s from %s' % (key, attr))
    # skip -> introspectable="0"; attributes -> <attribute>; deprecated flag
    gen = [e for e in w.by_tag()['function']][0]
    rr = dict((r_.key, r_) for r_ in gen.rows)
    r1.check('introspectable' in rr and rr['introspectable'].value == "'0'" and re.match(r'(\w+)\.skip or not \1\.introspectable$', rr['introspectable'].guard_text()),
             'skip or not introspectable -> introspectable="0"', w.mod.rel, rr['introspectable'].line if 'introspectable' in rr else 1,
             'introspectable="0" is written when %s' % (rr['introspectable'].guard_text() if 'introspectable' in rr else None))
    at = [e for e in w.elements() if e.tag == 'attribute']
    r1.check(at and sorted(r_.key for r_ in at[0].rows) == ['name', 'value'] and any('attributes.items()' in l for l in at[0].repeat or []), 'attributes -> <attribute name value>', w.mod.rel,
             at[0].line if at else 1, '<attribute> emission changed')
    sk = [e for e in gsa.find(AA, 'store', r'^%s\.skip$' % nd, r'^True$') if gsa.needs(AA, e, r'\bANN_SKIP\b')]
    want = gsa.conj(gsa.neg(gsa.atom('%s is None' % AA.P(2))), gsa.atom('ANN_SKIP in %s.annotations' % AA.P(2)))
    r1.check(bool(sk) and any(gsa.equiv(e.cond, want) or gsa.equiv(e.cond, gsa.conj(gsa.atom(AA.P(2)), gsa.atom('ANN_SKIP in %s.annotations' % AA.P(2)))) for e in sk), '(skip) -> node.skip', rel, aa.lineno,
             '(skip) store changed: %s' % gsa.find(AA, 'store', r'^%s\.skip$' % nd))
    r1.check(any(gsa.needs(AA, e, r'\bANN_ATTRIBUTES\b') for e in gsa.find(AA, 'store', r'^%s\.attributes\[' % nd)), '(attributes) -> node.attributes', rel, aa.lineno, '(attributes) store changed')
    for c, attr, extra in (('ANN_CONSTRUCTOR', 'is_constructor', r'^isinstance\(%s, ast\.Function\)$' % nd), ('ANN_METHOD', 'is_method', None)):
        ok = any(gsa.needs(AA, e, r'\b%s\b' % c) and (extra is None or gsa.needs(AA, e, extra)) for e in gsa.find(AA, 'store', r'^%s\.%s$' % (nd, attr), r'^True$'))
        r1.check(ok, '(%s) -> node.%s' % (ann_consts[c], attr), rel, aa.lineno, '(%s) role store changed' % ann_consts[c])

    # ------------------------------------------------------------------ R2 block-key provenance
    r2 = ctx.rule('R2', 'comment-block lookup keys: built from the annotated node only, parser separators, C name before GType name', floor=16)
    gan = py.func(MT, 'MainTransformer._get_annotation_name')
    GA = gsa.summarise(ctx, MT, 'MainTransformer._get_annotation_name')
    gn = GA.P(1)

    def name_for(ctype_none, gtype_none, registered=True):
        def dec(a_):
            if a_ == '%s.ctype is None' % gn:
                return ctype_none
            if a_ == '%s.gtype_name is None' % gn:
                return gtype_none
            if a_ == 'isinstance(%s, ast.Registered)' % gn:
                return registered
            if a_ == 'isinstance(%s, ast.Class)' % gn:
                return True
            if a_.startswith('isinstance('):
                return False
            return None
        return [t for t, n, d in gsa.returns_under(GA, dec)]
    order = [name_for(False, False), name_for(True, False), name_for(True, True)]
    r2.check(order == [['%s.ctype' % gn], ['%s.gtype_name' % gn], ['%s.c_name' % gn]], 'annotation name: C type name, then GType name, then c_name', rel, gan.lineno,
             '_get_annotation_name yields %s for (ctype present), (only gtype_name), (neither): a type whose GType name differs from its C name (GParamSpecChar / GParamChar) is looked up under the wrong '
             'name and blocks written against the C name stop applying' % order, detail=order)
    both = name_for(False, True)
    r2.check(both == ['%s.ctype' % gn], 'C name used whenever present', rel, gan.lineno, 'with a C type name and no GType name the key is %s' % both)
    seps = {}
    pcb = py.func('annotationparser', 'GtkDocCommentBlockParser.parse_comment_block')
    PCB = gsa.summarise(ctx, 'annotationparser', 'GtkDocCommentBlockParser.parse_comment_block',
                        opaque=('_parse_annotations', '_parse_fields', '_parse_annotation', '_parse_annotation_options_list', '_validate_multiline_annotation_continuation'))
    for e in PCB.effects:
        for call in ([x for x in ast.walk(e.vnode) if isinstance(x, ast.Call) and P.call_name(x) == 'GtkDocCommentBlock'] if e.vnode is not None and e.kind in ('local', 'store', 'call', 'return') else []):
            v = call.args[0] if call.args else None
            if isinstance(v, ast.BinOp) and isinstance(v.left, ast.Constant) and isinstance(v.left.value, str):
                groups = [gsa._unparse(a_) for a_ in (v.right.elts if isinstance(v.right, ast.Tuple) else [v.right])]
                kind = 'property' if any("group('property_name')" in g for g in groups) else 'signal' if any("group('signal_name')" in g for g in groups) else \
                    'field' if any("group('field_name')" in g for g in groups) else None
                if kind:
                    seps[kind] = v.left.value
    if not seps:
        # table-driven form: a class-level table of (pattern, name format, group names, ...) rows walked by the parser
        pc_ = py.cls('annotationparser', 'GtkDocCommentBlockParser')
        for st_ in pc_.body:
            if isinstance(st_, ast.Assign) and isinstance(st_.value, (ast.Tuple, ast.List)):
                for row_ in st_.value.elts:
                    if isinstance(row_, ast.Tuple) and len(row_.elts) >= 3 and isinstance(row_.elts[1], ast.Constant) and isinstance(row_.elts[1].value, str) \
                            and isinstance(row_.elts[2], (ast.Tuple, ast.List)):
                        groups = [g_.value for g_ in row_.elts[2].elts if isinstance(g_, ast.Constant)]
                        kind = 'property' if 'property_name' in groups else 'signal' if 'signal_name' in groups else 'field' if 'field_name' in groups else None
                        if kind and any(isinstance(x, ast.Attribute) and x.attr == st_.targets[0].id for x in ast.walk(pcb) if isinstance(st_.targets[0], ast.Name)):
                            seps[kind] = row_.elts[1].value
    r2.check(seps == {'property': '%s:%s', 'signal': '%s::%s', 'field': '%s.%s'}, 'parser identifier formats', ap.rel, pcb.lineno, 'parser builds identifiers as %s' % seps, detail=seps)
    sites = []
    for mname, f in methods.items():
        for c in P.calls_in(f):
            if P.src(c.func) in ('self._blocks.get', 'self._blocks.pop') and c.args:
                sites.append((mname, f, c))
    params_ok = 0
    for mname, f, c in sorted(sites, key=lambda s: s[2].lineno):
        k = c.args[0]
        fmt = None
        parts = [k]
        kk = k
        if isinstance(k, ast.Name):
            d = [v for t, v, st in P.stores_in(f) if isinstance(t, ast.Name) and t.id == k.id]
            if len(d) == 1:
                kk = d[0]
        # the key as a string shape: '%s' % x, 'a' + x, f-strings and str.format all read the same
        try:
            fr_ = strfrag.merge_consts(strfrag.flatten(kk))
        except Exception:
            fr_ = []
        if any(x[0] == 'const' for x in fr_) and all(x[0] in ('const', 'expr') for x in fr_):
            fmt = ''.join(x[1].replace('%', '%%') if x[0] == 'const' else '%s' for x in fr_)
            parts = [x[1] for x in fr_ if x[0] == 'expr']
        fparams = set(a.arg for a in f.args.args) | set(t.id for n in P.walk_no_nested(f) if isinstance(n, ast.For) for t in ast.walk(n.target) if isinstance(t, ast.Name))
        local = P.local_defs(f)
        bad = []
        for p_ in parts:
            txt = P.src(p_)
            roots = set(n.id for n in ast.walk(p_) if isinstance(n, ast.Name)) - {'self'}
            # locals derived only from parameters / loop variables
            for r_ in list(roots):
                if r_ not in fparams and r_ in local:
                    roots.discard(r_)
                    for dv in local[r_]:
                        if dv is not None:
                            roots |= set(n.id for n in ast.walk(dv) if isinstance(n, ast.Name)) - {'self'}
            roots = set(r_ for r_ in roots if r_ not in fparams and r_ not in local)
            if roots - {'name'}:
                bad.append((txt, sorted(roots)))
        want_fmt = {'_apply_annotations_property': '%s:%s', '_apply_annotations_signal': '%s::%s', '_apply_annotations_field': '%s.%s', '_pair_class_virtuals': '%s::%s',
                    '_pass_read_annotations': 'SECTION:%s'}.get(mname)
        okf = (fmt == want_fmt) if (want_fmt and fmt is not None) else (fmt is None)
        r2.check(not bad and okf, '%s: key %s' % (mname, P.src(k)), rel, c.lineno,
                 'block lookup key `%s` in %s is %s' % (P.src(k), mname, 'built from something other than the node being annotated: %s' % bad if bad else
                                                        'formatted with %r, the comment parser uses %r' % (fmt, want_fmt)), detail=fmt or P.src(k))
    # the one sanctioned cross lookup: a virtual method takes its invoker's block (store vfunc.invoker = method.name on the same row)
    pv = py.func(MT, 'MainTransformer._pair_class_virtuals')
    inv = [e for e in P.effects(pv) if e.kind == 'store' and e.target == 'vfunc.invoker']
    # the vfunc is named after the SAME method whose comment block it inherits (whatever that local is called)
    inv_keys = set(P.src(c.args[0]) for c in P.calls_in(pv) if P.src(c.func) in ('self._blocks.get', 'self._blocks.pop') and c.args)
    inv_ok = [e for e in inv if re.match(r'^\w+\.name$', e.value or '') and e.value[:-len('.name')] + '.symbol' in inv_keys]
    r2.check(bool(inv_ok), 'vfunc without a block inherits from its invoker', rel, pv.lineno, 'invoker store changed: %s (block keys %s)' % (inv, sorted(inv_keys)))

    # ------------------------------------------------------------------ R3 pairing rules
    r3 = ctx.rule('R3', 'rename-to pairing is mutual and refuses targets already involved; heuristics never overwrite explicit annotations', floor=6)
    rn = py.func(MT, 'MainTransformer._apply_annotation_rename_to')
    RN = gsa.summarise(ctx, MT, 'MainTransformer._apply_annotation_rename_to')
    rnode = re.escape(RN.P(1))
    TGT = r'get_by_symbol\(.*ANN_RENAME_TO.*\)'
    sb = gsa.find(RN, 'store', r'^self\._namespace\.%s\.shadowed_by$' % TGT, r'^%s\.name$' % rnode)
    sh = gsa.find(RN, 'store', r'^%s\.shadows$' % rnode, r'^self\._namespace\.%s\.name$' % TGT)
    ok = len(sb) == 1 and len(sh) == 1 and gsa.equiv(sb[0].cond, sh[0].cond)
    r3.check(ok, 'shadows / shadowed-by stored together and crossing', rel, rn.lineno, 'stores: %s %s (all: %s)' % (sb, sh, gsa.find(RN, 'store', r'\.shadow')))
    if sb:
        e = sb[0]
        tgt = e.target[:-len('.shadowed_by')]
        T_ = re.escape(tgt)
        okg = gsa.impossible(RN, e, [(r'^%s\.shadowed_by$' % T_, True)]) and gsa.impossible(RN, e, [(r'^%s\.shadows$' % T_, True)]) and gsa.impossible(RN, e, [(r'^%s$' % T_, False)]) \
            and gsa.allowed(RN, e, [(r'^%s\.shadow' % T_, False), (r'.', True)])
        r3.check(okg, 'target must be found, not shadowed and not shadowing', rel, e.line,
                 'the pair is stored when %s: the guards must test the TARGET (the symbol that is being shadowed); otherwise a second (rename-to) for the same target '
                 'overwrites the first and two functions claim the same name' % e.when()[:400], detail=e.when()[:400])
    look = gsa.find(RN, 'call', r'^self\._namespace\.get_by_symbol$')
    r3.check(bool(look) and all(re.search(r'ANN_RENAME_TO\)?\[0\]$|ANN_RENAME_TO\]\[0\]$', c.args[0]) for c in look if c.args), 'target looked up by the C symbol given', rel, rn.lineno,
             'target lookups: %s' % [c.value for c in look])
    wf = [e for e in w.by_tag()['function']][0]
    rr = dict((r_.key, r_) for r_ in wf.rows)
    r3.check('shadowed-by' in rr and 'shadows' in rr and rr['shadowed-by'].value.endswith('.shadowed_by') and rr['shadows'].value.endswith('.shadows'), 'writer emits both sides', w.mod.rel, wf.line,
             'shadows rows: %s' % [str(rr.get(k)) for k in ('shadows', 'shadowed-by')])
    # heuristics respect explicit annotations (sibling agreement)
    for fname in ('_pass3_callable_async_sync', '_match_class_sync_methods', '_pass3_callable_async_finish', '_match_class_async_methods'):
        if fname not in methods:
            raise AnalysisError('%s missing' % fname)
        attr = 'sync_func' if 'sync' in fname.split('async_')[-1] or fname.endswith('sync_methods') else 'finish_func'
        HS = gsa.summarise(ctx, MT, 'MainTransformer.%s' % fname)
        for e in gsa.find(HS, 'store', r'^\w+\.%s$' % attr):
            o = e.target.split('.')[0]
            okg = gsa.impossible(HS, e, [(r'^%s\.%s is None$' % (o, attr), False), (r'^%s\.%s$' % (o, attr), True)]) and \
                any(re.search(r'^%s\.%s( is None)?$' % (o, attr), a_) for a_ in gsa.atoms(e.cond))
            r3.check(okg, '%s: inferred %s only when not annotated' % (fname, attr), rel, e.line,
                     '%s stores %s when %s: an explicit (%s) annotation is overwritten by the name heuristic' % (fname, e.target, e.when()[:300], attr.replace('_', '-')), detail=e.when()[:300])

    # ------------------------------------------------------------------ R4 multi-line annotations (shared with C10.R3)
    from . import c10
    rx_ = ctx.rule('R4', 'annotations continued on a following line extend (never replace) those already parsed', floor=4)
    c10.continuation_rule(ctx, rx_)

    # callable-level annotations apply to every callable kind (functions, methods, virtual methods, callbacks)
    AC = gsa.summarise(ctx, MT, 'MainTransformer._apply_annotations_callable', opaque=('_apply_annotations_annotated', '_apply_annotations_params', '_apply_annotations_return', '_apply_annotation_rename_to'))
    acn = re.escape(AC.P(1))
    for c_, attr in (('ANN_FINISH_FUNC', 'finish_func'), ('ANN_SYNC_FUNC', 'sync_func'), ('ANN_ASYNC_FUNC', 'async_func')):
        st_ = [e for e in gsa.find(AC, 'store', r'^%s\.%s$' % (acn, attr)) if gsa.needs(AC, e, r'\b%s\b' % c_)]
        okk = bool(st_) and any(gsa.allowed(AC, e, [(r'^isinstance\(%s, ast\.Callable\)$' % acn, True), (r'^isinstance\(%s, ast\.\w+\)$' % acn, False), (r'\b%s\b' % c_, 'P')]) for e in st_)
        r1.check(okk, '(%s) applies to every callable, not only to functions' % ann_consts[c_], rel, st_[0].line if st_ else AC.func.lineno,
                 '(%s) is stored only when %s: the annotation is ignored on virtual methods / callbacks' % (ann_consts[c_], [e.when()[:160] for e in st_]))
