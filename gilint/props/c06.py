"""C06 — a compiled typelib encodes exactly the API of the GIR it came from (structural clauses)."""
import re
import subprocess
import os

from ..core import AnalysisError
from .. import cfront as C
from .. import cgsa, gsa
from .. import cattr

EXPLANATION = ('clang AST rules over girnode.c, girmodule.c, girparser.c, gitypelib.c, gthash.c: the three sibling switches (size, full '
               'size, build) agree on node kinds and base blob types and every string written is sized; every field of every blob/header '
               'struct is assigned on the writer side except a reviewed set (padding zeroed by g_malloc0, nested blobs written by '
               'recursion, overlay views); each blob field takes its value from the like-named node field or a reviewed rename; header '
               'blob sizes, validator sizes and CHECK_SIZE literals equal the compiler-evaluated sizeof; type de-duplication keys cover '
               'every node field the type blob stores; attribute decoding tables of girparser.c are total and consistent between '
               'sibling elements; the directory-index buffer is fully initialised; the validator accepts what the compiler produces.')

GN = 'girepository/girnode.c'
GM = 'girepository/girmodule.c'
GP = 'girepository/girparser.c'
GT = 'girepository/gitypelib.c'
GH = 'girepository/gthash.c'

RENAMES = {
    ('FieldBlob', 'struct_offset', 'offset'): 'FieldBlob.struct_offset: "offset, in bytes from the start of the struct"',
    ('VFuncBlob', 'struct_offset', 'offset'): 'VFuncBlob.struct_offset: offset of the function pointer in the class struct',
    ('PropertyBlob', 'transfer_ownership', 'transfer'): 'transfer="full" <-> transfer_ownership',
    ('PropertyBlob', 'transfer_container_ownership', 'shallow_transfer'): 'transfer="container" <-> transfer_container_ownership',
    ('ArgBlob', 'transfer_ownership', 'transfer'): 'transfer="full" <-> transfer_ownership',
    ('ArgBlob', 'transfer_container_ownership', 'shallow_transfer'): 'transfer="container"',
    ('ArgBlob', 'return_value', 'retval'): 'ArgBlob.return_value: the parameter is the "user-visible return value"',
    ('SignatureBlob', 'may_return_null', 'nullable'): 'nullable return value',
    ('SignatureBlob', 'caller_owns_return_value', 'transfer'): 'transfer="full" of the return value',
    ('SignatureBlob', 'caller_owns_return_container', 'shallow_transfer'): 'transfer="container" of the return value',
    ('SignatureBlob', 'skip_return', 'skip'): 'skip on the return value',
    ('SignatureBlob', 'instance_transfer_ownership', 'instance_transfer_full'): 'transfer of the instance parameter',
}

# blob fields never assigned by name on the writer side, with the reason each is fine
UNWRITTEN_OK = {
    'nested': ('written through recursion / array stores, not by member name',
               {('ArgBlob', 'arg_type'), ('ArrayTypeBlob', 'type'), ('ConstantBlob', 'type'), ('ParamTypeBlob', 'type'), ('PropertyBlob', 'type'),
                ('SignatureBlob', 'return_type'), ('SignatureBlob', 'arguments'), ('EnumBlob', 'values'), ('ErrorTypeBlob', 'domains'),
                ('InterfaceBlob', 'prerequisites'), ('ObjectBlob', 'interfaces')}),
    'overlay': ('CommonBlob / RegisteredTypeBlob are read-side views of the concrete blobs', None),
    'memcpy': ('copied with memcpy', {('Header', 'magic')}),
    'nosource': ('no GIR attribute feeds it; stays zero', {('VFuncBlob', 'signal')}),
}


def ns(s):
    return re.sub(r'\s+', '', s or '')


def norm(s):
    return re.sub(r'^(is_|has_)|_$', '', s)


def case_table(tu, fname, offset_mode):
    """{node kind: (first sizeof type, set of string member paths, stmts)} for the switch (node->type) of fname"""
    f = tu.func(fname)
    sws = [n for n in C.walk(tu.body(f)) if n.get('kind') == 'SwitchStmt' and ns(tu.text_of(C.kids(n)[0])).endswith('node->type')]
    if not sws:
        raise AnalysisError('%s: switch (node->type) not found' % fname)
    out = {}
    for labels, stmts in C.switch_cases(tu, sws[0]):
        kinds = [l.replace('G_IR_NODE_', '') for l in labels if l and l.startswith('G_IR_NODE_')]
        first = None
        strings = set()
        zero = False
        for st in stmts:
            for n in C.walk(st):
                t = C.sizeof_type(n)
                if t and first is None:
                    first = t
                if n.get('kind') == 'CallExpr' and C.callee(n) in ('_g_ir_write_string', 'strlen'):
                    a0 = C.strip(C.call_args(n)[0])
                    mp = C.member_path(a0)
                    if a0.get('kind') == 'DeclRefExpr' and a0.get('referencedDecl', {}).get('kind') == 'VarDecl':
                        # a local that only names a member (`const gchar *text = constant->value;`)
                        vd = tu.by_id.get(a0['referencedDecl'].get('id'))
                        if vd is not None and C.kids(vd):
                            mp = C.member_path(C.kids(vd)[-1]) or mp
                    if mp:
                        strings.add(mp.split('->')[-1])      # compare by member name (the local alias of the node differs)
            if st.get('kind') == 'BinaryOperator' and st.get('opcode') == '=' and C.declref(C.kids(st)[0]) == 'size' and C.int_value(C.kids(st)[1]) == 0:
                zero = True
        for k in kinds:
            out[k] = (first, strings, zero)
    return out


def clang_sizes(ctx, names):
    """sizeof of the named types as evaluated by clang's constant folder (LLVM IR of a generated file; nothing is run)"""
    src = '#include "gitypelib-internal.h"\n' + '\n'.join('unsigned long sz_%s = sizeof (%s);' % (n, n) for n in names) + '\n'
    cmd = [C.CLANG, '-S', '-emit-llvm', '-w', '-x', 'c', '-', '-o', '-', '-I', C.STUB, '-I', os.path.join(ctx.root, 'girepository'), '-I', ctx.root] + C.DEFS
    p = subprocess.run(cmd, input=src.encode(), stdout=subprocess.PIPE, stderr=subprocess.PIPE)
    if p.returncode != 0:
        raise AnalysisError('clang could not evaluate sizeof of the blob types: %s' % p.stderr.decode()[:300])
    out = {}
    for m in re.finditer(r'@sz_(\w+) = .*?global i64 (\d+)', p.stdout.decode()):
        out[m.group(1)] = int(m.group(2))
    return out


def alias_rule(ctx, r8):
    """C integer alias names (glong, gsize, gushort, ...) resolve to the fixed-width basic type of their size and signedness (shared with C08)"""
    gp = ctx.c.tu('girepository/girparser.c')
    bt = gp.vars.get('basic_types')
    if bt is None:
        raise AnalysisError('girparser.c: basic_types[] not found')
    rows = []
    for il in C.walk(bt):
        if il.get('kind') == 'InitListExpr' and len(C.kids(il)) == 3 and C.string_value(C.kids(il)[0]) is not None:
            rows.append((C.string_value(C.kids(il)[0]), C.declref(C.kids(il)[1])))
    if len(rows) < 12:
        raise AnalysisError('girparser.c: basic_types[] rows not recognised (%d)' % len(rows))
    PB = cgsa.summarise(ctx, 'girparser.c' if False else 'girepository/girparser.c', 'parse_basic')
    n_alias = 0
    for e in PB.effects:
        if e.kind != 'return':
            continue
        mm = re.match(r'^&basic_types\[([\d+() ]+)\]$', e.value)
        if not mm:
            continue
        idx = sum(int(x) for x in re.findall(r'\d+', mm.group(1)))        # a sum of constants, however it is parenthesised
        sizes = [a_ for a_ in gsa.atoms(e.cond) if re.search(r'\.size == sizeof\(g?u?int(\d+)(_t)?\)$', a_)]
        byb = {}
        for a_ in sizes:
            byb.setdefault(int(re.search(r'int(\d+)', a_.split('sizeof')[1]).group(1)), []).append(a_)
        need = [b_ for b_, ats in byb.items() if not gsa.can_hold(e.cond, dict((a_, False) for a_ in ats))]
        if len(need) != 1:
            continue        # the name-table loop (returns &basic_types[i]) or an unconditional row
        bits = need[0]
        sg = [a_ for a_ in gsa.atoms(e.cond) if a_.endswith('.is_signed')]
        if not sg:
            continue
        signed = not gsa.can_hold(e.cond, dict((a_, False) for a_ in sg))
        want = 'GI_TYPE_TAG_%sINT%d' % ('' if signed else 'U', bits)
        n_alias += 1
        got = rows[idx][1] if idx < len(rows) else None
        r8.check(got == want, 'alias of %d bits, %s -> %s' % (bits, 'signed' if signed else 'unsigned', want), 'girepository/girparser.c', e.line,
                 'parse_basic resolves a %s %d-bit C integer alias (glong, gsize, gushort, ...) to basic_types[%d] = %s, expected %s: the typelib records the wrong width or signedness for '
                 'fields/parameters written with those C type names' % ('signed' if signed else 'unsigned', bits, idx, rows[idx] if idx < len(rows) else None, want), detail=got)
    if n_alias < 8:
        raise AnalysisError('parse_basic: only %d alias rows recognised' % n_alias)


def check(ctx):
    gn = ctx.c.tu(GN)
    gm = ctx.c.tu(GM)
    gt = ctx.c.tu(GT)

    # ------------------------------------------------------------------ R1 three siblings
    r1 = ctx.rule('R1', 'size / full-size / build switches agree on node kinds, base blob type and sized strings', floor=30)
    sz = case_table(gn, '_g_ir_node_get_size', False)
    fs = case_table(gn, '_g_ir_node_get_full_size_internal', False)
    bd = case_table(gn, '_g_ir_node_build_typelib', True)
    r1.check(set(sz) == set(fs), 'size and full-size handle the same node kinds', GN, 1, 'kinds differ: %s' % sorted(set(sz) ^ set(fs)))
    for k in sorted(set(sz) | set(bd)):
        if k not in bd:
            r1.check(sz.get(k, (None, None, False))[2], 'node kind %s occupies no space' % k, GN, 1,
                     'node kind %s is sized but never written by _g_ir_node_build_typelib' % k, detail='size = 0')
            continue
        if k not in sz:
            r1.fail('node kind %s sized' % k, GN, 1, 'node kind %s is written but _g_ir_node_get_size does not know it' % k)
            continue
        a, b, c = sz[k][0], fs.get(k, (None,))[0], bd[k][0]
        r1.check(a == b == c, '%s base blob type' % k, GN, 1,
                 'node kind %s: _g_ir_node_get_size uses sizeof(%s), _g_ir_node_get_full_size uses sizeof(%s), the writer advances by sizeof(%s): '
                 'the buffer allocated from the size functions does not match what is written' % (k, a, b, c), detail=a)
        missing = sorted(s for s in bd[k][1] if s not in fs[k][1])
        r1.check(not missing, '%s strings written are sized' % k, GN, 1,
                 'node kind %s writes the strings %s into the string pool but _g_ir_node_get_full_size does not reserve space for them' % (k, missing),
                 detail=sorted(bd[k][1]))

    # ------------------------------------------------------------------ R2 every blob field is written
    r2 = ctx.rule('R2', 'every field of every blob / header struct is assigned by the writer (or is in the reviewed set)', floor=200)
    recs = {}
    byid = {}
    for n in gn.root['inner']:
        if n.get('kind') == 'RecordDecl' and n.get('completeDefinition'):
            byid[n['id']] = [c['name'] for c in n.get('inner', []) if c.get('kind') == 'FieldDecl' and c.get('name')]
    for t in gn.root['inner']:
        if t.get('kind') == 'TypedefDecl' and re.search(r'(Blob|Header|DirEntry|Section)$', t.get('name', '')):
            for x in C.walk(t):
                if x.get('kind') == 'RecordType' and x.get('decl', {}).get('id') in byid:
                    recs[t['name']] = byid[x['decl']['id']]
    if len(recs) < 20:
        raise AnalysisError('only %d blob structs found in gitypelib-internal.h' % len(recs))
    written = {}
    for tu in (gn, gm):
        for fn, f in tu.functions.items():
            if not tu.in_main_file(f):
                continue
            for l, r, st in C.assignments(tu.body(f)):
                m = C.strip(l)
                while m is not None and m.get('kind') == 'MemberExpr':
                    written.setdefault(C.base_record_type(m), set()).add(m['name'])
                    m = C.strip(C.kids(m)[0])
            for n in C.walk(tu.body(f)):
                if n.get('kind') == 'UnaryOperator' and n.get('opcode') in ('++', '--'):
                    m = C.strip(C.kids(n)[0])
                    if m.get('kind') == 'MemberExpr':
                        written.setdefault(C.base_record_type(m), set()).add(m['name'])
    zeroed = any(C.callee(c) == 'g_malloc0' for c in C.calls(gm.body(gm.func('_g_ir_module_build_typelib'))))
    for rec in sorted(recs):
        if rec in ('CommonBlob', 'RegisteredTypeBlob'):
            continue
        for fld in recs[rec]:
            if fld in written.get(rec, ()):
                r2.ok('%s.%s' % (rec, fld), GN, 1)
                continue
            if re.match(r'(reserved\d*|padding\d*)$', fld):
                r2.check(zeroed, '%s.%s zero (buffer from g_malloc0)' % (rec, fld), GM, 1, 'padding is not zeroed: typelib buffer is not allocated with g_malloc0')
                continue
            why = [k for k, (txt, st_) in UNWRITTEN_OK.items() if st_ and (rec, fld) in st_]
            r2.check(bool(why), '%s.%s' % (rec, fld), GN, 1,
                     'no statement in girnode.c / girmodule.c assigns %s.%s: the information the GIR carries for it is silently dropped from '
                     'the typelib (the field stays zero)' % (rec, fld), detail=why[0] if why else None)

    # ------------------------------------------------------------------ R3 field provenance
    r3 = ctx.rule('R3', 'each blob field takes its value from the like-named node field (or a reviewed rename)', floor=80)
    f = gn.func('_g_ir_node_build_typelib')
    for l, r, st in C.assignments(gn.body(f)):
        l2, r2_ = C.strip(l), C.strip(r)
        if l2.get('kind') != 'MemberExpr' or not C.base_record_type(l2).endswith('Blob'):
            continue
        if r2_.get('kind') != 'MemberExpr' or not C.base_record_type(r2_).startswith('GIrNode'):
            continue
        b, fl, g = C.base_record_type(l2), l2['name'], r2_['name']
        ok = norm(fl) == norm(g) or (b, fl, g) in RENAMES
        r3.check(ok, '%s.%s <- %s.%s' % (b, fl, C.base_record_type(r2_), g), GN, gn.line(st),
                 '%s.%s is filled from %s.%s: a flag of the GIR ends up in a different flag of the typelib' % (b, fl, C.base_record_type(r2_), g),
                 detail=RENAMES.get((b, fl, g), 'same name'))

    # ------------------------------------------------------------------ R4 sizes
    r4 = ctx.rule('R4', 'header blob sizes, validator sizes and CHECK_SIZE literals equal sizeof; all multiples of 4', floor=25)
    hs = {}
    for l, r, st in C.assignments(gm.body(gm.func('_g_ir_module_build_typelib'))):
        p = C.member_path(l) or ''
        if p.startswith('header->') and p.endswith('_blob_size') and C.sizeof_type(r):
            hs[p[8:]] = (C.sizeof_type(r), gm.line(st))      # (error_domain_blob_size is a legacy literal, no longer used)
    names = sorted(set(t for t, ln in hs.values() if t) | set(recs))
    sizes = clang_sizes(ctx, names)
    for fld, (t, ln) in sorted(hs.items()):
        expect = fld.replace('_blob_size', '').replace('_', '')
        r4.check(t is not None and t.lower() == expect + 'blob' or (fld, t) in (('entry_blob_size', 'DirEntry'), ('arg_blob_size', 'ArgBlob')), 'header->%s = sizeof(%s)' % (fld, t), GM, ln,
                 'header->%s is set to sizeof(%s)' % (fld, t), detail=sizes.get(t))
        r4.check(sizes.get(t, 1) % 4 == 0, 'sizeof(%s) multiple of 4' % t, GM, ln, 'sizeof(%s) = %s is not a multiple of 4' % (t, sizes.get(t)))
    # validator
    vh = gt.func('validate_header_basic')
    vt = ns(gt.text_of(vh))
    for fld, (t, ln) in sorted(hs.items()):
        r4.check('header->%s!=sizeof(%s)' % (fld, t) in vt, 'validator checks %s against sizeof(%s)' % (fld, t), GT, gt.line(vh),
                 'g_typelib_validate does not compare header->%s with sizeof(%s)' % (fld, t))
    cs = gt.func('g_typelib_check_sanity')
    for m in re.finditer(r'CHECK_SIZE\s*\(\s*(\w+)\s*,\s*(\d+)\s*\)', gt.text_of(cs)):
        t, lit = m.group(1), int(m.group(2))
        r4.check(sizes.get(t) == lit, 'CHECK_SIZE (%s, %d)' % (t, lit), GT, gt.line(cs), 'sizeof(%s) is %s under clang, the sanity check expects %d' % (t, sizes.get(t), lit),
                 detail=sizes.get(t))

    # ------------------------------------------------------------------ R5 type de-duplication key
    r5 = ctx.rule('R5', 'type de-duplication key covers every node field stored in the type blob', floor=5)
    st_f = gn.func('serialize_type')

    def type_fields(root):
        out = set()
        for n in C.walk(root):
            if n.get('kind') == 'MemberExpr' and C.base_record_type(n) == 'GIrNodeType':
                out.add(n['name'])
        return out
    # serialize_type: if / else-if chain on node->tag
    key_by_tag = {}

    def chain(stmt):
        if stmt is None or stmt.get('kind') != 'IfStmt':
            return
        ch = C.kids(stmt)
        cond = ns(gn.text_of(ch[0]))
        m_ = re.search(r'node->tag==(GI_TYPE_TAG_\w+)', cond)
        tag = m_.group(1) if m_ else ('BASIC' if 'GI_TYPE_TAG_IS_BASIC' in cond else None)
        if tag:
            key_by_tag[tag] = type_fields(ch[1])
        if len(ch) > 2:
            chain(ch[2])
    for s_ in C.kids(gn.body(st_f)):
        chain(s_)
    # the TYPE case of the builder: switch (type->tag) inside, plus the basic-type path
    sws = [n for n in C.walk(gn.body(f)) if n.get('kind') == 'SwitchStmt' and ns(gn.text_of(C.kids(n)[0])).endswith('node->type')]
    stored_by_tag = {}
    for labels, stmts in C.switch_cases(gn, sws[0]):
        if 'G_IR_NODE_TYPE' not in labels:
            continue
        for s_ in stmts:
            for inner in [n for n in C.walk(s_) if n.get('kind') == 'SwitchStmt' and ns(gn.text_of(C.kids(n)[0])).endswith('type->tag')]:
                for lbls, sts in C.switch_cases(gn, inner):
                    flds = set()
                    for x in sts:
                        for l, r, a_ in C.assignments(x):
                            if C.strip(l).get('kind') == 'MemberExpr' and C.base_record_type(C.strip(l)).endswith('Blob'):
                                flds |= type_fields(r)
                    for lb in lbls:
                        stored_by_tag[lb] = flds - {'tag', 'unparsed', 'is_gtype_struct', 'offset'}
    if not stored_by_tag or not key_by_tag:
        raise AnalysisError('serialize_type / type blob writer shapes not recognised')
    for tag in sorted(stored_by_tag):
        if tag not in key_by_tag:
            continue
        for fld in sorted(stored_by_tag[tag]):
            r5.check(fld in key_by_tag[tag], '%s: GIrNodeType.%s in the key' % (tag, fld), GN, gn.line(st_f),
                     'for %s the type blob stores GIrNodeType.%s but the de-duplication key built by serialize_type() does not depend on it: two '
                     'types that differ only in %s (e.g. an embedded fixed-size array field and a pointer parameter of the same shape) share '
                     'one blob and one of them is encoded wrongly' % (tag, fld, fld), detail=sorted(key_by_tag[tag]))

    # ------------------------------------------------------------------ R6 attribute decoding tables (shared with C15)
    r6 = ctx.rule('R6', 'boolean attribute decoding in girparser.c: "1" sets, "0" clears, siblings agree on the default', floor=30)
    gp = ctx.c.tu(GP)
    rows = cattr.decode_tables(gp)
    flags = {}
    for r in rows:
        t = r.table
        if t['1'] in (0, 1) and t['0'] in (0, 1) and t[None] in (0, 1, 'unset'):
            if r.attr in ('deprecated', 'glib:fundamental', 'glib:is-gtype-struct-for', 'length', 'fixed-size', 'glib:get-property', 'glib:set-property',
                          'direction', 'override', 'offset', 'bits', 'value', 'closure', 'destroy') or r.record in ('ParseContext', 'GIrModule'):
                continue
            if norm(r.attr.split(':')[-1].replace('-', '_')) != norm(r.field) and r.attr != 'allow-none':
                continue
            flags.setdefault(r.attr, []).append(r)
            if r.attr == 'allow-none':
                continue
            r6.check(t['1'] == 1 and t['0'] == 0, '%s @%s -> %s.%s' % (r.function, r.attr, r.record, r.field), GP, r.line,
                     '%s() decodes %s="1" as %s and %s="0" as %s' % (r.function, r.attr, t['1'], r.attr, t['0']),
                     detail={str(k): str(v) for k, v in t.items()})
    for attr, lst in sorted(flags.items()):
        defaults = set(0 if r.table[None] == 'unset' else r.table[None] for r in lst)
        r6.check(len(defaults) == 1, 'default of @%s consistent across elements' % attr, GP, lst[0].line,
                 'attribute %s defaults to different values in %s' % (attr, [(r.function, r.table[None]) for r in lst]), detail=sorted(defaults))
    # zero-terminated default
    stf = gp.func('start_type')
    texts = sorted(ns(gp.text_of(r)) for l, r, s_ in C.assignments(gp.body(stf)) if (C.member_path(l) or '').endswith('->zero_terminated'))
    r6.check('!(typenode->has_length||typenode->has_size)' in texts, 'zero-terminated defaults to true unless length or fixed-size is given', GP, gp.line(stf),
             'default of a missing zero-terminated attribute is %s' % texts, detail=texts)

    # ------------------------------------------------------------------ R7 deterministic bytes / validator accepts compiler output
    r7 = ctx.rule('R7', 'index buffer fully initialised; validator accepts what the compiler produces', floor=3)
    gh = ctx.c.tu(GH)
    pk = gh.func('_gi_typelib_hash_builder_pack')
    params = [p['name'] for p in gh.params(pk)]
    ms = C.calls(gh.body(pk), 'memset')
    ok = len(ms) == 1 and C.declref(C.call_args(ms[0])[0]) == params[1] and C.int_value(C.call_args(ms[0])[1]) == 0 and C.declref(C.call_args(ms[0])[2]) == params[2]
    r7.check(ok, 'pack() clears the whole buffer it was handed', GH, gh.line(pk),
             '_gi_typelib_hash_builder_pack does not memset (mem, 0, len) over the full length passed by the caller: add_directory_index_section '
             'rounds the size up and reallocs, so the tail bytes written to the file are indeterminate and two compilations differ')
    vi = gt.func('validate_interface_blob')
    vtxt = ns(gt.text_of(vi))
    r7.check('entry->blob_type!=BLOB_TYPE_INTERFACE&&entry->blob_type!=BLOB_TYPE_OBJECT' in vtxt, 'interface prerequisites may be interfaces or classes', GT, gt.line(vi),
             'validate_interface_blob rejects a prerequisite that is a class: GObject allows it (GtkCellEditable requires GtkWidget) and the compiler writes it')
    dat = [c for c in C.calls(gm.body(gm.func('_g_ir_module_build_typelib')), ('g_malloc0', 'g_malloc', 'g_new0'))]
    r7.check(any(C.callee(c) == 'g_malloc0' for c in dat), 'typelib buffer zero-initialised', GM, 1, 'typelib buffer not allocated with g_malloc0')

    # ------------------------------------------------------------------ R8 integer aliases, value signedness, dotted-name resolution
    r8 = ctx.rule('R8', 'C integer aliases resolve by size and signedness; enum value signedness from the 64-bit value; dotted names resolve only to cross references', floor=10)
    alias_rule(ctx, r8)
    gn_ = ctx.c.tu('girepository/girnode.c')
    btf = gn_.func('_g_ir_node_build_typelib')
    uv = [(re.sub(r'\s+', '', gn_.text_of(r)), st) for l, r, st in C.assignments(gn_.body(btf)) if (C.member_path(l) or '').endswith('->unsigned_value')]
    r8.check(len(uv) >= 1 and all('value->value' in t and 'blob->' not in t for t, st in uv), 'ValueBlob.unsigned_value from the 64-bit member value', 'girepository/girnode.c', gn_.line(uv[0][1]) if uv else gn_.line(btf),
             'unsigned_value is computed as %s: deciding the sign on the value already truncated to 32 bits marks members with bit 31 set (1<<31) as signed, and they read back negative'
             % [t for t, st in uv], detail=[t for t, st in uv])
    FE = cgsa.summarise(ctx, 'girepository/girnode.c', 'find_entry_node')
    hits = [e for e in FE.effects if e.kind in ('goto', 'return', 'break') and e.loops]
    dotted = [a_ for a_ in FE.atoms() if re.match(r'^1 < ', a_)]
    xref = [a_ for a_ in FE.atoms() if re.search(r'->type == G_IR_NODE_XREF$', a_)]
    okx = bool(hits) and bool(dotted) and bool(xref) and all(not gsa.can_hold(e.cond, dict([(a_, True) for a_ in dotted] + [(a_, False) for a_ in xref])) for e in hits) and \
        all(gsa.can_hold(e.cond, dict([(a_, True) for a_ in dotted] + [(a_, True) for a_ in xref])) for e in hits)
    r8.check(okx, 'a dotted name matches only cross-reference entries of that namespace', 'girepository/girnode.c', gn_.line(FE.func),
             'find_entry_node can match a LOCAL entry for a name qualified with another namespace (Other.Name resolves to the local Name): parent / interface / type references '
             'point at the wrong blob')
