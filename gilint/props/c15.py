"""C15 — whatever the scanner writes, the typelib compiler accepts (producer/consumer agreement)."""
import ast
import re

from ..core import AnalysisError
from .. import pyfront as P
from .. import cfront as C
from .. import wattr, cattr, rnc

EXPLANATION = ('Three artefacts are compared statically: the element/attribute table of everything GIRWriter can emit (symbolic '
               'interpretation of girwriter.py), the decoding tables of girparser.c (3-valued evaluation of every find_attribute '
               'condition over absent/"0"/"1"/other, from clang\'s AST) and the RELAX-NG schema docs/gir-1.2.rnc.  R1: every '
               'element name the writer emits is handled by the C parser; embedded callbacks only where the C parser accepts them. '
               'R2: for every boolean attribute the writer\'s emission rule composed with the C decoding is the identity on the flag. '
               'R3: every enumerated value the writer can emit is accepted by the C parser\'s strcmp chain.  R4: attributes with a '
               'typelib bit are fetched by the C parser for that element.  R5: writer vocabulary is within the schema.')

GP = 'girepository/girparser.c'

# writer capabilities outside the schema on the pinned tree: shared helper code paths that the model attributes never
# trigger for that element kind, or schema omissions that the C parser tolerates (it ignores unknown attributes)
SCHEMA_EXCEPTIONS_ATTR = {
    ('callback', 'glib:async-func'), ('callback', 'glib:finish-func'), ('callback', 'glib:sync-func'),
    ('constructor', 'glib:get-property'), ('constructor', 'glib:set-property'), ('function', 'glib:get-property'),
    ('function', 'glib:set-property'), ('function-inline', 'glib:get-property'), ('function-inline', 'glib:set-property'),
    ('method-inline', 'glib:get-property'), ('method-inline', 'glib:set-property'),
    ('instance-parameter', 'closure'), ('instance-parameter', 'destroy'), ('instance-parameter', 'optional'),
    ('instance-parameter', 'scope'), ('instance-parameter', 'skip'), ('type', 'foreign'),
}
SCHEMA_EXCEPTIONS_NEST = {
    ('class', 'prerequisite'), ('constant', 'varargs'), ('docsection', 'attribute'), ('field', 'varargs'), ('function-inline', 'attribute'),
    ('glib:boxed', 'constructor'), ('glib:boxed', 'method'), ('glib:boxed', 'method-inline'), ('instance-parameter', 'array'),
    ('instance-parameter', 'attribute'), ('instance-parameter', 'varargs'), ('interface', 'record'), ('interface', 'union'),
    ('property', 'varargs'), ('return-value', 'varargs'),
}
# boolean attributes without a typelib bit (documentation/scanner-only) that the C parser need not decode
NO_TYPELIB_BIT = {'private': 'FieldBlob has no private bit', 'introspectable': 'handled by introspectable_prelude (element dropped)',
                  'glib:fundamental': 'decoded by presence', 'deprecated': 'decoded by presence', 'pointer': 'decoded by presence',
                  'opaque': 'decoded by presence', 'disguised': 'decoded by presence', 'allow-none': 'legacy alias of nullable/optional',
                  'zero-terminated': 'checked separately (depends on length/fixed-size)'}


def ns(s):
    return re.sub(r'\s+', '', s or '')


def element_functions(tu):
    """{element name: set(functions that compare element_name with it)}"""
    out = {}
    for fname, f in tu.functions.items():
        if not tu.in_main_file(f):
            continue
        for c in C.calls(tu.body(f), ('strcmp', 'g_str_equal', 'g_strcmp0')):
            a = C.call_args(c)
            if len(a) == 2:
                for x, y in ((a[0], a[1]), (a[1], a[0])):
                    if C.declref(x) == 'element_name' and C.string_value(y) is not None:
                        out.setdefault(C.string_value(y), set()).add(fname)
    # start_element_handler dispatches `strcmp (element_name, "x") == 0 && start_x (...)` / `if (start_x (...)) goto out`
    seh = tu.func('start_element_handler')
    for c in C.calls(tu.body(seh)):
        nm = C.callee(c) or ''
        if not nm.startswith('start_') or nm not in tu.functions:
            continue
        for cond, pol, origin in C.guards(tu, c):
            for s in C.calls(cond, 'strcmp'):
                a = C.call_args(s)
                if C.declref(a[0]) == 'element_name' and C.string_value(a[1]) is not None and pol:
                    out.setdefault(C.string_value(a[1]), set()).add(nm)
        # start_x (...) inside a case of switch (element_name[0]): all elements with that first letter may reach it
    return out


def strcmp_literals(tu, f, var, depth=2):
    """string literals a variable is compared with inside f (directly, against the rows of a constant table, or inside a helper of
    the same file that receives the variable)"""
    out = set()

    def table_strings(y):
        # strcmp (x, table[i].name): every string literal in the initialiser of that file-scope table
        for d in C.walk(y):
            if d.get('kind') == 'DeclRefExpr':
                nm = d.get('referencedDecl', {}).get('name')
                v = tu.vars.get(nm)
                if v is None and d.get('referencedDecl', {}).get('kind') == 'VarDecl':
                    v = tu.by_id.get(d['referencedDecl'].get('id'))      # a function-local static table
                    if v is not None and not any(x.get('kind') == 'InitListExpr' for x in C.walk(v)):
                        v = None
                if v is not None:
                    return [C.string_value(x) for x in C.walk(v) if x.get('kind') == 'StringLiteral' and C.string_value(x) is not None]
        return []

    for c in C.calls(tu.body(f)):
        a = C.call_args(c)
        cn = C.callee(c)
        if cn in ('strcmp', 'g_str_equal', 'g_strcmp0', 'g_ascii_strcasecmp') and len(a) == 2:
            for x, y in ((a[0], a[1]), (a[1], a[0])):
                if C.declref(x) == var:
                    vals = [C.string_value(y)] if C.string_value(y) is not None else table_strings(y)
                    for v in vals:
                        out.add(v.lower() if cn == 'g_ascii_strcasecmp' else v)
        elif cn in tu.functions and depth > 0 and cn != f.get('name'):
            g = tu.functions[cn]
            ps = [p_['name'] for p_ in tu.params(g)]
            for i, x in enumerate(a):
                if C.declref(x) == var and i < len(ps):
                    out |= strcmp_literals(tu, g, ps[i], depth - 1)
    return out


def check(ctx):
    py = ctx.py
    w = wattr.WriterModel(py)
    wm = w.mod
    tu = ctx.c.tu(GP)
    rows = cattr.decode_tables(tu)
    efuncs = element_functions(tu)
    # first letter dispatch: element names reachable through `case 'x':` then start_* functions that look at element_name themselves
    schema = rnc.Schema(ctx.read('docs/gir-1.2.rnc'))
    bt = w.by_tag()

    # ------------------------------------------------------------------ R1 elements
    r1 = ctx.rule('R1', 'every element the writer emits is handled by girparser.c; embedded callbacks only where accepted', floor=40)
    for tag in sorted(bt):
        r1.check(tag in efuncs, '<%s> handled by the C parser' % tag, GP, 1,
                 'g-ir-scanner can emit <%s> but girparser.c never compares element_name with "%s": the compiler stops with '
                 '"Unexpected start tag"' % (tag, tag), detail=sorted(efuncs.get(tag, ())))
    # embedded callbacks inside fields
    sf = tu.func('start_function')
    emb = set()
    for sw in [n for n in C.walk(tu.body(sf)) if n.get('kind') == 'SwitchStmt']:
        for labels, stmts in C.switch_cases(tu, sw):
            if any('in_embedded_state' in tu.text_of(s) for s in stmts):
                emb |= set(l for l in labels if l.startswith('STATE_'))
    state_of = {'class': 'STATE_CLASS_FIELD', 'interface': 'STATE_INTERFACE_FIELD', 'record': 'STATE_STRUCT_FIELD', 'union': 'STATE_UNION_FIELD',
                'glib:boxed': 'STATE_BOXED_FIELD'}
    for parent in sorted(set(p for p, c_ in w.nesting() if c_ == 'field')):
        cb = any(e.tag == 'callback' and isinstance(e.parent, wattr.Element) and e.parent.tag == 'field'
                 and isinstance(e.parent.parent, wattr.Element) and e.parent.parent.tag == parent for e in w.elements())
        if not cb:
            continue
        st = state_of.get(parent)
        r1.check(st in emb, '<%s><field><callback>' % parent, GP, tu.line(sf),
                 'the scanner writes <field><callback/></field> for a function-pointer member of a <%s>, but start_function() accepts an '
                 'embedded callback only in %s: g-ir-compiler aborts on such a GIR ("Caught NULL node")' % (parent, sorted(emb)),
                 detail=sorted(emb))

    # ------------------------------------------------------------------ R2 flag decoding identity
    r2 = ctx.rule('R2', 'boolean attributes: writer emission rule composed with girparser.c decoding is the identity on the flag', floor=25)
    r4 = ctx.rule('R4', 'attributes that carry a typelib bit are fetched by the C parser for that element', floor=25)
    by_fa = {}
    for r in rows:
        by_fa.setdefault((r.function, r.attr), []).append(r)
    attr_by_func = {}
    for fname, f in tu.functions.items():
        if tu.in_main_file(f):
            attr_by_func[fname] = set(cattr.attr_vars(tu, f).values())
    seen = set()
    for e in w.elements():
        for row in e.rows:
            key = (e.tag, row.key)
            if key in seen:
                continue
            seen.add(key)
            funcs = efuncs.get(e.tag, set())
            same_key_rows = [x for x in e.rows if x.key == row.key]
            vals = set(x.value for x in same_key_rows)
            consts = set()
            for v in vals:
                try:
                    n = ast.parse(v, mode='eval').body
                except SyntaxError:
                    continue
                if isinstance(n, ast.Constant):
                    consts.add(n.value)
                elif isinstance(n, ast.IfExp) and isinstance(n.body, ast.Constant) and isinstance(n.orelse, ast.Constant):
                    consts |= {n.body.value, n.orelse.value}
            is_flag = bool(consts) and consts <= {'0', '1'} and len(vals) == len([v for v in vals if v.startswith("'")])
            fetched = any(row.key in attr_by_func.get(fn, ()) for fn in funcs)
            ignored_element = not any(fn.startswith('start_') and fn != 'start_element_handler' for fn in funcs)
            if e.tag == 'instance-parameter' and row.key != 'transfer-ownership':
                continue      # the typelib keeps only the ownership transfer of the instance parameter
            if ignored_element or (e.tag, row.key) == ('type', 'foreign'):
                continue      # element passed through (not part of the typelib) / attribute dead on the writer side (C07.R1)
            if is_flag or row.key in ('direction', 'transfer-ownership', 'scope', 'when', 'closure', 'destroy', 'length', 'fixed-size', 'bits',
                                      'parent', 'glib:type-name', 'glib:get-type', 'glib:type-struct', 'glib:is-gtype-struct-for', 'value',
                                      'c:identifier', 'invoker', 'glib:error-domain', 'shadows', 'throws', 'name'):
                if row.key in NO_TYPELIB_BIT and not fetched:
                    r4.ok('%s/@%s (no typelib bit: %s)' % (e.tag, row.key, NO_TYPELIB_BIT[row.key]), GP, 1)
                else:
                    r4.check(fetched, '%s/@%s fetched' % key, GP, 1,
                             'the scanner writes %s="%s" on <%s> but none of %s calls find_attribute ("%s"): the typelib silently loses it'
                             % (row.key, row.value, e.tag, sorted(funcs), row.key))
            if not is_flag or row.key in NO_TYPELIB_BIT and row.key != 'allow-none':
                continue
            # decoding rows for this attribute in the functions that handle this element
            drs = [r for fn in funcs for r in by_fa.get((fn, row.key), [])
                   if re.sub(r'[-:]', '_', row.key.split(':')[-1]).rstrip('_') in r.field.replace('final_', 'final') or row.key == 'allow-none']
            if not drs:
                continue
            for dr in drs:
                if row.key == 'allow-none':
                    ok = dr.table['1'] == 1 and dr.table[None] in ('unset', 0)
                    r2.check(ok, '%s/@allow-none -> %s' % (e.tag, dr.field), GP, dr.line, 'allow-none decoding: %s' % dr.table, detail=str(dr.table))
                    continue
                t = dr.table
                absent = 0 if t[None] == 'unset' else t[None]
                problems = []
                if consts == {'1'}:
                    # emitted exactly when the flag is set
                    if t['1'] != 1:
                        problems.append('"1" decodes to %s' % t['1'])
                    if absent != 0:
                        problems.append('absent decodes to %s (flag clear is written by omission)' % absent)
                elif consts == {'0'}:
                    if t['0'] != 0:
                        problems.append('"0" decodes to %s' % t['0'])
                    if absent != 1:
                        problems.append('absent decodes to %s (flag set is written by omission)' % absent)
                else:
                    if t['1'] != 1:
                        problems.append('"1" decodes to %s' % t['1'])
                    if t['0'] != 0:
                        problems.append('"0" decodes to %s' % t['0'])
                r2.check(not problems, '%s/@%s -> %s.%s' % (e.tag, row.key, dr.record, dr.field), GP, dr.line,
                         '%s() decodes %s so that %s, but g-ir-scanner writes %s=%s %s: the typelib flag differs from what the GIR states'
                         % (dr.function, row.key, '; '.join(problems), row.key, sorted(consts), [x.guard_text() for x in same_key_rows]),
                         detail={'table': {str(k): str(v) for k, v in t.items()}, 'writer': sorted(consts)})
    r2.exhaustive = True

    # ------------------------------------------------------------------ R2b zero-terminated default
    r2b = ctx.rule('R2b', 'array zero-terminated: explicit attribute exactly when the C default would differ', floor=2)
    st = tu.func('start_type')
    zt = [(l, r, s_) for l, r, s_ in C.assignments(tu.body(st)) if (C.member_path(l) or '').endswith('->zero_terminated')]
    texts = sorted(ns(tu.text_of(r)) for l, r, s_ in zt)
    r2b.check('!(typenode->has_length||typenode->has_size)' in texts, 'C default: zero-terminated unless length or fixed-size given', GP, tu.line(st),
              'start_type() default for a missing zero-terminated attribute is %s, expected !(has_length || has_size)' % texts, detail=texts)
    arr = [e for e in bt.get('array', [])][0]
    zrows = [r for r in arr.rows if r.key == 'zero-terminated']
    cond1 = [r.guard_text() for r in zrows if r.value == "'1'"]
    cond0 = [r.guard_text() for r in zrows if r.value == "'0'"]
    ok = len(cond0) == 1 and cond0[0].startswith('not ') and 'zeroterminated' in cond0[0] and len(cond1) == 1 and \
        '.size is not None or' in cond1[0] and 'length_param_name is not None' in cond1[0] and 'zeroterminated' in cond1[0]
    r2b.check(ok, 'writer: "0" when false, "1" when true and (fixed-size or length)', wm.rel, zrows[0].line if zrows else 1,
              'zero-terminated is written as "1" when %s / "0" when %s: with the C default !(has_length||has_size) an array that is both '
              'zero-terminated and has a fixed size or length needs the explicit "1"' % (cond1, cond0), detail={'1': cond1, '0': cond0})

    # ------------------------------------------------------------------ R3 enumerated values
    r3 = ctx.rule('R3', 'enumerated attribute values the writer can emit are accepted by the C parser', floor=12)
    am = py.mod('ast')
    enums = {
        'direction': ([py.fold_name(am, n) for n in ('PARAM_DIRECTION_IN', 'PARAM_DIRECTION_OUT', 'PARAM_DIRECTION_INOUT')], 'start_parameter', 'direction'),
        'transfer-ownership': ([py.fold_name(am, n) for n in ('PARAM_TRANSFER_NONE', 'PARAM_TRANSFER_CONTAINER', 'PARAM_TRANSFER_FULL')], 'parse_param_transfer', 'transfer'),
        'scope': ([py.fold_name(am, n) for n in ('PARAM_SCOPE_CALL', 'PARAM_SCOPE_ASYNC', 'PARAM_SCOPE_NOTIFIED', 'PARAM_SCOPE_FOREVER')], 'start_parameter', 'scope'),
        'when': ([py.fold_name(am, n) for n in ('SIGNAL_FIRST', 'SIGNAL_LAST', 'SIGNAL_CLEANUP')], 'start_glib_signal', 'when'),
    }
    for key, (values, fn, var) in sorted(enums.items()):
        f = tu.func(fn)
        lits = strcmp_literals(tu, f, var)
        # `in` is the default direction when nothing else matches
        for v in values:
            # the value every chain falls back to when nothing else matches (checked to be what the scanner means by it)
            implied = (key == 'direction' and v == 'in') or \
                (key == 'when' and v == 'cleanup' and any((C.member_path(l) or '').endswith('->run_cleanup') and C.int_value(r) != 0
                                                          for l, r, s_ in C.assignments(tu.body(f))))
            r3.check(v in lits or implied, '%s="%s"' % (key, v), GP, tu.line(f),
                     'g-ir-scanner writes %s="%s" but %s() only recognises %s: the value is silently decoded as something else'
                     % (key, v, fn, sorted(lits)), detail=sorted(lits))
    # the scanner's own option lists equal these constants (so every annotation value maps to a recognised attribute value)
    apm = py.mod('annotationparser')
    r3.check(sorted(py.fold_name(apm, 'SCOPE_OPTIONS')) == sorted(enums['scope'][0]), 'scope annotation options = written values', apm.rel, 1, 'SCOPE_OPTIONS differ from ast.PARAM_SCOPE_*')

    # ------------------------------------------------------------------ R5 writer within the schema
    r5 = ctx.rule('R5', 'writer vocabulary (elements, attributes, nesting) is within docs/gir-1.2.rnc', floor=300)
    seen = set()
    for e in w.elements():
        if e.tag not in schema.elements:
            r5.fail('<%s> declared' % e.tag, 'docs/gir-1.2.rnc', 1, 'element <%s> is not declared in the schema' % e.tag)
            continue
        for row in e.rows:
            k = (e.tag, row.key)
            if k in seen or row.key.startswith('xmlns') or row.key == 'xml:space':
                continue
            seen.add(k)
            if k in SCHEMA_EXCEPTIONS_ATTR:
                continue
            r5.check(row.key in schema.elements[e.tag]['attrs'], '%s/@%s in schema' % k, wm.rel, row.line,
                     'the writer emits %s on <%s>, which docs/gir-1.2.rnc does not allow there' % (row.key, e.tag))
    for p_, c_ in sorted(w.nesting()):
        if p_ == '#document' or (p_, c_) in SCHEMA_EXCEPTIONS_NEST:
            continue
        r5.check(p_ in schema.elements and c_ in schema.elements[p_]['children'], '<%s> inside <%s> in schema' % (c_, p_), wm.rel, 1,
                 'the writer nests <%s> in <%s>, which docs/gir-1.2.rnc does not allow' % (c_, p_))

    # ------------------------------------------------------------------ R6 conditions shared with C05 / C06
    r6 = ctx.rule('R6', 'what stays introspectable only references introspectable types (C05.R3); the validator accepts what the compiler writes (C06.R7)', floor=2)
    val = py.func('introspectablepass', 'IntrospectablePass.validate')
    walks = [P.src(c.args[0]) for c in P.calls_in(val) if P.src(c.func) == 'self._namespace.walk' and c.args]
    n_prop = walks.count('self._introspectable_callable_analysis')
    r6.check(n_prop >= 2, 'callable introspectability propagated twice', 'giscanner/introspectablepass.py', val.lineno,
             'validate() runs _introspectable_callable_analysis %d time(s): a method visited before the callback type it uses stays introspectable while the callback '
             'becomes introspectable="0", and g-ir-compiler fails with "type reference not found"' % n_prop, detail=n_prop)
    gt = ctx.c.tu('girepository/gitypelib.c')
    vi = gt.func('validate_interface_blob')
    r6.check('entry->blob_type!=BLOB_TYPE_INTERFACE&&entry->blob_type!=BLOB_TYPE_OBJECT' in ns(gt.text_of(vi)), 'validator accepts class prerequisites', 'girepository/gitypelib.c', gt.line(vi),
             'validate_interface_blob rejects an interface whose prerequisite is a class: the compiler builds the typelib and then aborts in its own validation')
    from . import c05
    c05.type_verdict_rule(ctx, r6)
    # the type-blob sharing key of the compiler distinguishes every stored array flag
    type_key_rule(ctx, r6)


def type_key_rule(ctx, rule):
    """serialize_type() (girnode.c) builds the key under which identical type blobs are shared: for C arrays every flag stored in the
    ArrayTypeBlob (zero_terminated, has_length, has_size) must change the key whatever the other flags are (length and fixed size are
    alternatives of one union member and are not combined)"""
    from .. import cgsa, gsa
    GN = 'girepository/girnode.c'
    S = cgsa.summarise(ctx, GN, 'serialize_type')
    FLAGS = ['node->zero_terminated', 'node->has_length', 'node->has_size']
    ats = S.atoms()
    if not all(f in ats for f in FLAGS):
        raise AnalysisError('serialize_type: array flags %s not all consulted (atoms %s)' % (FLAGS, [a for a in ats if a.startswith('node->')]))
    base = {}
    for a in ats:
        m_ = re.match(r'^node->tag == (GI_TYPE_TAG_\w+)$', a)
        if m_:
            base[a] = m_.group(1) == 'GI_TYPE_TAG_ARRAY'
        elif re.match(r'^node->tag < GI_TYPE_TAG_ARRAY$', a):
            base[a] = False
        elif re.match(r'^node->array_type == (GI_ARRAY_TYPE_\w+)$', a):
            base[a] = a.endswith('GI_ARRAY_TYPE_C')
    emits = [e for e in gsa.find(S, 'call', r'^g_string_append') if e.fn == 'serialize_type']

    def key(val):
        v = dict(base)
        v.update(val)
        return frozenset((e.line, e.value) for e in emits if gsa.can_hold(e.cond, v))
    import itertools
    for f in FLAGS:
        others = [x for x in FLAGS if x != f]
        for combo in itertools.product((False, True), repeat=2):
            val = dict(zip(others, combo))
            full_t, full_f = dict(val), dict(val)
            full_t[f], full_f[f] = True, False
            if any(v_.get('node->has_length') and v_.get('node->has_size') for v_ in (full_t, full_f)):
                continue
            rule.check(key(full_t) != key(full_f), 'type key depends on %s when %s' % (f[6:], ', '.join('%s=%d' % (k[6:], v) for k, v in sorted(val.items()))), GN, S.func_line if hasattr(S, 'func_line') else 1,
                       'serialize_type() gives C arrays that differ only in %s (with %s) the same key: the compiler shares one ArrayTypeBlob between them and the typelib states the '
                       'wrong %s for one of the two' % (f[6:], ', '.join('%s=%d' % (k[6:], v) for k, v in sorted(val.items())), f[6:]), detail=sorted(x[1] for x in key(full_t) ^ key(full_f)))
