"""C16 — scanner output is deterministic and independent of irrelevant order."""
import ast
import re

from ..core import AnalysisError
from .. import pyfront as P
from .. import gsa
from .. import wattr

EXPLANATION = ('Set-typed attributes and locals are inferred over all of giscanner (assignments of set()/set literals/comprehensions and '
               'attribute-to-attribute aliasing); every order-sensitive use of one (for, comprehension, list(), join, next(iter())) in the '
               'modules that feed the writer must be wrapped in sorted/min/max or have a body whose only effects are set updates and '
               'diagnostics.  Every loop of GIRWriter that emits elements iterates sorted(...) or one of the reviewed order-carrying lists; '
               'list-valued attributes are joined in stored order only if they are lists; no hash()/id()/random/time/listdir reaches the '
               'writer; cache hit/miss controls only parse+store; the C tag namespace is filled first-come (never overwritten).')

FEEDS_WRITER = ('ast', 'transformer', 'maintransformer', 'girwriter', 'girparser', 'gdumpparser', 'introspectablepass', 'shlibs', 'scannermain', 'utils', 'cachestore')
ORDERED = {'.members': 'declaration order of enum members is API', '.fields': 'field order is the C layout', '.parameters': 'parameter order is the C signature',
           '.attributes.items()': 'insertion-ordered mapping of one node (dict)'}
# set iterations whose order provably cannot reach the output
REVIEWED = {
    ('giscanner/ast.py', 'get_main_position', 'self.file_positions'):
        'returns the unique non-typedef position: a node has at most one (a second definition is a fatal namespace conflict), so the walk order cannot matter',
}


def set_attrs(py):
    attrs, locals_ = {}, {}
    for mod in py.all_modules():
        for n in ast.walk(mod.tree):
            if isinstance(n, ast.Assign):
                v = n.value
                is_set = isinstance(v, (ast.Set, ast.SetComp)) or (isinstance(v, ast.Call) and P.call_name(v) in ('set', 'frozenset'))
                for t in n.targets:
                    if is_set and isinstance(t, ast.Attribute):
                        attrs.setdefault(t.attr, []).append('%s:%d' % (mod.rel, n.lineno))
                    elif is_set and isinstance(t, ast.Name):
                        fn = P.enclosing_function(n)
                        locals_.setdefault((mod.rel, fn.name if fn else '<module>', t.id), n.lineno)
    # aliasing: x.a = y.b where b is set-typed
    changed = True
    while changed:
        changed = False
        for mod in py.all_modules():
            for n in ast.walk(mod.tree):
                if isinstance(n, ast.Assign) and isinstance(n.value, ast.Attribute) and n.value.attr in attrs:
                    for t in n.targets:
                        if isinstance(t, ast.Attribute) and t.attr not in attrs:
                            attrs[t.attr] = ['alias of .%s at %s:%d' % (n.value.attr, mod.rel, n.lineno)]
                            changed = True
    return attrs, locals_


def is_set_expr(e, attrs, locals_, mod, fn):
    if isinstance(e, ast.Attribute) and e.attr in attrs:
        if isinstance(e.value, ast.Name) and e.value.id in ('options', 'opts'):
            return None       # optparse values: lists built with action="append", not the model attribute of the same name
        return '.%s' % e.attr
    if isinstance(e, ast.Name) and (mod.rel, fn.name if fn else '<module>', e.id) in locals_:
        return e.id
    if isinstance(e, ast.Call) and P.call_name(e) in ('set', 'frozenset'):
        return 'set(...)'
    if isinstance(e, ast.Call) and isinstance(e.func, ast.Attribute) and e.func.attr in ('union', 'intersection', 'difference') and is_set_expr(e.func.value, attrs, locals_, mod, fn):
        return 'set-op'
    if isinstance(e, ast.BinOp) and isinstance(e.op, (ast.BitOr, ast.BitAnd, ast.Sub)) and (is_set_expr(e.left, attrs, locals_, mod, fn) or is_set_expr(e.right, attrs, locals_, mod, fn)):
        return 'set-op'
    return None


def body_is_order_insensitive(body):
    """only set updates, diagnostics, membership-guarded set updates"""
    for st in body:
        for n in ast.walk(st):
            if isinstance(n, ast.Call):
                nm = P.call_name(n) or ''
                if isinstance(n.func, ast.Attribute) and n.func.attr in ('add', 'update', 'discard'):
                    continue
                if nm.startswith('message.') or nm in ('warn', 'error', 'len', 'isinstance', 'str', 'repr'):
                    continue
                return False
            if isinstance(n, (ast.Assign, ast.AugAssign, ast.Return, ast.Yield, ast.Break)):
                return False
    return True


def check(ctx):
    py = ctx.py
    attrs, locals_ = set_attrs(py)
    if 'includes' not in attrs or 'file_positions' not in attrs:
        raise AnalysisError('set-typed attribute inference lost its known instances: %s' % sorted(attrs))
    ctx.extra['set_typed_attributes'] = {k: v[:2] for k, v in attrs.items()}

    # ------------------------------------------------------------------ R1 order-sensitive walks over sets
    r1 = ctx.rule('R1', 'no order-sensitive walk over a set in the modules that feed the writer', floor=4)
    WRAP = ('sorted', 'min', 'max', 'len', 'set', 'frozenset', 'any', 'all', 'sum')
    for name in FEEDS_WRITER:
        mod = py.mod(name)
        for n in ast.walk(mod.tree):
            sites = []
            if isinstance(n, (ast.For, ast.comprehension)):
                sites.append((n.iter, n))
            elif isinstance(n, ast.Call) and P.call_name(n) in ('list', 'tuple', 'iter', 'enumerate', 'next') and n.args:
                sites.append((n.args[0], n))
            elif isinstance(n, ast.Call) and isinstance(n.func, ast.Attribute) and n.func.attr == 'join' and n.args:
                sites.append((n.args[0], n))
            elif isinstance(n, ast.Call) and P.call_name(n) in WRAP and n.args:
                fn0 = P.enclosing_function(n)
                if is_set_expr(n.args[0], attrs, locals_, mod, fn0):
                    r1.ok('%s: %s(%s)' % (fn0.name if fn0 else '?', P.call_name(n), P.src(n.args[0])), mod.rel, n.lineno)
            for it, node in sites:
                fn = P.enclosing_function(node if not isinstance(node, ast.comprehension) else P.parent(node))
                what = is_set_expr(it, attrs, locals_, mod, fn)
                if not what:
                    continue
                par = P.parent(node)
                if isinstance(node, ast.Call) and isinstance(par, ast.Call) and P.call_name(par) in WRAP:
                    r1.ok('%s: %s(%s)' % (fn.name if fn else '?', P.call_name(par), P.src(it)), mod.rel, node.lineno)
                    continue
                if isinstance(node, ast.comprehension):
                    comp = P.parent(node)
                    cp = P.parent(comp)
                    if isinstance(comp, (ast.SetComp, ast.GeneratorExp)) and isinstance(cp, ast.Call) and P.call_name(cp) in WRAP:
                        r1.ok('%s: %s over %s' % (fn.name if fn else '?', P.call_name(cp), P.src(it)), mod.rel, it.lineno)
                        continue
                    if isinstance(comp, ast.SetComp):
                        r1.ok('%s: set comprehension over %s' % (fn.name if fn else '?', P.src(it)), mod.rel, it.lineno)
                        continue
                key = (mod.rel, fn.name if fn else '<module>', P.src(it))
                if key in REVIEWED:
                    r1.ok('%s: %s (reviewed)' % (key[1], key[2]), mod.rel, it.lineno, detail=REVIEWED[key])
                    continue
                if isinstance(node, ast.For) and body_is_order_insensitive(node.body):
                    r1.ok('%s: for over %s with order-insensitive body' % (fn.name if fn else '?', P.src(it)), mod.rel, node.lineno)
                    continue
                r1.fail('%s: walk over %s' % (fn.name if fn else '?', P.src(it)), mod.rel, it.lineno,
                        '`%s` is a set (%s): iterating it without sorted() makes the result depend on the interpreter\'s hash seed (str hashes are randomised per '
                        'process); the loop body has effects other than set updates and diagnostics' % (P.src(it), attrs.get(what.lstrip('.'), what)))

    # the reviewed exception above rests on typedef references being flagged: Position(is_typedef=...) must hold for typedef symbols
    am_ = py.mod('ast')
    AS = gsa.summarise(ctx, 'ast', 'Node.add_symbol_reference', inline_only=())
    pos = [e for e in gsa.find(AS, 'call', r'^Position$')]
    if not pos:
        raise AnalysisError('Node.add_symbol_reference: Position(...) construction not found')
    symp = AS.P(1)
    for e in pos:
        tdef = (getattr(e, 'kwargs', None) or {}).get('is_typedef') or (e.args[2] if len(e.args) > 2 else None)
        names = set()
        if tdef is not None:
            try:
                tn = ast.parse(tdef, mode='eval').body
                if any(isinstance(x, ast.Attribute) and x.attr == 'type' and gsa._unparse(x.value) == symp for x in ast.walk(tn)):
                    names = set(x.id for x in ast.walk(tn) if isinstance(x, ast.Name))
            except SyntaxError:
                pass
        kinds = set(am_.imports.get(nm_, (None, None)) for nm_ in names)
        r1.check(('sourcescanner', 'CSYMBOL_TYPE_TYPEDEF') in kinds, 'typedef symbol references are flagged is_typedef', am_.rel, e.line,
                 'Position(is_typedef=%s): %s.type is a CSYMBOL_TYPE_* value and is not compared with CSYMBOL_TYPE_TYPEDEF, so typedef references count as definitions; '
                 'get_main_position() then returns whichever of several positions the set yields first and the output depends on the hash seed' % (tdef, symp), detail=tdef)

    # ------------------------------------------------------------------ R2 sorted emission
    r2 = ctx.rule('R2', 'every emitting loop of GIRWriter iterates sorted(...) or a reviewed order-carrying list; namespace order is (alias first, node)', floor=25)
    w = wattr.WriterModel(py)
    seen = set()
    for s in w.list_sites:
        key = (s['method'], s['raw_iter'])
        if key in seen:
            continue
        seen.add(key)
        from . import c07
        it = c07.norm_iter(s['raw_iter'])
        if it.startswith('sorted('):
            r2.ok('%s: %s' % key, w.mod.rel, s['line'], detail='sorted')
            continue
        why = [v for k_, v in ORDERED.items() if it.endswith(k_)]
        r2.check(bool(why), '%s: %s' % key, w.mod.rel, s['line'],
                 'GIRWriter.%s writes children in the stored order of `%s`: the order of sibling elements is then whatever order the model was built in '
                 '(declaration/comment/source-file order), not a fixed function of their names' % (s['method'], it), detail=why[0] if why else None)
    wn = py.func('girwriter', 'GIRWriter._write_namespace')
    srt = [c for c in P.calls_in(wn) if P.call_name(c) == 'sorted' and c.args and re.match(r'^\w+\.values\(\)$', P.src(c.args[0]))]
    keyf = None
    if len(srt) == 1:
        kw = [k.value for k in srt[0].keywords if k.arg == 'key']
        if kw:
            kt = P.src(kw[0])
            nested = dict((n.name, n) for n in ast.walk(wn) if isinstance(n, ast.FunctionDef) and n is not wn)
            meths = py.methods('girwriter', 'GIRWriter')
            if kt in nested:
                keyf = nested[kt]
            elif kt.split('.')[-1] in meths and kt.split('.')[0] in ('self', 'GIRWriter'):
                keyf = meths[kt.split('.')[-1]]
    okkey = False
    detail = None
    if keyf is not None:
        KS = gsa.Summary(py, 'girwriter', 'GIRWriter._write_namespace', func=keyf, inline_only=())
        vp = [a_.arg for a_ in keyf.args.args if a_.arg not in ('self', 'cls')][0]
        AL = r'^isinstance\(%s, ast\.Alias\)$' % re.escape(vp)
        al = gsa.returns_under(KS, gsa.decide_by([(AL, True)]))
        ot = gsa.returns_under(KS, gsa.decide_by([(AL, False)]))
        detail = [[x[0] for x in al], [x[0] for x in ot]]

        def keyt(got):
            if len(got) == 1 and got[0][2] and isinstance(got[0][1], ast.Tuple) and len(got[0][1].elts) == 2:
                return py.try_fold(got[0][1].elts[0], py.mod('girwriter')), gsa._unparse(got[0][1].elts[1])
            return None
        ka, ko = keyt(al), keyt(ot)
        okkey = ka is not None and ko is not None and isinstance(ka[0], int) and isinstance(ko[0], int) and ka[0] < ko[0] and ka[1] == ko[1] == vp
    r2.check(okkey, 'namespace members sorted, aliases first', w.mod.rel, wn.lineno,
             'top-level elements are not written in sorted order with aliases first (sort key returns %s)' % detail, detail=detail)
    # comma-joined attributes come from lists (ordered) or are sorted
    for e in w.by_tag().get('namespace', [])[:1]:
        for row in e.rows:
            if '.join(' in row.value:
                attr = row.value.split('.join(')[1].rstrip(')').split('.')[-1]
                r2.check(attr not in attrs, 'namespace/@%s joined from an ordered list' % row.key, w.mod.rel, row.line,
                         '%s is joined from `%s`, which is a set somewhere in giscanner: the attribute text depends on the hash seed' % (row.key, attr), detail=attr)
    # shared-library list: resolve_shlibs returns lists built by append / map in listed order
    sh = py.mod('shlibs')
    nl = py.func('shlibs', '_resolve_non_libtool')
    rets = [P.src(n.value) for n in P.walk_no_nested(nl) if isinstance(n, ast.Return) and n.value is not None]
    r2.check(not any('set(' in r_ for r_ in rets), 'shared libraries keep the order of the loader listing', sh.rel, nl.lineno,
             '_resolve_non_libtool returns %s: de-duplicating through a set makes shared-library="a,b" depend on the hash seed' % rets, detail=rets)

    # ------------------------------------------------------------------ R3 ambient nondeterminism
    r3 = ctx.rule('R3', 'no hash()/id()/random/time/unsorted directory listings in the modules that build or write the model', floor=1)
    bad = []
    for name in ('ast', 'transformer', 'maintransformer', 'girwriter', 'girparser', 'gdumpparser', 'introspectablepass', 'xmlwriter'):
        mod = py.mod(name)
        for n in ast.walk(mod.tree):
            if isinstance(n, ast.Call):
                nm = P.call_name(n) or ''
                if nm in ('id', 'random.random', 'random.choice', 'random.shuffle', 'time.time', 'os.listdir', 'glob.glob', 'os.getpid', 'uuid.uuid4') or nm.startswith('random.'):
                    par = P.parent(n)
                    if nm in ('os.listdir', 'glob.glob') and isinstance(par, ast.Call) and P.call_name(par) == 'sorted':
                        continue
                    bad.append('%s:%d %s' % (mod.rel, n.lineno, nm))
                if nm == 'hash':
                    fn = P.enclosing_function(n)
                    if not (fn and fn.name == '__hash__'):
                        bad.append('%s:%d hash()' % (mod.rel, n.lineno))
    r3.check(not bad, 'ambient nondeterminism', 'giscanner', 1, 'nondeterministic sources reach the model/writer: %s' % bad, detail='none found')

    # ------------------------------------------------------------------ R4 cache transparency, tag namespace
    r4 = ctx.rule('R4', 'cache hit/miss controls only parse+store; the tag namespace keeps the first definition', floor=3)
    tm = py.mod('transformer')
    pi = py.func('transformer', 'Transformer._parse_include')
    groups, PI = parse_include_groups(ctx)
    dep = sorted(k for k, c in groups.items() if depends_on(c, r'_cachestore'))
    okd = bool(dep) and all(k[1] in ('GIRParser', 'PARSER.parse', 'self._cachestore.store', 'self._cachestore.load') for k in dep) and \
        {'GIRParser', 'PARSER.parse', 'self._cachestore.store'} <= set(k[1] for k in dep)
    r4.check(okd, 'statements depending on cache hit/miss', tm.rel, pi.lineno, 'effects of _parse_include that depend on the cache: %s' % [k[1] + ('=' + k[2][:30] if k[0] == 'store' else '') for k in dep], detail=[k[1] for k in dep])
    loops = [n for n in P.walk_no_nested(pi) if isinstance(n, ast.For)]
    r4.check(all(not is_set_expr(l.iter, attrs, locals_, tm, pi) or body_is_order_insensitive(l.body) for l in loops), 'included namespaces registered in sorted order', tm.rel, pi.lineno,
             'loop iterables in _parse_include: %s' % [P.src(l.iter) for l in loops], detail=[P.src(l.iter) for l in loops])
    # the tag-namespace store may sit in a private helper of parse(): inline exactly the helpers that touch self._tag_ns
    tag_helpers = [mn for mn, mf in py.methods('transformer', 'Transformer').items() if mn != 'parse' and mn.startswith('_') and
                   any(isinstance(x, ast.Attribute) and x.attr == '_tag_ns' for x in ast.walk(mf)) and
                   any(P.call_name(c) == 'self.' + mn for c in P.calls_in(py.func('transformer', 'Transformer.parse')))]
    PF = gsa.summarise(ctx, 'transformer', 'Transformer.parse', inline_only=tag_helpers)
    pf = PF.func
    wr = [e for e in PF.effects if (e.kind == 'store' and re.match(r'^self\._tag_ns\[', e.target) and e.target.endswith(']')) or (e.kind == 'call' and re.match(r'^self\._tag_ns\.(setdefault|update|__setitem__)$', e.target))]
    bad = [e for e in wr if not (e.target.endswith('.setdefault') or (e.kind == 'store' and gsa.impossible(PF, e, [(r' in self\._tag_ns$', True)])))]
    r4.check(bool(wr) and not bad, 'first struct/union seen for a tag stays in the tag namespace', tm.rel, pf.lineno,
             '_tag_ns[...] can be overwritten (%s): a later typedef of the same tag replaces the primary compound, so the result depends on whether the typedefs or the struct body come first'
             % [(e.target, e.when()[:120]) for e in bad], detail=[(e.target, e.when()[:120]) for e in wr])
    # a cached parse is used only while it is at least as new as its source, compared at full resolution (shared with C18.R2)
    cv = py.func('cachestore', 'CacheStore._cache_is_valid')
    rounding = [P.src(c) for c in ast.walk(cv) if isinstance(c, ast.Call) and P.call_name(c) in ('int', 'round', 'math.floor', 'math.trunc')]
    subs = [P.src(n) for n in ast.walk(cv) if isinstance(n, ast.Subscript) and 'stat' in P.src(n)]
    mt_attrs = [n.attr for n in ast.walk(cv) if isinstance(n, ast.Attribute) and n.attr.startswith('st_mtime')]
    r4.check(not rounding and not subs and len(mt_attrs) == 2 and len(set(mt_attrs)) == 1, 'cache freshness compared at full mtime resolution', 'giscanner/cachestore.py', cv.lineno,
             'cache freshness is decided on rounded modification times (%s): a dependency GIR rewritten within the same second as its cache entry keeps being served from '
             'the cache, so the output depends on whether the cache was warm' % (rounding + subs), detail=mt_attrs)
    # a second typedef of an already promoted struct tag shares the primary record's field list (the same list object): the struct body may
    # be parsed after both typedefs, and its fields are appended to the primary's list
    TC = gsa.summarise(ctx, 'transformer', 'Transformer._create_typedef_compound', inline_only=())
    fs = [e for e in gsa.find(TC, 'store', r'\.fields$')]
    r4.check(bool(fs) and all(re.match(r'^self\._tag_ns(\[.*\]|\.get\(.*\))\.fields$', e.value) for e in fs), 'secondary typedef records alias the primary field list', tm.rel, fs[0].line if fs else TC.func.lineno,
             'a second typedef of a struct tag gets %s as its fields: a copy taken before the struct body is seen stays empty, so `typedef struct _A A; typedef struct _A B; struct _A {...}` '
             'and the same declarations with the body first give different GIR' % [e.value[:60] for e in fs], detail=[e.value[:80] for e in fs])
    PFD = gsa.summarise(ctx, 'transformer', 'Transformer._parse_fields', inline_only=())
    rebinding = [e for e in gsa.find(PFD, 'store', r'^%s\.fields$' % re.escape(PFD.P(2)))]
    r4.check(not rebinding, 'parsed fields are added to the existing list in place', tm.rel, rebinding[0].line if rebinding else PFD.func.lineno,
             '_parse_fields rebinds %s.fields: records that share the list with an earlier typedef no longer see the fields' % PFD.P(2))

    from . import c18
    c18.cache_key_rule(ctx, r4)


def depends_on(cond, pattern):
    """does the truth of the condition change with the atoms matching `pattern`?"""
    names = [a_ for a_ in gsa.atoms(cond) if re.search(pattern, a_) and not a_.startswith('@')]
    if not names:
        return False
    import itertools
    base = None
    for bits in itertools.product((False, True), repeat=min(len(names), 6)):
        f = gsa.assign(cond, dict(zip(names, bits)))
        if base is None:
            base = f
        elif not gsa.equiv(base, f):
            return True
    return False


def parse_include_groups(ctx):
    """effects of Transformer._parse_include (helpers inlined), grouped modulo which parser object (cached or fresh) they act on"""
    cache = ctx.__dict__.setdefault('_pi_groups', None)
    if cache is not None:
        return cache
    PI = gsa.summarise(ctx, 'transformer', 'Transformer._parse_include', opaque=('_find_include',))
    alts = set()
    for e in PI.effects:
        for m_ in re.finditer(r'self\._cachestore\.load\([^()]*\)|GIRParser\((?:[^()]|\([^()]*\))*\)', e.target + ' ' + e.value):
            alts.add(m_.group(0))

    def norm(t):
        for a_ in sorted(alts, key=len, reverse=True):
            if t == a_:
                continue
            t = t.replace(a_, 'PARSER')
        return t
    groups = {}
    for e in PI.effects:
        if e.kind not in ('call', 'store'):
            continue
        k = (e.kind, norm(e.target), norm(e.value) if e.kind == 'store' else '')
        groups[k] = gsa.disj(groups.get(k, False), e.cond)
    ctx.__dict__['_pi_groups'] = (groups, PI)
    return groups, PI
