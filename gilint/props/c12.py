"""C12 — runtime GObject type data is merged faithfully into the GIR."""
import ast
import re

from ..core import AnalysisError
from .. import pyfront as P
from .. import cfront as C
from .. import rattr, gsa

EXPLANATION = ('Producer/consumer agreement between girepository/gdump.c (clang AST: every XML fragment it prints, with the guard of '
               'each attribute and the C type of each printf argument) and giscanner/gdumpparser.py (tag-flow model of every attribute '
               'read): mandatory reads are written unconditionally, everything written is read or reviewed, flag words are decoded bit '
               'by bit with GLib\'s ABI values and each bit reaches the like-named model argument, signedness of printed values, '
               'pairing rules (boxed<->record/union, class struct both directions, get-type removal), unfiltered parent chain walked '
               'to the first resolvable parent, virtual methods only where the first parameter is the instance.')

GD = 'girepository/gdump.c'
IGNORED = {('fundamental', 'instantiatable'): 'informational only; Class has no such flag',
           ('signal', 'when'): 'value "must-collect" has no GIR counterpart and is passed through'}


def dump_vocabulary(tu):
    """{element: {attr: {'cond': bool, 'fmt': conversion or None, 'argtype': qualType, 'line': n}}} from escaped_printf/goutput_write calls"""
    out = {}
    for fname, f in sorted(tu.functions.items()):
        if not tu.in_main_file(f):
            continue
        calls = [c for c in C.calls(tu.body(f), ('escaped_printf', 'goutput_write'))]
        calls.sort(key=lambda c: (tu.line(c), c.get('range', {}).get('begin', {}).get('col', 0)))
        cur = None
        cur_open = None
        for c in calls:
            a = C.call_args(c)
            s = C.string_value(a[1]) if len(a) > 1 else None
            if s is None:
                continue
            vals = a[2:]
            vi = 0
            my_ifs = set(id(a) for a in tu.ancestors(c) if a.get('kind') in ('IfStmt', 'ConditionalOperator'))
            for m in re.finditer(r'<(/?)([A-Za-z][\w-]*)|([A-Za-z][\w-]*)=\\?"([^"]*)"|%[-+0 #]*\d*(?:\.\d+)?(?:hh|h|ll|l|z)?([diuxscf%])', s):
                if m.group(2):
                    if not m.group(1):
                        cur = m.group(2)
                        cur_open = c
                        out.setdefault(cur, {'__line__': tu.line(c), '__opens__': []})
                        out[cur]['__opens__'].append(set())
                elif m.group(3):
                    attr, val = m.group(3), m.group(4)
                    conv = re.search(r'%[-+0 #]*\d*(?:hh|h|ll|l|z)?([diuxs])', val)
                    argtype = None
                    if conv:
                        if vi < len(vals):
                            argtype = C.kids(vals[vi])[0].get('type', {}).get('qualType') if vals[vi].get('kind') == 'ImplicitCastExpr' and C.kids(vals[vi]) else vals[vi].get('type', {}).get('qualType')
                            under = C.strip(vals[vi])
                            argtype = under.get('type', {}).get('qualType', argtype)
                        vi += 1
                    if cur is not None:
                        if c is cur_open:
                            out[cur]['__opens__'][-1].add(attr)
                            conditional = False
                        else:
                            open_ifs = set(id(a) for a in tu.ancestors(cur_open) if a.get('kind') in ('IfStmt', 'ConditionalOperator'))
                            conditional = bool(my_ifs - open_ifs)
                        e = out[cur].setdefault(attr, {'cond': conditional, 'conv': conv.group(1) if conv else None, 'argtype': argtype, 'line': tu.line(c),
                                                       'literal': None if conv else val, 'values': set(), 'separate': c is not cur_open})
                        if c is not cur_open:
                            e['cond'] = e['cond'] or conditional
                        if not conv:
                            e['values'].add(val)
                elif m.group(5) and m.group(5) != '%':
                    vi += 1
    for tag, d in out.items():
        opens = d.get('__opens__', [])
        for attr, e in d.items():
            if attr.startswith('__'):
                continue
            if not e.get('separate') and opens and not all(attr in o for o in opens):
                e['cond'] = True      # some way of opening the element omits it
    return out


def check(ctx):
    py = ctx.py
    tu = ctx.c.tu(GD)
    m = py.mod('gdumpparser')
    rel = m.rel
    voc = dump_vocabulary(tu)
    tags = {'enum', 'flags', 'class', 'interface', 'boxed', 'pointer', 'fundamental'}
    rd = rattr.ReaderModel(py, 'gdumpparser', 'GDumpParser', {'_introspect_type': {'xmlnode': set(tags)}, '_introspect_error_quark': {'xmlnode': {'error-quark'}}})
    kb = rd.keys_by_tag()
    ch = rd.children_by_tag()

    # ------------------------------------------------------------------ R1 vocabulary
    r1 = ctx.rule('R1', 'dump vocabulary: mandatory reads are written unconditionally; everything written is read (or reviewed)', floor=40)
    for tag in sorted(kb):
        for key, reads in sorted(kb[tag].items()):
            if tag not in voc:
                r1.fail('<%s> written by gdump.c' % tag, GD, 1, 'gdumpparser reads <%s> but gdump.c never writes it' % tag)
                continue
            w = voc[tag].get(key)
            mandatory = any(r.kind == 'index' for r in reads)
            if mandatory:
                r1.check(w is not None and not w['cond'], '%s/@%s mandatory' % (tag, key), rel, reads[0].line,
                         'gdumpparser reads %s/@%s with [] (KeyError when absent) but gdump.c %s' % (tag, key, 'writes it only conditionally' if w else 'never writes it'))
            else:
                r1.check(w is not None, '%s/@%s optional' % (tag, key), rel, reads[0].line, 'gdumpparser looks for %s/@%s which gdump.c never writes' % (tag, key))
    for tag in sorted(voc):
        for key, w in sorted(voc[tag].items()):
            if key.startswith('__'):
                continue
            if tag in ('dump', '?xml') or key in ('version',):
                continue
            ok = key in kb.get(tag, {}) or (tag, key) in IGNORED
            r1.check(ok, '%s/@%s read' % (tag, key), GD, w['line'], 'gdump.c writes %s/@%s but gdumpparser.py never reads it: the runtime information is dropped' % (tag, key),
                     detail=IGNORED.get((tag, key)))
    # children
    for parent, kids_ in sorted(ch.items()):
        for k in sorted(kids_):
            if k == rattr.ANY:
                continue
            r1.check(k in voc, '<%s> inside <%s> written' % (k, parent), rel, 1, 'gdumpparser looks for <%s> children that gdump.c never writes' % k)
    # dispatch covers every type element gdump can write
    it = py.func('gdumpparser', 'GDumpParser._introspect_type')
    handled = set()
    xp = [a.arg for a in it.args.args][1] if len(it.args.args) > 1 else 'xmlnode'
    for n in P.walk_no_nested(it):
        if isinstance(n, ast.Compare) and P.src(n.left) == '%s.tag' % xp:
            v = py.try_fold(n.comparators[0], m)
            handled |= set([v] if isinstance(v, str) else (v or []))
        elif isinstance(n, ast.Dict) and n.keys and all(k is not None and isinstance(py.try_fold(k, m), str) for k in n.keys) \
                and all(P.src(v).startswith('self.') and P.src(v)[5:] in py.methods('gdumpparser', 'GDumpParser') for v in n.values):
            # tag -> handler table looked up with the element's tag
            tbl = [t.id for t, v, st in P.stores_in(it) if v is n and isinstance(t, ast.Name)]
            if any(isinstance(c, (ast.Call, ast.Subscript)) and '%s.tag' % xp in P.src(c) and any(isinstance(x, ast.Name) and x.id in tbl for x in ast.walk(c)) for c in P.walk_no_nested(it)):
                handled |= set(py.try_fold(k, m) for k in n.keys)
    top = set(t for t in voc if voc[t].get('get-type') is not None)
    r1.check(top <= handled, 'every dumped type element is dispatched', rel, it.lineno, 'gdump.c writes %s but _introspect_type handles %s' % (sorted(top), sorted(handled)),
             detail=sorted(handled))

    # ------------------------------------------------------------------ R2 flag words and values
    r2 = ctx.rule('R2', 'flag bits: ABI values, independent bit tests, each bit reaches the like-named argument; value signedness', floor=14)
    abi = {'G_PARAM_READABLE': 1, 'G_PARAM_WRITABLE': 2, 'G_PARAM_CONSTRUCT': 4, 'G_PARAM_CONSTRUCT_ONLY': 8}
    for k, v in abi.items():
        got = py.try_fold(ast.Name(id=k, ctx=ast.Load()), m)
        r2.check(got == v, '%s == %d' % (k, v), rel, 1, '%s is %r in gdumpparser.py, GLib\'s ABI value is %d' % (k, got, v), detail=got)
    IPS = gsa.summarise(ctx, 'gdumpparser', 'GDumpParser._introspect_properties')
    ip = IPS.func
    want = {'readable': 'G_PARAM_READABLE', 'writable': 'G_PARAM_WRITABLE', 'construct': 'G_PARAM_CONSTRUCT', 'construct_only': 'G_PARAM_CONSTRUCT_ONLY'}
    pcalls = [e for e in IPS.effects if e.kind == 'call' and e.target == 'ast.Property' and e.vnode is not None]
    if len(pcalls) < 1:
        raise AnalysisError('_introspect_properties: ast.Property(...) not found')
    pcall = pcalls[0]
    b = P.bind_call(pcall.vnode, py.func('ast', 'Property.__init__'))
    for other in pcalls[1:]:
        # the same construction reached with different (branch-dependent) argument values: every variant is checked
        bo = P.bind_call(other.vnode, py.func('ast', 'Property.__init__'))
        for name in ('readable', 'writable', 'construct', 'construct_only'):
            if bo.get(name) is not None and gsa._unparse(bo.get(name)) != (gsa._unparse(b.get(name)) if b.get(name) is not None else None):
                b[name] = bo.get(name) if not isinstance(bo.get(name), ast.Compare) else b.get(name)

    def bit_test(n):
        """(flag word text, constant name) when n is `(W & CONST) != 0` or `bool(W & CONST)`"""
        if isinstance(n, ast.Call) and P.call_name(n) == 'bool' and len(n.args) == 1:
            inner = n.args[0]
        elif isinstance(n, ast.Compare) and len(n.ops) == 1 and isinstance(n.ops[0], ast.NotEq) and isinstance(n.comparators[0], ast.Constant) and n.comparators[0].value == 0:
            inner = n.left
        else:
            return None
        if isinstance(inner, ast.BinOp) and isinstance(inner.op, ast.BitAnd) and isinstance(inner.right, ast.Name):
            return gsa._unparse(inner.left), inner.right.id
        return None
    words = set()
    for name, const in sorted(want.items()):
        bt = bit_test(b.get(name)) if b.get(name) is not None else None
        if bt:
            words.add(bt[0])
        r2.check(bt is not None and bt[1] == const, 'property %s = bit %s, tested independently' % (name, const), rel, pcall.line,
                 'ast.Property receives %s for its %s argument, expected an unconditional test of bit %s of the dumped flag word — with several bits set (e.g. CONSTRUCT together '
                 'with CONSTRUCT_ONLY) a flag is lost, or two flags are swapped' % (gsa._unparse(b.get(name)) if b.get(name) is not None else None, name, const),
                 detail=gsa._unparse(b.get(name)) if b.get(name) is not None else None)
    r2.check(len(words) == 1 and re.match(r"^int\(\w+\.attrib\['flags'\]\)$", list(words)[0] if words else ''), 'all four bits tested on the dumped flags attribute', rel, pcall.line,
             'flag words tested: %s' % sorted(words))
    flagdep = [a_ for a_ in gsa.atoms(pcall.cond) if 'G_PARAM_' in a_ or "attrib['flags']" in a_]
    r2.check(not flagdep, 'property creation does not depend on the flag word', rel, pcall.line, 'ast.Property(...) is reached only when %s' % flagdep)
    r2.check(b.get('name') is not None and re.match(r"^\w+\.attrib\['name'\]$", gsa._unparse(b.get('name'))) and b.get('typeobj') is not None and 'create_from_gtype_name(' in gsa._unparse(b.get('typeobj')),
             'property name and type as dumped', rel, pcall.line, 'property name/type arguments changed')
    ISG = gsa.summarise(ctx, 'gdumpparser', 'GDumpParser._introspect_signals')
    isg = ISG.func
    scalls = [e for e in ISG.effects if e.kind == 'call' and e.target == 'ast.Signal' and e.vnode is not None]
    if len(scalls) != 1:
        raise AnalysisError('_introspect_signals: ast.Signal(...) not found')
    sc0 = scalls[0]
    sb = P.bind_call(sc0.vnode, py.func('ast', 'Signal.__init__'))
    for arg, attr in (('no_recurse', 'no-recurse'), ('detailed', 'detailed'), ('action', 'action'), ('no_hooks', 'no-hooks')):
        got = gsa._unparse(sb.get(arg)) if sb.get(arg) is not None else None
        ok = got is not None and re.match(r"^\w+\.attrib\.get\('%s', '0'\) == '1'$" % re.escape(attr), got)
        r2.check(ok, 'signal flag %s <- @%s' % (arg, attr), rel, sc0.line, 'signal %s is decoded as %s' % (arg, got))
        w = voc.get('signal', {}).get(attr)
        r2.check(w is not None and w['values'] == {'1'}, 'gdump.c writes %s="1"' % attr, GD, w['line'] if w else 1, 'gdump.c writes %s=%s' % (attr, w['values'] if w else None))
    gotw = gsa._unparse(sb.get('when')) if sb.get('when') is not None else None
    r2.check(gotw is not None and re.match(r"^\w+\.attrib\.get\('when'\)$", gotw), 'signal run phase passed through', rel, sc0.line, 'when: %s' % gotw)
    am = py.mod('ast')
    phases = set(py.fold_name(am, n) for n in ('SIGNAL_FIRST', 'SIGNAL_LAST', 'SIGNAL_CLEANUP'))
    w = voc.get('signal', {}).get('when', {'values': set()})
    r2.check(phases <= w['values'], 'run phases written by gdump.c = ast.SIGNAL_*', GD, w.get('line', 1), 'gdump.c writes when=%s, the scanner knows %s' % (sorted(w['values']), sorted(phases)),
             detail=sorted(w['values']))
    # gdump.c: each signal/param flag attribute is guarded by the like-named GLib flag
    ds = tu.func('dump_signals')
    for c in C.calls(tu.body(ds), 'escaped_printf'):
        s = C.string_value(C.call_args(c)[1]) or ''
        mm = re.match(r'\s*([\w-]+)=\\?"(\w[\w-]*)\\?"$', s.replace('\\', ''))
        if not mm:
            continue
        attr, val = mm.group(1), mm.group(2)
        g = [re.sub(r'\s+', '', tu.text_of(x)) for x, pol, o in C.guards(tu, c) if pol]
        flag = 'G_SIGNAL_' + (attr if attr != 'when' else ('RUN_' + val if val != 'must-collect' else val)).upper().replace('-', '_')
        r2.check(any(flag in x for x in g), 'gdump.c: %s="%s" under %s' % (attr, val, flag), GD, tu.line(c), '%s="%s" is written under %s' % (attr, val, g), detail=g[-1:] )
    printed_value_signedness(ctx, r2)

    # ------------------------------------------------------------------ R3 pairings
    r3 = ctx.rule('R3', 'pairing rules: boxed/pointer <-> record or union, class struct both ways, get-type removal, full parent chain', floor=9)
    for fn in ('_pair_boxed_type', '_pair_pointer_type'):
        PS = gsa.summarise(ctx, 'gdumpparser', 'GDumpParser.' + fn)
        f = PS.func
        src_ = PS.P(1)
        ag = [e for e in PS.effects if e.kind == 'call' and e.target.endswith('.add_gtype')]
        REC, UNI = r'^isinstance\(.*, ast\.Record\)$', r'^isinstance\(.*, ast\.Union\)$'
        okk = bool(ag) and all(gsa.allowed(PS, e, [(REC, True), (UNI, False)]) and gsa.allowed(PS, e, [(REC, False), (UNI, True)]) and gsa.impossible(PS, e, [(REC, False), (UNI, False)]) for e in ag)
        r3.check(okk, '%s accepts records and unions' % fn, rel, f.lineno,
                 '%s does not pair a registered type with both records and unions (add_gtype reached when %s): a boxed/pointer type whose C declaration is a union (or record) keeps no '
                 'glib:type-name/get-type and its get_type function stays in the function list' % (fn, [e.when()[:160] for e in ag]), detail=[e.when()[:160] for e in ag])
        okp = len(ag) == 1 and ag[0].args == ['%s.gtype_name' % src_, '%s.get_type' % src_]
        recv = ag[0].target[:-len('.add_gtype')] if ag else '?'
        pre = [e for e in PS.effects if e.kind == 'store' and e.target == '%s.c_symbol_prefix' % recv]
        r3.check(okp and len(pre) == 1 and pre[0].value == '%s.c_symbol_prefix' % src_ and gsa.equiv(pre[0].cond, ag[0].cond), '%s transfers gtype name, get-type and symbol prefix' % fn, rel, f.lineno,
                 'add_gtype/c_symbol_prefix changed: %s %s' % ([e.value for e in ag], [(e.target, e.value) for e in pre]))
    FC = gsa.summarise(ctx, 'gdumpparser', 'GDumpParser._find_class_record')
    fc = FC.func
    clsp = FC.P(1)
    l1 = [e for e in FC.effects if e.kind == 'store' and e.target == '%s.glib_type_struct' % clsp and e.value.endswith('.create_type()')]
    l2 = [e for e in FC.effects if e.kind == 'store' and e.target.endswith('.is_gtype_struct_for') and e.value == '%s.create_type()' % clsp]
    r3.check(bool(l1) and bool(l2) and all(a_.value[:-len('.create_type()')] in [b_.target[:-len('.is_gtype_struct_for')] for b_ in l2] for a_ in l1) and
             gsa.equiv(gsa.cond_any(l1), gsa.cond_any(l2)), 'class <-> class struct linked both ways',
             rel, fc.lineno, 'links: %s' % [(e.target, e.value) for e in l1 + l2])
    # the removal happens in parse() or in a helper it calls: summarise the method that holds the remove() call
    gd_methods = py.methods('gdumpparser', 'GDumpParser')
    called = set(P.call_name(c)[5:] for c in P.calls_in(gd_methods['parse']) if (P.call_name(c) or '').startswith('self.'))
    holders = [mn for mn in ['parse'] + sorted(called) if mn in gd_methods and any(P.call_name(c) == 'self._namespace.remove' for c in P.calls_in(gd_methods[mn]))]
    if not holders:
        raise AnalysisError('GDumpParser.parse: removal of get-type functions (self._namespace.remove) not found in parse() or its direct helpers')
    PAR = gsa.summarise(ctx, 'gdumpparser', 'GDumpParser.' + holders[0], inline_only=())
    pa = PAR.func
    rm_ = [e for e in PAR.effects if e.kind == 'call' and e.target == 'self._namespace.remove']
    ap = [e for e in PAR.effects if e.kind == 'call' and re.match(r'^\w+\.append$', e.target) and rm_ and any(l == e.target[:-len('.append')] for r_ in rm_ for l in r_.loops)]
    okr = len(rm_) == 1 and len(ap) == 1 and re.match(r'^self\._namespace\.get\(', ap[0].args[0] if ap[0].args else '')
    if okr:
        e = ap[0]
        okr = gsa.impossible(PAR, e, [(r'^isinstance\(\w+, ast\.Registered\)$', False)]) and gsa.impossible(PAR, e, [(r'\.get_type is None$', True)]) and \
            gsa.impossible(PAR, e, [(r"\.get_type == 'intern'$", True)]) and gsa.allowed(PAR, e, [(r'^isinstance\(\w+, ast\.Registered\)$', True), (r'\.get_type is None$', False), (r"\.get_type == 'intern'$", False)])
    r3.check(okr, 'get-type functions of registered types are removed', rel, pa.lineno, 'get_type removal changed: %s / %s' % ([e.value[:80] for e in ap], [e.value for e in rm_]))
    PP = gsa.summarise(ctx, 'gdumpparser', 'GDumpParser._parse_parents')
    pp = PP.func
    chain = [e for e in PP.effects if e.kind == 'store' and e.target == '%s.parent_chain' % PP.P(2)]

    def whole_list(n):
        """value is built from every element of `<parents string>.split(',')`"""
        if isinstance(n, ast.List) and not n.elts:
            return True
        if isinstance(n, ast.Call) and P.call_name(n) == 'list' and len(n.args) == 1:
            n = n.args[0]
        if isinstance(n, ast.Call) and P.call_name(n) == 'map' and len(n.args) == 2:
            return 'create_from_gtype_name' in gsa._unparse(n.args[0]) and re.search(r"\.split\(','\)$", gsa._unparse(n.args[1])) is not None
        if isinstance(n, (ast.ListComp, ast.GeneratorExp)) and len(n.generators) == 1 and not n.generators[0].ifs:
            it_ = n.generators[0].iter
            if isinstance(it_, ast.List) and not it_.elts:
                return True
            return 'create_from_gtype_name' in gsa._unparse(n.elt) and re.search(r"\.split\(','\)$", gsa._unparse(it_)) is not None
        return False
    okc = bool(chain) and all(e.vnode is not None and whole_list(e.vnode) for e in chain) and any("split(',')" in e.value for e in chain)
    r3.check(okc and not [c for c in P.calls_in(pp) if 'resolve' in (P.call_name(c) or '') or 'lookup' in (P.call_name(c) or '')], 'parent chain kept complete and unresolved', rel,
             pp.lineno, '_parse_parents filters or resolves the parent chain while the dump is still being read (%s): an ancestor from the same namespace that is dumped later '
             'is dropped and the class gets a more distant parent' % [e.value[:100] for e in chain])
    mt = py.mod('maintransformer')
    TR = gsa.summarise(ctx, 'maintransformer', 'MainTransformer._pass_type_resolution', opaque=('_resolve', '_resolve_toplevel', '_resolve_type_from_ctype', '_resolve_type_from_gtype_name'))
    tr = TR.func
    nd_ = TR.P(1)
    sets = [e for e in TR.effects if e.kind == 'store' and e.target == '%s.parent_type' % nd_ and re.match(r'^\w+$', e.value)]
    okl = len(sets) >= 1
    for e in sets:
        # the walk stops right there: a break, or the return of the helper that does the walk, under the same condition
        stops = [x for x in TR.effects if x.kind in ('break', 'return') and any(l == '%s.parent_chain' % nd_ for l in x.loops) and gsa.implies(e.cond, x.cond)
                 and (x.kind == 'break' or x.value == e.value)]
        lookups = [a_ for a_ in gsa.atoms(e.cond) if 'lookup' in a_ or 'resolve' in a_]
        okl = okl and bool(stops) and bool(lookups)
    r3.check(okl, 'nearest resolvable parent wins', mt.rel, tr.lineno, '_pass_type_resolution no longer walks parent_chain in order and stops at the first known parent: %s' % [(e.value, e.when()[:120]) for e in sets])
    eq = py.func('maintransformer', 'MainTransformer._pair_quarks_with_enums')
    eds = [(v, s_) for t, v, s_ in P.stores_in(eq) if isinstance(t, ast.Attribute) and t.attr == 'error_domain']
    oke = len(eds) == 1 and isinstance(eds[0][0], ast.Attribute) and eds[0][0].attr == 'error_domain' and isinstance(eds[0][0].value, ast.Name)
    if oke:
        qv = eds[0][0].value.id
        oke = any(g.text() == 'not (not isinstance(%s, ast.ErrorQuarkFunction))' % qv for g in P.guards(eds[0][1]))
    r3.check(oke, 'error domain taken from the quark function', mt.rel, eq.lineno, 'error domain is not copied from the error-quark function node')

    # ------------------------------------------------------------------ R4 virtuals
    r4 = ctx.rule('R4', 'virtual methods only from class-struct callbacks whose first parameter is the instance', floor=2)
    PV = gsa.summarise(ctx, 'maintransformer', 'MainTransformer._pair_class_virtuals', opaque=('_apply_annotations_callable', '_get_annotation_name'))
    pv = PV.func
    vc = [e for e in PV.effects if e.kind == 'call' and e.target == 'ast.VFunction.from_callback' and e.vnode is not None]
    if len(vc) < 1:
        raise AnalysisError('_pair_class_virtuals: VFunction.from_callback not found')
    nodep = PV.P(1)
    for e in vc:
        cb = e.args[1] if len(e.args) > 1 else '?'
        CBE = re.escape(cb)
        SAME = r'^%s\.parameters\[0\]\.type == %s\.create_type\(\)$|^%s\.create_type\(\) == %s\.parameters\[0\]\.type$' % (CBE, re.escape(nodep), re.escape(nodep), CBE)
        NONEMPTY = r'^%s\.parameters$' % CBE
        ok = gsa.impossible(PV, e, [(SAME, False)]) and gsa.impossible(PV, e, [(NONEMPTY, False)]) and any(re.search(SAME, a_) for a_ in gsa.atoms(e.cond))
        r4.check(ok, 'first parameter must be the instance type', mt.rel, e.line,
                 'VFunction.from_callback(%s) is reached when %s: the callback\'s first parameter type is not required to be the class itself' % (cb, e.when()[-300:]), detail=e.when()[-300:])
    for e in vc:
        cb = e.args[1] if len(e.args) > 1 else '?'
        m_ = re.match(r'^(\w+)\.anonymous_node$', cb) or re.search(r'lookup_typenode\((\w+)\.type\)$', cb)
        r4.check(bool(m_) and e.args[0] == m_.group(1) + '.name', 'virtual method is named after the class-struct member: %s' % e.args[0][:60], mt.rel, e.line,
                 'VFunction.from_callback(%s, %s): the virtual method is not named after the structure member that holds the function pointer (the member of a typed '
                 'field is called differently from its callback type), so vfunc names, invoker pairing and ::vfunc doc blocks no longer match' % (e.args[0][:80], cb[:60]),
                 detail=e.args[:2])
    r4.check(all(any(re.search(r'\.parameters\[0\]\.type == %s\.create_type\(\)$' % re.escape(nodep), a_) for a_ in gsa.atoms(e.cond)) for e in vc), 'compared types are the class and the first parameter', mt.rel,
             pv.lineno, 'conditions: %s' % [e.when()[-200:] for e in vc])

    # ------------------------------------------------------------------ R5 error quark -> enumeration keys
    r5 = ctx.rule('R5', 'name-derived keys under which enumerations/types are looked up by un-prefixed C symbol are computed by an un-prefixed '
                  'underscoring (no substitution anchored at the first character)', floor=2)
    unprefixed_keys_rule(ctx, r5)


def prefix_neutral(ctx, mod, fname):
    """the module function only applies regex substitutions that are not anchored at the start of the string
    (utils.to_underscores splits a leading pair of capitals: 'DBusError' -> 'd_bus_error')"""
    import re._parser as sre
    f = mod.functions.get(fname)
    if f is None:
        return None
    n_sub = 0
    for c in P.calls_in(f):
        if isinstance(c.func, ast.Attribute) and c.func.attr in ('sub', 'subn'):
            pat = None
            tgt = c.func.value
            if isinstance(tgt, ast.Name) and tgt.id in mod.assigns:
                v = mod.assigns[tgt.id][0]
                if isinstance(v, ast.Call) and P.call_name(v) == 're.compile' and v.args:
                    pat = ctx.py.try_fold(v.args[0], mod)
            elif isinstance(tgt, ast.Name) and tgt.id == 're' and c.args:
                pat = ctx.py.try_fold(c.args[0], mod)
            if not isinstance(pat, str):
                return None
            n_sub += 1
            parsed = sre.parse(pat)
            if len(parsed) and parsed[0][0] == sre.AT and parsed[0][1] in (sre.AT_BEGINNING, sre.AT_BEGINNING_STRING):
                return False
    return True if n_sub else None


def unprefixed_keys_rule(ctx, rule):
    py = ctx.py
    mt = py.mod('maintransformer')
    n = 0
    for qual in ('MainTransformer._pair_quarks_with_enums', 'MainTransformer.transform'):
        S = gsa.summarise(ctx, 'maintransformer', qual, opaque=('_pair_function', '_pair_class_virtuals', '_pass_read_annotations', '_pass_read_annotations2', '_pass3',
                                                                   '_resolve', '_pass_type_resolution', '_pair_boxed_type'))
        for e in gsa.find(S, 'store', r'^[\w.]+\[.*\]$'):
            key = e.target[e.target.index('[') + 1:-1]
            try:
                kn = ast.parse(key, mode='eval').body
            except SyntaxError:
                continue
            for c in ast.walk(kn):
                if isinstance(c, ast.Call) and isinstance(c.func, ast.Name) and c.func.id in mt.imports and mt.imports[c.func.id][0] == 'utils':
                    tgt, remote = mt.imports[c.func.id]
                    pn = prefix_neutral(ctx, py.mod(tgt), remote)
                    if pn is None:
                        raise AnalysisError('%s: key function utils.%s could not be analysed' % (qual, remote))
                    n += 1
                    rule.check(pn, '%s: key %s' % (qual.split('.')[-1], key[:80]), mt.rel, e.line,
                               '%s keys the lookup table with %s, and utils.%s treats a leading pair of capitals specially ("DBusError" -> "d_bus_error"): the key '
                               'derived from the C symbol ("dbus_error") never matches and the error domain / method pairing is lost for acronym-style names' %
                               (qual.split('.')[-1], key[:80], remote), detail=key)
    if n < 2:
        raise AnalysisError('name-derived lookup keys of MainTransformer not found (expected in transform and _pair_quarks_with_enums)')


def printed_value_signedness(ctx, r2):
    """printf conversions in gdump.c agree in signedness with the C type of the value they print (shared with C13)"""
    tu = ctx.c.tu(GD)
    # signedness of printed integers
    for tag, key, want_conv in (('flags/member', 'value', 'u'), ('enum/member', 'value', 'd'), ('property', 'flags', 'd')):
        fn = {'flags/member': 'dump_flags_type', 'enum/member': 'dump_enum_type', 'property': 'dump_properties'}[tag]
        f = tu.func(fn)
        for c in C.calls(tu.body(f), 'escaped_printf'):
            a = C.call_args(c)
            s = C.string_value(a[1]) or ''
            convs = re.findall(r'%[-+0 #]*\d*(?:hh|h|ll|l|z)?([diuxs])', s)
            attrs = re.findall(r'([\w-]+)=\\?"%', s)
            for i, (at, cv) in enumerate(zip(attrs, convs)):
                if at != key:
                    continue
                under = C.strip(a[2 + i], casts=True)
                qt = (under.get('type', {}).get('qualType') or '')
                unsigned = qt.startswith('guint') or qt.startswith('unsigned') or qt in ('gsize', 'gulong')
                if qt in ('GParamFlags',):
                    unsigned = False
                r2.check((cv == 'u') == unsigned, '%s: %s printed with %%%s for a %s' % (fn, at, cv, qt), GD, tu.line(c),
                         '%s prints %s, a `%s`, with %%%s: a value with bit 31 set (e.g. a flags member 1<<31) is written with the wrong sign and the GIR '
                         'value differs from the registered one' % (fn, at, qt, cv), detail={'type': qt, 'conversion': cv})



def contains(stmts, node):
    return any(x is node for s in stmts for x in ast.walk(s))
