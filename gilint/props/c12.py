"""C12 — runtime GObject type data is merged faithfully into the GIR."""
import ast
import re

from ..core import AnalysisError
from .. import pyfront as P
from .. import cfront as C
from .. import rattr

EXPLANATION = ('Producer/consumer agreement between girepository/gdump.c (clang AST: every XML fragment it prints, with the guard of '
               'each attribute and the C type of each printf argument) and giscanner/gdumpparser.py (tag-flow model of every attribute '
               'read): mandatory reads are written unconditionally, everything written is read or reviewed, flag words are decoded bit '
               'by bit with GLib\'s ABI values and each bit reaches the like-named model argument, signedness of printed values, '
               'pairing rules (boxed<->record/union, class struct both directions, get-type removal), unfiltered parent chain walked '
               'to the first resolvable parent, virtual methods only where the first parameter is the instance.')

GD = 'girepository/gdump.c'
IGNORED = {('fundamental', 'instantiatable'): 'informational only; Class has no such flag',
           ('signal', 'when'): 'value "must-collect" has no GIR counterpart and is passed through'}


def dump_vocabulary(tu):
    """{element: {attr: {'cond': bool, 'fmt': conversion or None, 'argtype': qualType, 'line': n}}} from escaped_printf/goutput_write calls"""
    out = {}
    for fname, f in sorted(tu.functions.items()):
        if not tu.in_main_file(f):
            continue
        calls = [c for c in C.calls(tu.body(f), ('escaped_printf', 'goutput_write'))]
        calls.sort(key=lambda c: (tu.line(c), c.get('range', {}).get('begin', {}).get('col', 0)))
        cur = None
        cur_open = None
        for c in calls:
            a = C.call_args(c)
            s = C.string_value(a[1]) if len(a) > 1 else None
            if s is None:
                continue
            vals = a[2:]
            vi = 0
            my_ifs = set(id(a) for a in tu.ancestors(c) if a.get('kind') in ('IfStmt', 'ConditionalOperator'))
            for m in re.finditer(r'<(/?)([A-Za-z][\w-]*)|([A-Za-z][\w-]*)=\\?"([^"]*)"|%[-+0 #]*\d*(?:\.\d+)?(?:hh|h|ll|l|z)?([diuxscf%])', s):
                if m.group(2):
                    if not m.group(1):
                        cur = m.group(2)
                        cur_open = c
                        out.setdefault(cur, {'__line__': tu.line(c), '__opens__': []})
                        out[cur]['__opens__'].append(set())
                elif m.group(3):
                    attr, val = m.group(3), m.group(4)
                    conv = re.search(r'%[-+0 #]*\d*(?:hh|h|ll|l|z)?([diuxs])', val)
                    argtype = None
                    if conv:
                        if vi < len(vals):
                            argtype = C.kids(vals[vi])[0].get('type', {}).get('qualType') if vals[vi].get('kind') == 'ImplicitCastExpr' and C.kids(vals[vi]) else vals[vi].get('type', {}).get('qualType')
                            under = C.strip(vals[vi])
                            argtype = under.get('type', {}).get('qualType', argtype)
                        vi += 1
                    if cur is not None:
                        if c is cur_open:
                            out[cur]['__opens__'][-1].add(attr)
                            conditional = False
                        else:
                            open_ifs = set(id(a) for a in tu.ancestors(cur_open) if a.get('kind') in ('IfStmt', 'ConditionalOperator'))
                            conditional = bool(my_ifs - open_ifs)
                        e = out[cur].setdefault(attr, {'cond': conditional, 'conv': conv.group(1) if conv else None, 'argtype': argtype, 'line': tu.line(c),
                                                       'literal': None if conv else val, 'values': set(), 'separate': c is not cur_open})
                        if c is not cur_open:
                            e['cond'] = e['cond'] or conditional
                        if not conv:
                            e['values'].add(val)
                elif m.group(5) and m.group(5) != '%':
                    vi += 1
    for tag, d in out.items():
        opens = d.get('__opens__', [])
        for attr, e in d.items():
            if attr.startswith('__'):
                continue
            if not e.get('separate') and opens and not all(attr in o for o in opens):
                e['cond'] = True      # some way of opening the element omits it
    return out


def check(ctx):
    py = ctx.py
    tu = ctx.c.tu(GD)
    m = py.mod('gdumpparser')
    rel = m.rel
    voc = dump_vocabulary(tu)
    tags = {'enum', 'flags', 'class', 'interface', 'boxed', 'pointer', 'fundamental'}
    rd = rattr.ReaderModel(py, 'gdumpparser', 'GDumpParser', {'_introspect_type': {'xmlnode': set(tags)}, '_introspect_error_quark': {'xmlnode': {'error-quark'}}})
    kb = rd.keys_by_tag()
    ch = rd.children_by_tag()

    # ------------------------------------------------------------------ R1 vocabulary
    r1 = ctx.rule('R1', 'dump vocabulary: mandatory reads are written unconditionally; everything written is read (or reviewed)', floor=40)
    for tag in sorted(kb):
        for key, reads in sorted(kb[tag].items()):
            if tag not in voc:
                r1.fail('<%s> written by gdump.c' % tag, GD, 1, 'gdumpparser reads <%s> but gdump.c never writes it' % tag)
                continue
            w = voc[tag].get(key)
            mandatory = any(r.kind == 'index' for r in reads)
            if mandatory:
                r1.check(w is not None and not w['cond'], '%s/@%s mandatory' % (tag, key), rel, reads[0].line,
                         'gdumpparser reads %s/@%s with [] (KeyError when absent) but gdump.c %s' % (tag, key, 'writes it only conditionally' if w else 'never writes it'))
            else:
                r1.check(w is not None, '%s/@%s optional' % (tag, key), rel, reads[0].line, 'gdumpparser looks for %s/@%s which gdump.c never writes' % (tag, key))
    for tag in sorted(voc):
        for key, w in sorted(voc[tag].items()):
            if key.startswith('__'):
                continue
            if tag in ('dump', '?xml') or key in ('version',):
                continue
            ok = key in kb.get(tag, {}) or (tag, key) in IGNORED
            r1.check(ok, '%s/@%s read' % (tag, key), GD, w['line'], 'gdump.c writes %s/@%s but gdumpparser.py never reads it: the runtime information is dropped' % (tag, key),
                     detail=IGNORED.get((tag, key)))
    # children
    for parent, kids_ in sorted(ch.items()):
        for k in sorted(kids_):
            if k == rattr.ANY:
                continue
            r1.check(k in voc, '<%s> inside <%s> written' % (k, parent), rel, 1, 'gdumpparser looks for <%s> children that gdump.c never writes' % k)
    # dispatch covers every type element gdump can write
    it = py.func('gdumpparser', 'GDumpParser._introspect_type')
    handled = set()
    for n in P.walk_no_nested(it):
        if isinstance(n, ast.Compare) and P.src(n.left) == 'xmlnode.tag':
            v = py.try_fold(n.comparators[0], m)
            handled |= set([v] if isinstance(v, str) else (v or []))
    top = set(t for t in voc if voc[t].get('get-type') is not None)
    r1.check(top <= handled, 'every dumped type element is dispatched', rel, it.lineno, 'gdump.c writes %s but _introspect_type handles %s' % (sorted(top), sorted(handled)),
             detail=sorted(handled))

    # ------------------------------------------------------------------ R2 flag words and values
    r2 = ctx.rule('R2', 'flag bits: ABI values, independent bit tests, each bit reaches the like-named argument; value signedness', floor=14)
    abi = {'G_PARAM_READABLE': 1, 'G_PARAM_WRITABLE': 2, 'G_PARAM_CONSTRUCT': 4, 'G_PARAM_CONSTRUCT_ONLY': 8}
    for k, v in abi.items():
        got = py.try_fold(ast.Name(id=k, ctx=ast.Load()), m)
        r2.check(got == v, '%s == %d' % (k, v), rel, 1, '%s is %r in gdumpparser.py, GLib\'s ABI value is %d' % (k, got, v), detail=got)
    ip = py.func('gdumpparser', 'GDumpParser._introspect_properties')
    want = {'readable': 'G_PARAM_READABLE', 'writable': 'G_PARAM_WRITABLE', 'construct': 'G_PARAM_CONSTRUCT', 'construct_only': 'G_PARAM_CONSTRUCT_ONLY'}
    defs = {}
    for t, v, st in P.stores_in(ip):
        if isinstance(t, ast.Name) and t.id in want:
            defs.setdefault(t.id, []).append((v, st))
    loop = [n for n in P.walk_no_nested(ip) if isinstance(n, ast.For)]
    for name, const in sorted(want.items()):
        d = defs.get(name, [])
        ok = len(d) == 1 and P.src(d[0][0]) in ('flags & %s != 0' % const, '(flags & %s) != 0' % const, 'bool(flags & %s)' % const)
        if ok:
            gs = [g for g in P.guards(d[0][1], stop=loop[0] if loop else None) if g.kind in ('if', 'early')]
            ok = not gs
        r2.check(ok, 'property %s = bit %s, tested independently' % (name, const), rel, d[0][1].lineno if d else ip.lineno,
                 'property flag %s is not decoded as an unconditional test of bit %s: %s — flag words with several bits set (e.g. CONSTRUCT together '
                 'with CONSTRUCT_ONLY) lose a flag' % (name, const, [P.src(x[0]) for x in d]), detail=[P.src(x[0]) for x in d])
    pc = [c for c in P.calls_in(ip) if P.call_name(c) == 'ast.Property']
    if len(pc) != 1:
        raise AnalysisError('_introspect_properties: ast.Property(...) not found')
    b = P.bind_call(pc[0], py.func('ast', 'Property.__init__'))
    for name in sorted(want):
        r2.check(P.src(b.get(name)) == name, 'flag %s reaches Property(%s=...)' % (name, name), rel, pc[0].lineno,
                 'ast.Property receives %s for its %s argument: two flags are swapped' % (P.src(b.get(name)), name))
    r2.check(P.src(b.get('name')) == "pspec.attrib['name']" and 'create_from_gtype_name(ctype)' in P.src(b.get('typeobj')), 'property name and type as dumped', rel, pc[0].lineno,
             'property name/type arguments changed')
    isg = py.func('gdumpparser', 'GDumpParser._introspect_signals')
    sc = [c for c in P.calls_in(isg) if P.call_name(c) == 'ast.Signal']
    if len(sc) != 1:
        raise AnalysisError('_introspect_signals: ast.Signal(...) not found')
    sb = P.bind_call(sc[0], py.func('ast', 'Signal.__init__'))
    sdefs = dict((t.id, P.src(v)) for t, v, st in P.stores_in(isg) if isinstance(t, ast.Name))
    for arg, attr in (('no_recurse', 'no-recurse'), ('detailed', 'detailed'), ('action', 'action'), ('no_hooks', 'no-hooks')):
        ok = P.src(sb.get(arg)) == arg and sdefs.get(arg) == "signal_info.attrib.get('%s', '0') == '1'" % attr
        r2.check(ok, 'signal flag %s <- @%s' % (arg, attr), rel, sc[0].lineno, 'signal %s is decoded as %s and passed as %s' % (arg, sdefs.get(arg), P.src(sb.get(arg))))
        w = voc.get('signal', {}).get(attr)
        r2.check(w is not None and w['values'] == {'1'}, 'gdump.c writes %s="1"' % attr, GD, w['line'] if w else 1, 'gdump.c writes %s=%s' % (attr, w['values'] if w else None))
    r2.check(P.src(sb.get('when')) == 'when' and sdefs.get('when') == "signal_info.attrib.get('when')", 'signal run phase passed through', rel, sc[0].lineno, 'when: %s' % sdefs.get('when'))
    am = py.mod('ast')
    phases = set(py.fold_name(am, n) for n in ('SIGNAL_FIRST', 'SIGNAL_LAST', 'SIGNAL_CLEANUP'))
    w = voc.get('signal', {}).get('when', {'values': set()})
    r2.check(phases <= w['values'], 'run phases written by gdump.c = ast.SIGNAL_*', GD, w.get('line', 1), 'gdump.c writes when=%s, the scanner knows %s' % (sorted(w['values']), sorted(phases)),
             detail=sorted(w['values']))
    # gdump.c: each signal/param flag attribute is guarded by the like-named GLib flag
    ds = tu.func('dump_signals')
    for c in C.calls(tu.body(ds), 'escaped_printf'):
        s = C.string_value(C.call_args(c)[1]) or ''
        mm = re.match(r'\s*([\w-]+)=\\?"(\w[\w-]*)\\?"$', s.replace('\\', ''))
        if not mm:
            continue
        attr, val = mm.group(1), mm.group(2)
        g = [re.sub(r'\s+', '', tu.text_of(x)) for x, pol, o in C.guards(tu, c) if pol]
        flag = 'G_SIGNAL_' + (attr if attr != 'when' else ('RUN_' + val if val != 'must-collect' else val)).upper().replace('-', '_')
        r2.check(any(flag in x for x in g), 'gdump.c: %s="%s" under %s' % (attr, val, flag), GD, tu.line(c), '%s="%s" is written under %s' % (attr, val, g), detail=g[-1:] )
    printed_value_signedness(ctx, r2)

    # ------------------------------------------------------------------ R3 pairings
    r3 = ctx.rule('R3', 'pairing rules: boxed/pointer <-> record or union, class struct both ways, get-type removal, full parent chain', floor=9)
    for fn in ('_pair_boxed_type', '_pair_pointer_type'):
        f = py.func('gdumpparser', 'GDumpParser.' + fn)
        iso = [c for c in P.calls_in(f) if P.call_name(c) == 'isinstance' and P.src(c.args[0]) == 'pair_node']
        kinds = set()
        for c in iso:
            v = c.args[1]
            kinds |= set(P.src(e) for e in (v.elts if isinstance(v, ast.Tuple) else [v]))
        r3.check(kinds == {'ast.Record', 'ast.Union'}, '%s accepts records and unions' % fn, rel, f.lineno,
                 '%s pairs a registered type only with %s: a boxed/pointer type whose C declaration is a union (or record) keeps no glib:type-name/get-type and its '
                 'get_type function stays in the function list' % (fn, sorted(kinds)), detail=sorted(kinds))
        ag = [c for c in P.calls_in(f) if isinstance(c.func, ast.Attribute) and c.func.attr == 'add_gtype']
        okp = len(ag) == 1 and [P.src(a) for a in ag[0].args] == ['%s.gtype_name' % f.args.args[1].arg, '%s.get_type' % f.args.args[1].arg]
        pre = [P.src(v) for t, v, st in P.stores_in(f) if P.src(t) == 'pair_node.c_symbol_prefix']
        r3.check(okp and pre == ['%s.c_symbol_prefix' % f.args.args[1].arg], '%s transfers gtype name, get-type and symbol prefix' % fn, rel, f.lineno, 'add_gtype/c_symbol_prefix changed')
    fc = py.func('gdumpparser', 'GDumpParser._find_class_record')
    st = dict((P.src(t), P.src(v)) for t, v, s_ in P.stores_in(fc))
    r3.check(st.get('cls.glib_type_struct') == 'pair_record.create_type()' and st.get('pair_record.is_gtype_struct_for') == 'cls.create_type()', 'class <-> class struct linked both ways',
             rel, fc.lineno, 'links: %s' % {k: v for k, v in st.items() if 'type_struct' in k})
    pa = py.func('gdumpparser', 'GDumpParser.parse')
    rm_ = [c for c in P.calls_in(pa) if P.src(c.func) == 'self._namespace.remove']
    ap = [c for c in P.calls_in(pa) if P.src(c.func) == 'to_remove.append']
    okr = len(rm_) == 1 and len(ap) == 1 and P.src(ap[0].args[0]) == 'get_type_func'
    if okr:
        gs = [g.text() for g in P.guards(ap[0]) if g.kind in ('if', 'early')]
        okr = any('isinstance(node, ast.Registered) and node.get_type is not None' in g for g in gs) and any("get_type_name == 'intern'" in g for g in gs)
    r3.check(okr, 'get-type functions of registered types are removed', rel, pa.lineno, 'get_type removal changed')
    pp = py.func('gdumpparser', 'GDumpParser._parse_parents')
    pst = [(P.src(t), v) for t, v, s_ in P.stores_in(pp)]
    chain = [v for t, v in pst if t == 'node.parent_chain']
    okc = len(chain) == 1 and isinstance(chain[0], ast.Name)
    if okc:
        vals = [P.src(v) for t, v in pst if t == chain[0].id]
        okc = sorted(vals) == sorted(["list(map(lambda s: ast.Type.create_from_gtype_name(s), parents_str.split(',')))", '[]'])
    r3.check(okc and not [c for c in P.calls_in(pp) if 'resolve' in (P.call_name(c) or '') or 'lookup' in (P.call_name(c) or '')], 'parent chain kept complete and unresolved', rel,
             pp.lineno, '_parse_parents filters or resolves the parent chain while the dump is still being read: an ancestor from the same namespace that is dumped later '
             'is dropped and the class gets a more distant parent')
    mt = py.mod('maintransformer')
    tr = py.func('maintransformer', 'MainTransformer._pass_type_resolution')
    loops = [n for n in P.walk_no_nested(tr) if isinstance(n, ast.For) and P.src(n.iter) == 'node.parent_chain']
    okl = len(loops) == 1
    if okl:
        lp = loops[0]
        sets = [s_ for t, v, s_ in P.stores_in(lp) if P.src(t) == 'node.parent_type' and contains(lp.body, s_)]
        okl = len(sets) == 1 and P.src(sets[0].value) == lp.target.id
        if okl:
            blk = P.block_of(sets[0])
            okl = isinstance(blk[2][-1], ast.Break) and any('target' == g.text() for g in P.guards(sets[0], stop=lp))
    r3.check(okl, 'nearest resolvable parent wins', mt.rel, tr.lineno, '_pass_type_resolution no longer walks parent_chain in order and stops at the first known parent')
    eq = py.func('maintransformer', 'MainTransformer._pair_quarks_with_enums')
    eds = [(v, s_) for t, v, s_ in P.stores_in(eq) if isinstance(t, ast.Attribute) and t.attr == 'error_domain']
    oke = len(eds) == 1 and isinstance(eds[0][0], ast.Attribute) and eds[0][0].attr == 'error_domain' and isinstance(eds[0][0].value, ast.Name)
    if oke:
        qv = eds[0][0].value.id
        oke = any(g.text() == 'not (not isinstance(%s, ast.ErrorQuarkFunction))' % qv for g in P.guards(eds[0][1]))
    r3.check(oke, 'error domain taken from the quark function', mt.rel, eq.lineno, 'error domain is not copied from the error-quark function node')

    # ------------------------------------------------------------------ R4 virtuals
    r4 = ctx.rule('R4', 'virtual methods only from class-struct callbacks whose first parameter is the instance', floor=2)
    pv = py.func('maintransformer', 'MainTransformer._pair_class_virtuals')
    vc = [c for c in P.calls_in(pv) if P.call_name(c) == 'ast.VFunction.from_callback']
    if len(vc) != 1:
        raise AnalysisError('_pair_class_virtuals: VFunction.from_callback not found')
    gs = [g.text() for g in P.guards(vc[0]) if g.kind in ('if', 'early')]
    r4.check('not (firstparam_type != node_type)' in gs and 'not (len(callback.parameters) == 0)' in gs, 'first parameter must be the instance type', mt.rel, vc[0].lineno,
             'vfunc creation guards: %s' % gs, detail=gs)
    d = dict((P.src(t), P.src(v)) for t, v, s_ in P.stores_in(pv))
    r4.check(d.get('node_type') == 'node.create_type()' and d.get('firstparam_type') == 'callback.parameters[0].type', 'compared types are the class and the first parameter', mt.rel,
             pv.lineno, 'definitions: %s' % {k: d.get(k) for k in ('node_type', 'firstparam_type')})


def printed_value_signedness(ctx, r2):
    """printf conversions in gdump.c agree in signedness with the C type of the value they print (shared with C13)"""
    tu = ctx.c.tu(GD)
    # signedness of printed integers
    for tag, key, want_conv in (('flags/member', 'value', 'u'), ('enum/member', 'value', 'd'), ('property', 'flags', 'd')):
        fn = {'flags/member': 'dump_flags_type', 'enum/member': 'dump_enum_type', 'property': 'dump_properties'}[tag]
        f = tu.func(fn)
        for c in C.calls(tu.body(f), 'escaped_printf'):
            a = C.call_args(c)
            s = C.string_value(a[1]) or ''
            convs = re.findall(r'%[-+0 #]*\d*(?:hh|h|ll|l|z)?([diuxs])', s)
            attrs = re.findall(r'([\w-]+)=\\?"%', s)
            for i, (at, cv) in enumerate(zip(attrs, convs)):
                if at != key:
                    continue
                under = C.strip(a[2 + i], casts=True)
                qt = (under.get('type', {}).get('qualType') or '')
                unsigned = qt.startswith('guint') or qt.startswith('unsigned') or qt in ('gsize', 'gulong')
                if qt in ('GParamFlags',):
                    unsigned = False
                r2.check((cv == 'u') == unsigned, '%s: %s printed with %%%s for a %s' % (fn, at, cv, qt), GD, tu.line(c),
                         '%s prints %s, a `%s`, with %%%s: a value with bit 31 set (e.g. a flags member 1<<31) is written with the wrong sign and the GIR '
                         'value differs from the registered one' % (fn, at, qt, cv), detail={'type': qt, 'conversion': cv})



def contains(stmts, node):
    return any(x is node for s in stmts for x in ast.walk(s))
