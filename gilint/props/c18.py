"""C18 — the dependency-GIR cache never serves stale or torn data."""
import ast
import re

from ..core import AnalysisError
from .. import pyfront as P
from .. import gsa
from .. import pycfg

EXPLANATION = ('Pairing/ordering/who-may-write rules over giscanner/cachestore.py and its call sites: entries are '
               'published only by moving a fully written and closed temporary file; the freshness decision is taken '
               'on the very file object that is unpickled, with full-resolution mtimes, and "older than source" is '
               'rejected; unpickling failures of any kind discard the entry; a version change purges before the new '
               'stamp is published; the cache is bypassed whenever the parse mode differs from the mode entries were '
               'stored with; cache hit/miss controls nothing but parse+store.')


def handler_types(h, mod, py):
    if h.type is None:
        return ['<bare>']
    if isinstance(h.type, ast.Tuple):
        return [P.src(e) for e in h.type.elts]
    return [P.src(h.type)]


def check(ctx):
    py = ctx.py
    m = py.mod('cachestore')
    rel = m.rel
    store = py.func('cachestore', 'CacheStore.store')
    load = py.func('cachestore', 'CacheStore.load')
    valid = py.func('cachestore', 'CacheStore._cache_is_valid')
    ccv = py.func('cachestore', 'CacheStore._check_cache_version')
    clean = py.func('cachestore', 'CacheStore._clean')
    rm = py.func('cachestore', 'CacheStore._remove_filename')

    # --------------------------------------------------------------- R1 atomic publish
    r1 = ctx.rule('R1', 'entries and version stamp are published only by moving a closed mkstemp file; nobody opens them for writing', floor=8)
    KEYFN = key_method(ctx)
    OPQ = ('_cache_is_valid', KEYFN, '_remove_filename', '_clean')
    for qn, what in (('store', 'cache entry'), ('_check_cache_version', 'version stamp')):
        S = gsa.summarise(ctx, 'cachestore', 'CacheStore.' + qn, opaque=OPQ)
        fn = S.func
        calls = [e for e in S.effects if e.kind == 'call']
        mk = [e for e in calls if e.target == 'tempfile.mkstemp']
        if len(mk) != 1:
            raise AnalysisError('%s: one tempfile.mkstemp(...) call expected, found %d' % (qn, len(mk)))
        TMP = mk[0].value
        moves = [e for e in calls if e.target in ('shutil.move', 'os.rename', 'os.replace')]
        r1.check(len(moves) == 1 and moves[0].args and moves[0].args[0] == TMP + '[1]', '%s: published by move of the temp file' % what, rel, fn.lineno,
                 '%s is not published by a single move/rename of the mkstemp file: %s' % (what, [e.value[:100] for e in moves]), detail=[e.value[:100] for e in moves])
        FD = 'os.fdopen(%s[0], ' % TMP
        writes = [e for e in calls if e.target == 'pickle.dump' or e.target.endswith('.write')]
        inwith = [e for e in writes if any(w_.startswith(FD) for w_ in e.withs)]
        r1.check(len(inwith) >= 1 and len(inwith) == len(writes), '%s: temp file written inside `with os.fdopen(fd)`' % what, rel, fn.lineno,
                 'temporary file is not written through a with-block that closes it: %s' % [(e.value[:60], e.withs) for e in writes])
        if inwith and moves:
            mv = moves[0]
            r1.check(not any(w_.startswith(FD) for w_ in mv.withs) and all(e.seq < mv.seq for e in inwith) and gsa.implies(mv.cond, gsa.cond_any(inwith)),
                     '%s: written and closed before the move' % what, rel, mv.line,
                     'the move is inside the with-block or not preceded by it: a reader could see a partially written file')
            r1.check(len(inwith) == 1 and (FD in inwith[0].value), '%s: single payload write' % what, rel, inwith[0].line, 'payload writes: %s' % [e.value[:80] for e in writes])
        if moves and len(moves[0].args) > 1:
            dst = moves[0].args[1]
            exp = 'self.%s(%s)' % (KEYFN, S.P(1)) if qn == 'store' else 'os.path.join(self._directory, _CACHE_VERSION_FILENAME)'
            r1.check(dst == exp, '%s: move destination' % what, rel, moves[0].line, 'destination is %s, expected %s' % (dst, exp))
    # who may open for writing: every open()/os.open/fdopen in cachestore with a write mode must be fdopen of an mkstemp fd
    opens = []
    for n in ast.walk(m.tree):
        if isinstance(n, ast.Call) and P.call_name(n) in ('open', 'os.fdopen', 'io.open', 'os.open', 'gzip.open'):
            mode = 'r'
            if len(n.args) > 1:
                mode = py.try_fold(n.args[1], m, '?')
            for k in n.keywords:
                if k.arg == 'mode':
                    mode = py.try_fold(k.value, m, '?')
            fn = P.enclosing_function(n)
            opens.append((P.call_name(n), mode, fn.name if fn else '?', n.lineno))
    for nm, mode, fname, ln in opens:
        writing = any(ch in str(mode) for ch in 'wax+?')
        r1.check((not writing) or nm == 'os.fdopen', 'open mode in %s' % fname, rel, ln,
                 '%s(..., %r) in %s opens a cache file for writing in place (not via temp file + move)' % (nm, mode, fname),
                 detail='%s mode=%s' % (nm, mode))
    # nobody outside cachestore builds cache paths or touches the cache directory
    users = []
    for mod in py.all_modules():
        if mod.rel == rel:
            continue
        for n in ast.walk(mod.tree):
            if isinstance(n, ast.Attribute) and n.attr in (KEYFN, '_directory', '_remove_filename', '_clean', '_cache_is_valid') \
                    and 'cachestore' in P.src(n.value).lower():
                users.append('%s:%d %s' % (mod.rel, n.lineno, P.src(n)))
    r1.check(not users, 'cache internals used only by CacheStore', rel, 1, 'cache internals used from outside: %s' % users,
             detail='no outside user')

    # --------------------------------------------------------------- R2 decide and read the same file; comparator
    r2 = ctx.rule('R2', 'freshness decided on the open file that is unpickled; full-resolution mtimes; older-than-source rejected', floor=6)
    LD = gsa.summarise(ctx, 'cachestore', 'CacheStore.load', opaque=OPQ)
    load = LD.func
    lc = [e for e in LD.effects if e.kind == 'call']
    pl = [e for e in lc if e.target == 'pickle.load']
    opn = [e for e in lc if e.target == 'open']
    if len(pl) != 1 or len(opn) != 1:
        raise AnalysisError('load: one open(...) and one pickle.load(...) expected (found %d / %d)' % (len(opn), len(pl)))
    OPENED = opn[0].value
    r2.check(pl[0].args == [OPENED], 'unpickles the opened file', rel, pl[0].line, 'pickle.load reads %s, the file opened is %s' % (pl[0].args, OPENED))
    vcalls = [e for e in lc if e.target == 'self._cache_is_valid']
    if len(vcalls) != 1:
        raise AnalysisError('load: call to _cache_is_valid not found')
    vc = vcalls[0]
    VALID = r'^self\._cache_is_valid\('
    r2.check(vc.seq < pl[0].seq and gsa.implies(pl[0].cond, vc.cond), 'validity check before unpickling', rel, vc.line, 'pickle.load is reachable without the freshness check')
    r2.check(gsa.impossible(LD, pl[0], [(VALID, False)]) and gsa.allowed(LD, pl[0], [(VALID, True), (r'^@except', False), (r' is None$', False)]), 'invalid entry not unpickled', rel, pl[0].line,
             'pickle.load is reached when %s' % pl[0].when()[:200], detail=pl[0].when()[:200])
    first_arg = vc.args[0] if vc.args else ''
    uses_fd = OPENED in first_arg
    valid = py.func('cachestore', 'CacheStore._cache_is_valid')
    CV = gsa.summarise(ctx, 'cachestore', 'CacheStore._cache_is_valid', inline_only=())
    vparams = [a_ for a_ in CV.params if a_ != 'self']
    stat_calls = [e for e in CV.effects if e.kind == 'call' and e.target in ('os.stat', 'os.fstat', 'os.path.getmtime', 'os.lstat')]
    store_stats = [e for e in stat_calls if e.args and e.args[0] == vparams[0]]
    r2.check(uses_fd and len(store_stats) >= 1 and all(e.target in ('os.stat', 'os.fstat') for e in store_stats),
             'load: freshness of the open file, not of the path', rel, vc.line,
             'load() opens the entry and then decides freshness by stat()ing the PATH (%s): if another process renames a '
             'fresh entry into place between open() and stat(), the stale pickle that is already open is accepted '
             'and returned. The decision must be taken on the open descriptor (fstat).' % first_arg,
             detail={'validity argument': first_arg})
    # comparator
    cmp_ret = [(g, n) for g, n in CV.returns if isinstance(n, ast.Compare) and len(n.ops) == 1]
    if len(cmp_ret) == 1:
        c = cmp_ret[0][1]

        def side(e):
            if isinstance(e, ast.Attribute) and e.attr in ('st_mtime', 'st_mtime_ns') and isinstance(e.value, ast.Call):
                which = gsa._unparse(e.value.args[0]) if e.value.args else '?'
                return which, e.attr
            if isinstance(e, ast.Call) and P.call_name(e) == 'os.path.getmtime':
                return gsa._unparse(e.args[0]), 'st_mtime'
            return gsa._unparse(e), 'other'
        (lw, lr), (rw, rr) = side(c.left), side(c.comparators[0])
        op = type(c.ops[0]).__name__
        ok = False
        if lw == vparams[0] and rw == vparams[1]:
            ok = op in ('GtE', 'Gt')
        elif lw == vparams[1] and rw == vparams[0]:
            ok = op in ('LtE', 'Lt')
        full = lr == rr and lr in ('st_mtime', 'st_mtime_ns')
        r2.check(ok, 'entry older than its source is invalid', rel, valid.lineno,
                 'validity is `%s`: does not require entry mtime >= source mtime' % gsa._unparse(c), detail=gsa._unparse(c))
        r2.check(full, 'full-resolution modification times', rel, valid.lineno,
                 'modification times are compared as %s / %s: anything coarser than st_mtime (e.g. stat()[ST_MTIME], int()) '
                 'accepts an entry written in the same second before the source changed' % (lr, rr), detail=[lr, rr])
    else:
        r2.fail('freshness comparison', rel, valid.lineno, 'no single mtime comparison returned by _cache_is_valid')
    others = sorted(set(gsa._unparse(n) for g, n in CV.returns if not isinstance(n, ast.Compare)))
    r2.check(others == ['False'], 'missing entry is invalid', rel, valid.lineno, 'other returns of _cache_is_valid: %s' % others)
    for c in ast.walk(valid):
        if isinstance(c, ast.Call) and P.call_name(c) in ('int', 'round', 'math.floor', 'math.trunc'):
            r2.fail('full-resolution modification times', rel, c.lineno, 'mtime is rounded: %s' % P.src(c))

    # --------------------------------------------------------------- R3 failure discipline
    r3 = ctx.rule('R3', 'any unpickling failure discards the entry; missing entry -> None; removal tolerates ENOENT/EACCES', floor=5)
    cands = [c for f_ in py.methods('cachestore', 'CacheStore').values() for c in P.calls_in(f_) if P.call_name(c) == 'pickle.load' and c.lineno == pl[0].line]
    if len(cands) != 1:
        raise AnalysisError('load: pickle.load call site not located')
    pnode = cands[0]
    tr = None
    n = P.parent(pnode)
    while n is not None and not isinstance(n, (ast.FunctionDef,)):
        if isinstance(n, ast.Try) and any(pnode is x for b_ in n.body for x in ast.walk(b_)):
            tr = n
            break
        n = P.parent(n)
    if tr is None:
        r3.fail('pickle.load guarded', rel, pl[0].line, 'pickle.load is not inside try/except: a broken entry raises')
    else:
        types = [t for h in tr.handlers for t in handler_types(h, m, py)]
        r3.check(any(t in ('Exception', 'BaseException', '<bare>') for t in types), 'pickle.load guarded by except Exception', rel, tr.lineno,
                 'unpickling is guarded only by %s: a damaged entry can raise anything (AttributeError, ImportError, '
                 'UnicodeDecodeError, ValueError, IndexError ...), so a narrower handler lets corrupt entries abort the scan' % types,
                 detail=types)
        EXC = r'^@except:(Exception|BaseException)?$'
        rmv = [e for e in lc if e.target == 'self._remove_filename' and gsa.impossible(LD, e, [(EXC, False)])]
        got = gsa.returns_under(LD, gsa.decide_by([(EXC, True), (VALID, True), (r'^@except:\(', False), (r' is None$', False)]))
        r3.check(bool(rmv) and [g[0] for g in got] == ['None'], 'broken entry removed and ignored', rel, tr.lineno,
                 'after a failed unpickling: removals %s, load returns %s' % ([e.value for e in rmv], [g[0][:60] for g in got]))
    got = gsa.returns_under(LD, gsa.decide_by([(r'^@except:\(?(IOError|OSError|FileNotFoundError|EnvironmentError)', True), (r'errno == errno\.ENOENT$', True), (r'^self\.%s\(.*\) is None$' % re.escape(KEYFN), False)]))
    r3.check([g[0] for g in got] == ['None'], 'missing entry -> None', rel, load.lineno, 'open() failing with ENOENT makes load return %s' % [g[0][:60] for g in got])
    tol = set()
    for n in ast.walk(rm):
        if isinstance(n, ast.Compare) and 'errno' in P.src(n):
            for a_ in ast.walk(n):
                if isinstance(a_, ast.Attribute) and P.src(a_).startswith('errno.'):
                    tol.add(a_.attr)
    r3.check({'ENOENT', 'EACCES'} <= tol, 'removal tolerates concurrent removal / read-only dir', rel, rm.lineno,
             '_remove_filename tolerates only %s' % sorted(tol), detail=sorted(tol))
    lrets = sorted(set(gsa._unparse(n) for g, n in LD.returns))
    r3.check(set(lrets) <= {'None', pl[0].value}, 'load returns the unpickled object or None', rel, load.lineno, 'returns: %s' % lrets)

    # --------------------------------------------------------------- R4 version change purges
    r4 = ctx.rule('R4', 'scanner version change: purge dominates publishing the new stamp; purge removes everything but the stamp', floor=5)
    CV4 = gsa.summarise(ctx, 'cachestore', 'CacheStore._check_cache_version', opaque=OPQ)
    c4 = [e for e in CV4.effects if e.kind == 'call']
    cl = [e for e in c4 if e.target == 'self._clean']
    mv = [e for e in c4 if e.target in ('shutil.move', 'os.rename', 'os.replace')]
    if len(cl) != 1 or len(mv) != 1:
        raise AnalysisError('_check_cache_version: expected one self._clean() and one move')
    r4.check(cl[0].seq < mv[0].seq and gsa.implies(mv[0].cond, cl[0].cond),
             'purge before new stamp', rel, cl[0].line,
             'the new version stamp can be published before (or without) purging old entries: a crash or a concurrent '
             'scanner between the two leaves old-version entries behind a matching stamp')
    HASHEQ = r'_get_versionhash\(\)'
    eqs = [a_ for a_ in gsa.atoms(cl[0].cond) if re.search(HASHEQ, a_) and ' == ' in a_]
    okp = bool(eqs) and gsa.impossible(CV4, cl[0], [(r'^self\._directory is None$', True)]) and not gsa.can_hold(cl[0].cond, dict((a_, True) for a_ in eqs)) and \
        gsa.can_hold(gsa.assign(cl[0].cond, {'self._directory is None': False}), dict((a_, False) for a_ in eqs))
    extra = [a_ for a_ in gsa.atoms(cl[0].cond) if a_ not in eqs and not a_.startswith('@except') and not re.search(r'errno|_directory is None', a_)]
    r4.check(okp and not extra, 'purge on every mismatch', rel, cl[0].line, 'purge happens when %s' % cl[0].when()[:300], detail=cl[0].when()[:300])
    r4.check(any(re.search(r'\.read\(\)', a_) for a_ in eqs), 'stored stamp compared as read', rel, CV4.func.lineno, 'comparisons: %s' % eqs)
    wr = [e for e in c4 if e.target.endswith('.write')]
    r4.check(len(wr) == 1 and wr[0].args == ['_get_versionhash()'] and all('_get_versionhash()' in a_ for a_ in eqs), 'stamp written = stamp compared', rel, CV4.func.lineno,
             'written=%s compared=%s' % ([e.args for e in wr], eqs))
    CL = gsa.summarise(ctx, 'cachestore', 'CacheStore._clean', opaque=OPQ)
    rmc = [e for e in CL.effects if e.kind == 'call' and e.target == 'self._remove_filename']
    ok = len(rmc) == 1 and rmc[0].loops == ('os.listdir(self._directory)',)
    if ok:
        e = rmc[0]
        mm = re.match(r'^os\.path\.join\(self\._directory, (\w+)\)$', e.args[0] if e.args else '')
        ok = bool(mm)
        if ok:
            STAMP = r'^%s == _CACHE_VERSION_FILENAME$' % mm.group(1)
            want = gsa.conj(*[gsa.atom(a_) for a_ in gsa.atoms(e.cond) if a_.startswith('@iter:')] + [gsa.neg(gsa.atom('%s == _CACHE_VERSION_FILENAME' % mm.group(1)))])
            ok = gsa.equiv(e.cond, want)
    r4.check(ok, 'purge removes every entry except the stamp', rel, clean.lineno, '_clean does not remove every file but the version stamp: %s' % [(e.value, e.when()[:120]) for e in rmc])
    init = py.func('cachestore', 'CacheStore.__init__')
    r4.check([P.src(s) for s in init.body][-1] == 'self._check_cache_version()', 'version checked on construction', rel, init.lineno,
             'CacheStore.__init__ does not end with the version check')
    # version hash covers the scanner sources
    vh = py.func('cachestore', '_get_versionhash')
    globs = [c for c in P.calls_in(vh) if P.call_name(c) == 'glob.glob' and "'*.py'" in P.src(c)]
    pkg = [n for n in ast.walk(vh) if isinstance(n, ast.Attribute) and n.attr == '__file__' and P.src(n.value) == 'giscanner']
    mt_ = [n for n in ast.walk(vh) if (isinstance(n, ast.Attribute) and n.attr in ('st_mtime', 'st_mtime_ns')) or
           (isinstance(n, ast.Call) and P.call_name(n) in ('os.path.getmtime', 'os.path.getmtime_ns'))]
    r4.check(bool(globs) and bool(pkg) and bool(mt_),
             'version hash covers giscanner/*.py', rel, vh.lineno, 'version hash no longer derived from the scanner sources')

    # --------------------------------------------------------------- R5 transparency at the call site
    r5 = ctx.rule('R5', 'cache hit/miss controls only parse+store; cache bypassed when parse mode differs', floor=4)
    tm = py.mod('transformer')
    from . import c16
    pi = py.func('transformer', 'Transformer._parse_include')
    groups, PI = c16.parse_include_groups(ctx)
    fparam = PI.P(1)
    ld = [e for e in PI.effects if e.kind == 'call' and e.target == 'self._cachestore.load']
    stc = [e for e in PI.effects if e.kind == 'call' and e.target == 'self._cachestore.store']
    if len(ld) < 1 or len(stc) < 1:
        raise AnalysisError('_parse_include: cache load/store calls not found')
    r5.check(all(e.args[:1] == [fparam] for e in ld + stc), 'load/store keyed by the same file', tm.rel, ld[0].line, 'load(%s) / store(%s)' % ([e.args[:1] for e in ld], [e.args[:1] for e in stc]))
    r5.check(all(len(e.args) > 1 and e.args[1].startswith('GIRParser(') for e in stc), 'stored object is the freshly parsed one', tm.rel, stc[0].line, 'store(..., %s)' % [e.args[1:2] for e in stc])
    dep = sorted(k for k, c in groups.items() if c16.depends_on(c, r'_cachestore'))
    okd = bool(dep) and all(k[1] in ('GIRParser', 'PARSER.parse', 'self._cachestore.store', 'self._cachestore.load') for k in dep) and \
        {'GIRParser', 'PARSER.parse', 'self._cachestore.store'} <= set(k[1] for k in dep)
    r5.check(okd, 'only parse+store depend on hit/miss', tm.rel, pi.lineno, 'effects depending on cache hit/miss: %s' % [k[1] for k in dep], detail=[k[1] for k in dep])
    pparse = [e for e in PI.effects if e.kind == 'call' and e.target.endswith('.parse') and e.target.startswith('GIRParser(')]
    r5.check(bool(pparse) and all(e.args[:1] == [fparam] for e in pparse), 'a miss parses the requested file', tm.rel, pi.lineno, 'parse calls: %s' % [e.value[:80] for e in pparse])
    # parse mode vs cache: GIRParser(types_only=<expr over self._passthrough_mode>): entries do not record the mode, so every
    # place that flips the mode of a transformer that emits GIR must also disable the cache
    mode_dep = [e for e in PI.effects if e.kind == 'call' and e.target == 'GIRParser' and '_passthrough_mode' in e.value]
    sm = py.mod('scannermain')
    flips = []
    for n in ast.walk(sm.tree):
        if isinstance(n, ast.Call) and isinstance(n.func, ast.Attribute) and n.func.attr == 'set_passthrough_mode':
            st = P.enclosing_stmt(n)
            blk = P.block_of(st)
            sibs = [P.src(s) for s in blk[2]] if blk else []
            recv = P.src(n.func.value)
            flips.append((n.lineno, '%s.disable_cache()' % recv in sibs))
    if mode_dep:
        r5.check(flips and all(ok for ln, ok in flips), 'mode flip disables the cache', sm.rel, flips[0][0] if flips else 1,
                 'scannermain switches the transformer to passthrough (full) parsing without disabling the cache, whose entries '
                 'were stored by types-only parses under the same key', detail=flips)
    else:
        r5.ok('parse mode independent of transformer state', tm.rel, pi.lineno)
    cache_key_rule(ctx, r5)


def cache_key_rule(ctx, rule):
    """the cache entry of a file is named by a digest of the file's full path, losslessly encoded: two different GIR files never share an entry
    (shared with C16: the output must not depend on what another run left in the cache)"""
    py = ctx.py
    GF = gsa.summarise(ctx, 'cachestore', 'CacheStore.' + key_method(ctx))
    fp = GF.P(1)
    hashed = []
    for g_, n in GF.returns:
        if n is None:
            continue
        for c in ast.walk(n):
            if isinstance(c, ast.Call) and re.match(r'^hashlib\.\w+$', gsa._unparse(c.func)) and c.args:
                hashed.append(c.args[0])
    hashed = [h for h in hashed]
    if not hashed or all(isinstance(h, ast.Constant) for h in hashed):
        hashed = []
    if not hashed:
        # incremental form: d = hashlib.sha1(); d.update(<bytes>); ... d.hexdigest()
        recv = [t.id for t, v, st in P.stores_in(GF.func) if isinstance(t, ast.Name) and isinstance(v, ast.Call) and re.match(r'^hashlib\.\w+$', P.src(v.func)) and not v.args]
        for e in gsa.find(GF, 'call', r'^(%s)\.update$' % '|'.join(map(re.escape, recv)) if recv else r'^$'):
            if e.vnode is not None and e.vnode.args:
                hashed.append(e.vnode.args[0])
    if not hashed:
        raise AnalysisError('CacheStore._get_filename: no hashlib digest in the returned path')
    LOSSLESS_ERRORS = (None, 'strict', 'surrogateescape', 'surrogatepass')
    for h in hashed:
        ok = isinstance(h, ast.Call) and isinstance(h.func, ast.Attribute) and h.func.attr == 'encode' and gsa._unparse(h.func.value) == fp
        why = 'the digest is taken over `%s`, not over the encoded file name `%s` itself' % (gsa._unparse(h)[:80], fp)
        if ok:
            enc = h.args[0] if h.args else next((k.value for k in h.keywords if k.arg == 'encoding'), None)
            err = h.args[1] if len(h.args) > 1 else next((k.value for k in h.keywords if k.arg == 'errors'), None)
            encv = py.try_fold(enc, py.mod('cachestore')) if enc is not None else 'utf-8'
            errv = py.try_fold(err, py.mod('cachestore')) if err is not None else None
            ok = isinstance(encv, str) and encv.lower().replace('_', '-') in ('utf-8', 'utf8', 'utf-16', 'utf-32') and errv in LOSSLESS_ERRORS
            why = 'the file name is encoded with (%r, errors=%r): different names can encode to the same bytes' % (encv, errv)
        rule.check(ok, 'cache entry named by a digest of the full, losslessly encoded path', 'giscanner/cachestore.py', GF.func.lineno,
                   '%s; two different GIR files (Foo-1.0.gir in two directories, or names differing in non-ASCII characters) share one cache entry and the second is '
                   'served the parse of the first' % why, detail=gsa._unparse(h))


def key_method(ctx):
    """the CacheStore method that names the entry of a file: the one that calls hashlib (whatever it is called)"""
    ms = ctx.py.methods('cachestore', 'CacheStore')
    cands = [mn for mn, mf in sorted(ms.items()) if any(isinstance(c, ast.Call) and re.match(r'^hashlib\.\w+$', P.src(c.func)) for c in ast.walk(mf))]
    helpers = [mn for mn in cands if not any(P.call_name(c) in ('self.' + o, 'CacheStore.' + o) for o in cands if o != mn for c in P.calls_in(ms[mn]))]
    # prefer the method that returns a path in the cache directory (it may delegate the digest to a static helper)
    outer = [mn for mn, mf in sorted(ms.items()) if mn not in ('store', 'load') and any(P.call_name(c) in ['self.' + h for h in cands] + ['CacheStore.' + h for h in cands] for c in P.calls_in(mf))]
    pick = outer or cands
    if len(pick) != 1:
        raise AnalysisError('CacheStore: the method that derives the entry name (hashlib digest) was not found uniquely: %s' % pick)
    return pick[0]
