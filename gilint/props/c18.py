"""C18 — the dependency-GIR cache never serves stale or torn data."""
import ast

from ..core import AnalysisError
from .. import pyfront as P
from .. import pycfg

EXPLANATION = ('Pairing/ordering/who-may-write rules over giscanner/cachestore.py and its call sites: entries are '
               'published only by moving a fully written and closed temporary file; the freshness decision is taken '
               'on the very file object that is unpickled, with full-resolution mtimes, and "older than source" is '
               'rejected; unpickling failures of any kind discard the entry; a version change purges before the new '
               'stamp is published; the cache is bypassed whenever the parse mode differs from the mode entries were '
               'stored with; cache hit/miss controls nothing but parse+store.')


def handler_types(h, mod, py):
    if h.type is None:
        return ['<bare>']
    if isinstance(h.type, ast.Tuple):
        return [P.src(e) for e in h.type.elts]
    return [P.src(h.type)]


def check(ctx):
    py = ctx.py
    m = py.mod('cachestore')
    rel = m.rel
    store = py.func('cachestore', 'CacheStore.store')
    load = py.func('cachestore', 'CacheStore.load')
    valid = py.func('cachestore', 'CacheStore._cache_is_valid')
    ccv = py.func('cachestore', 'CacheStore._check_cache_version')
    clean = py.func('cachestore', 'CacheStore._clean')
    rm = py.func('cachestore', 'CacheStore._remove_filename')

    # --------------------------------------------------------------- R1 atomic publish
    r1 = ctx.rule('R1', 'entries and version stamp are published only by moving a closed mkstemp file; nobody opens them for writing', floor=8)
    for fn, what in ((store, 'cache entry'), (ccv, 'version stamp')):
        cfg = pycfg.CFG(fn)
        mk = [(t, v, st) for t, v, st in P.stores_in(fn) if isinstance(v, ast.Call) and P.call_name(v) == 'tempfile.mkstemp']
        if len(mk) != 1 or not isinstance(mk[0][2].targets[0], ast.Tuple):
            # stores_in splits tuple targets only for tuple values; handle `a, b = mkstemp()`
            mk = [(n.targets[0], n.value, n) for n in P.walk_no_nested(fn) if isinstance(n, ast.Assign)
                  and isinstance(n.value, ast.Call) and P.call_name(n.value) == 'tempfile.mkstemp']
        if len(mk) != 1 or not isinstance(mk[0][0], ast.Tuple) or len(mk[0][0].elts) != 2:
            raise AnalysisError('%s: `fd, name = tempfile.mkstemp(...)` not found' % fn.name)
        fdv, namev = [e.id for e in mk[0][0].elts]
        moves = [c for c in P.calls_in(fn) if P.call_name(c) in ('shutil.move', 'os.rename', 'os.replace')]
        r1.check(len(moves) == 1 and P.src(moves[0].args[0]) == namev, '%s: published by move of the temp file' % what, rel, fn.lineno,
                 '%s is not published by a single move/rename of the mkstemp file: %s' % (what, [P.src(c) for c in moves]),
                 detail=[P.src(c) for c in moves])
        # writer: with os.fdopen(fd, mode) as f: ... ; closed (with-block ended) before move
        withs = [n for n in P.walk_no_nested(fn) if isinstance(n, ast.With) and any(
            isinstance(it.context_expr, ast.Call) and P.call_name(it.context_expr) == 'os.fdopen' and
            P.src(it.context_expr.args[0]) == fdv for it in n.items)]
        r1.check(len(withs) == 1, '%s: temp file written inside `with os.fdopen(fd)`' % what, rel, fn.lineno,
                 'temporary file is not written through a with-block that closes it')
        if withs and moves:
            w = withs[0]
            mv_stmt = P.enclosing_stmt(moves[0])
            inside = any(mv_stmt is x for x in ast.walk(w))
            dom = cfg.dominates(w.items[0].context_expr, cfg.node_of(moves[0]))
            r1.check(not inside and dom, '%s: written and closed before the move' % what, rel, mv_stmt.lineno,
                     'the move is inside the with-block or not dominated by it: a reader could see a partially written file')
            # the data written is the payload
            writes = [c for c in ast.walk(w) if isinstance(c, ast.Call) and P.call_name(c) in ('pickle.dump',) or
                      (isinstance(c, ast.Call) and isinstance(c.func, ast.Attribute) and c.func.attr == 'write')]
            r1.check(len(writes) == 1, '%s: single payload write' % what, rel, w.lineno, 'payload writes: %s' % [P.src(c) for c in writes])
        # destination of the move is the entry / stamp path
        if moves:
            dst = P.src(moves[0].args[1])
            defs = [P.src(v) for t, v, st in P.stores_in(fn) if isinstance(t, ast.Name) and t.id == dst]
            exp = 'self._get_filename(filename)' if fn is store else 'os.path.join(self._directory, _CACHE_VERSION_FILENAME)'
            r1.check(defs == [exp], '%s: move destination' % what, rel, moves[0].lineno, 'destination %s = %s' % (dst, defs))
    # who may open for writing: every open()/os.open/fdopen in cachestore with a write mode must be fdopen of an mkstemp fd
    opens = []
    for n in ast.walk(m.tree):
        if isinstance(n, ast.Call) and P.call_name(n) in ('open', 'os.fdopen', 'io.open', 'os.open', 'gzip.open'):
            mode = 'r'
            if len(n.args) > 1:
                mode = py.try_fold(n.args[1], m, '?')
            for k in n.keywords:
                if k.arg == 'mode':
                    mode = py.try_fold(k.value, m, '?')
            fn = P.enclosing_function(n)
            opens.append((P.call_name(n), mode, fn.name if fn else '?', n.lineno))
    for nm, mode, fname, ln in opens:
        writing = any(ch in str(mode) for ch in 'wax+?')
        r1.check((not writing) or nm == 'os.fdopen', 'open mode in %s' % fname, rel, ln,
                 '%s(..., %r) in %s opens a cache file for writing in place (not via temp file + move)' % (nm, mode, fname),
                 detail='%s mode=%s' % (nm, mode))
    # nobody outside cachestore builds cache paths or touches the cache directory
    users = []
    for mod in py.all_modules():
        if mod.rel == rel:
            continue
        for n in ast.walk(mod.tree):
            if isinstance(n, ast.Attribute) and n.attr in ('_get_filename', '_directory', '_remove_filename', '_clean', '_cache_is_valid') \
                    and 'cachestore' in P.src(n.value).lower():
                users.append('%s:%d %s' % (mod.rel, n.lineno, P.src(n)))
    r1.check(not users, 'cache internals used only by CacheStore', rel, 1, 'cache internals used from outside: %s' % users,
             detail='no outside user')

    # --------------------------------------------------------------- R2 decide and read the same file; comparator
    r2 = ctx.rule('R2', 'freshness decided on the open file that is unpickled; full-resolution mtimes; older-than-source rejected', floor=6)
    # in load: fd = open(store_filename, 'rb'); with fd: valid(...) ; pickle.load(fd)
    opn = [(t, v, st) for t, v, st in P.stores_in(load) if isinstance(v, ast.Call) and P.call_name(v) == 'open']
    if len(opn) != 1 or not isinstance(opn[0][0], ast.Name):
        raise AnalysisError('load: `fd = open(...)` not found')
    fdn = opn[0][0].id
    pl = [c for c in P.calls_in(load) if P.call_name(c) == 'pickle.load']
    if len(pl) != 1:
        raise AnalysisError('load: pickle.load call not found')
    r2.check(P.src(pl[0].args[0]) == fdn, 'unpickles the opened file', rel, pl[0].lineno, 'pickle.load reads %s' % P.src(pl[0].args[0]))
    vcalls = [c for c in P.calls_in(load) if P.call_name(c) == 'self._cache_is_valid']
    if len(vcalls) != 1:
        raise AnalysisError('load: call to _cache_is_valid not found')
    vc = vcalls[0]
    cfg = pycfg.CFG(load)
    r2.check(cfg.dominates(cfg.node_of(vc), cfg.node_of(pl[0])), 'validity check before unpickling', rel, vc.lineno,
             'pickle.load is reachable without the freshness check')
    # the return None on invalid
    gs = [x for x in P.guards(pl[0]) if x.kind in ('if', 'early')]
    r2.check(any('_cache_is_valid' in x.text() and ((x.kind == 'early' and x.text().startswith('not (not')) or
                                                      (x.kind == 'if' and not x.text().startswith('not'))) for x in gs),
             'invalid entry not unpickled', rel, pl[0].lineno, 'guards of pickle.load: %s' % [x.text() for x in gs],
             detail=[x.text() for x in gs])
    first_arg = P.src(vc.args[0]) if vc.args else ''
    uses_fd = fdn in P.names_in(vc.args[0]) if vc.args else False
    # how does _cache_is_valid obtain the store mtime from its first parameter?
    vparams = [a.arg for a in valid.args.args if a.arg != 'self']
    stat_calls = [c for c in P.calls_in(valid) if P.call_name(c) in ('os.stat', 'os.fstat', 'os.path.getmtime', 'os.lstat')]
    store_stats = [c for c in stat_calls if c.args and P.src(c.args[0]) == vparams[0]]
    src_stats = [c for c in stat_calls if c.args and P.src(c.args[0]) == vparams[1]]
    r2.check(uses_fd and len(store_stats) == 1 and P.call_name(store_stats[0]) in ('os.stat', 'os.fstat'),
             'load: freshness of the open file, not of the path', rel, vc.lineno,
             'load() opens the entry and then decides freshness by stat()ing the PATH (%s): if another process renames a '
             'fresh entry into place between open() and stat(), the stale pickle that is already open is accepted '
             'and returned. The decision must be taken on the open descriptor (fstat).' % first_arg,
             detail={'validity argument': first_arg})
    # comparator
    rets = [n for n in P.walk_no_nested(valid) if isinstance(n, ast.Return)]
    cmp_ret = [n for n in rets if isinstance(n.value, ast.Compare)]
    ok = False
    full = False
    if len(cmp_ret) == 1:
        c = cmp_ret[0].value
        defs = P.local_defs(valid)

        def resolve(e):
            if isinstance(e, ast.Name) and e.id in defs and len(defs[e.id]) == 1 and defs[e.id][0] is not None:
                return defs[e.id][0]
            return e
        left, right = resolve(c.left), resolve(c.comparators[0])

        def side(e):
            # returns (which file, resolution)
            if isinstance(e, ast.Attribute) and e.attr in ('st_mtime', 'st_mtime_ns') and isinstance(e.value, ast.Call):
                which = P.src(e.value.args[0]) if e.value.args else '?'
                return which, e.attr
            if isinstance(e, ast.Call) and P.call_name(e) == 'os.path.getmtime':
                return P.src(e.args[0]), 'st_mtime'
            return P.src(e), 'other'
        (lw, lr), (rw, rr) = side(left), side(right)
        op = type(c.ops[0]).__name__
        if lw == vparams[0] and rw == vparams[1]:
            ok = op in ('GtE', 'Gt')
        elif lw == vparams[1] and rw == vparams[0]:
            ok = op in ('LtE', 'Lt')
        full = lr == rr and lr in ('st_mtime', 'st_mtime_ns')
        r2.check(ok, 'entry older than its source is invalid', rel, cmp_ret[0].lineno,
                 'validity is `%s`: does not require entry mtime >= source mtime' % P.src(c), detail=P.src(c))
        r2.check(full, 'full-resolution modification times', rel, cmp_ret[0].lineno,
                 'modification times are compared as %s / %s: anything coarser than st_mtime (e.g. stat()[ST_MTIME], int()) '
                 'accepts an entry written in the same second before the source changed' % (lr, rr), detail=[lr, rr])
    else:
        r2.fail('freshness comparison', rel, valid.lineno, 'no single mtime comparison returned by _cache_is_valid')
    others = [P.src(n.value) for n in rets if not isinstance(n.value, ast.Compare)]
    r2.check(others == ['False'], 'missing entry is invalid', rel, valid.lineno, 'other returns of _cache_is_valid: %s' % others)
    # no rounding wrappers around the mtimes
    for c in ast.walk(valid):
        if isinstance(c, ast.Call) and P.call_name(c) in ('int', 'round', 'math.floor', 'math.trunc'):
            r2.fail('full-resolution modification times', rel, c.lineno, 'mtime is rounded: %s' % P.src(c))

    # --------------------------------------------------------------- R3 failure discipline
    r3 = ctx.rule('R3', 'any unpickling failure discards the entry; missing entry -> None; removal tolerates ENOENT/EACCES', floor=5)
    tr = None
    n = P.parent(pl[0])
    while n is not None and n is not load:
        if isinstance(n, ast.Try) and any(pl[0] is x for b in n.body for x in ast.walk(b)):
            tr = n
            break
        n = P.parent(n)
    if tr is None:
        r3.fail('pickle.load guarded', rel, pl[0].lineno, 'pickle.load is not inside try/except: a broken entry raises')
    else:
        types = [t for h in tr.handlers for t in handler_types(h, m, py)]
        r3.check(any(t in ('Exception', 'BaseException', '<bare>') for t in types), 'pickle.load guarded by except Exception', rel, tr.lineno,
                 'unpickling is guarded only by %s: a damaged entry can raise anything (AttributeError, ImportError, '
                 'UnicodeDecodeError, ValueError, IndexError ...), so a narrower handler lets corrupt entries abort the scan' % types,
                 detail=types)
        for h in tr.handlers:
            body = [P.src(s) for s in h.body]
            rmv = any(s.startswith('self._remove_filename(') for s in body)
            none = any(s.endswith('= None') or s in ('return None', 'return') for s in body)
            r3.check(rmv and none, 'broken entry removed and ignored', rel, h.lineno, 'handler body: %s' % body)
    # open failure
    otry = [n for n in P.walk_no_nested(load) if isinstance(n, ast.Try) and any(opn[0][2] is s for s in n.body)]
    ok = False
    if otry:
        for h in otry[0].handlers:
            for s in ast.walk(h):
                if isinstance(s, ast.Return) and any('errno.ENOENT' in x.text() for x in P.guards(s)):
                    ok = P.src(s.value) in ('None',) if s.value is not None else True
    r3.check(ok, 'missing entry -> None', rel, load.lineno, 'open() failing with ENOENT does not make load return None')
    # _remove_filename tolerance
    tol = set()
    for n in ast.walk(rm):
        if isinstance(n, ast.Compare) and 'errno' in P.src(n):
            for a in ast.walk(n):
                if isinstance(a, ast.Attribute) and P.src(a).startswith('errno.'):
                    tol.add(a.attr)
    r3.check({'ENOENT', 'EACCES'} <= tol, 'removal tolerates concurrent removal / read-only dir', rel, rm.lineno,
             '_remove_filename tolerates only %s' % sorted(tol), detail=sorted(tol))
    # load's data is returned as read
    lrets = [P.src(n.value) if n.value is not None else 'None' for n in P.walk_no_nested(load) if isinstance(n, ast.Return)]
    dvar = [t.id for t, v, st in P.stores_in(load) if v is pl[0] and isinstance(t, ast.Name)]
    r3.check(dvar and set(lrets) <= {'None', dvar[0]}, 'load returns the unpickled object or None', rel, load.lineno, 'returns: %s' % lrets)

    # --------------------------------------------------------------- R4 version change purges
    r4 = ctx.rule('R4', 'scanner version change: purge dominates publishing the new stamp; purge removes everything but the stamp', floor=5)
    cfg = pycfg.CFG(ccv)
    cl = [c for c in P.calls_in(ccv) if P.call_name(c) == 'self._clean']
    mv = [c for c in P.calls_in(ccv) if P.call_name(c) in ('shutil.move', 'os.rename', 'os.replace')]
    if len(cl) != 1 or len(mv) != 1:
        raise AnalysisError('_check_cache_version: expected one self._clean() and one move')
    r4.check(cfg.dominates(cfg.node_of(cl[0]), cfg.node_of(mv[0])) and not cfg.reaches(cfg.node_of(mv[0]), cfg.node_of(cl[0])),
             'purge before new stamp', rel, cl[0].lineno,
             'the new version stamp can be published before (or without) purging old entries: a crash or a concurrent '
             'scanner between the two leaves old-version entries behind a matching stamp')
    gs = [x.text() for x in P.guards(cl[0]) if x.kind in ('if', 'early')]
    r4.check(sorted(gs) == sorted(['not (self._directory is None)', 'not (current_hash == cache_hash)']), 'purge on every mismatch', rel,
             cl[0].lineno, 'purge is conditional on %s' % gs, detail=gs)
    # hash read failure semantic: ENOENT -> mismatch
    ch = [P.src(v) for t, v, st in P.stores_in(ccv) if isinstance(t, ast.Name) and t.id == 'cache_hash']
    r4.check('version_file.read()' in ch and len(ch) == 2, 'stored stamp compared as read', rel, ccv.lineno, 'cache_hash = %s' % ch)
    cur = [P.src(v) for t, v, st in P.stores_in(ccv) if isinstance(t, ast.Name) and t.id == 'current_hash']
    wr = [P.src(c) for c in P.calls_in(ccv) if isinstance(c.func, ast.Attribute) and c.func.attr == 'write']
    r4.check(cur == ['_get_versionhash()'] and wr == ['tmp_file.write(current_hash)'], 'stamp written = stamp compared', rel, ccv.lineno,
             'current=%s written=%s' % (cur, wr))
    # _clean
    loops = [n for n in P.walk_no_nested(clean) if isinstance(n, ast.For)]
    ok = len(loops) == 1 and P.src(loops[0].iter) == 'os.listdir(self._directory)'
    if ok:
        lp = loops[0]
        conts = [n for n in ast.walk(lp) if isinstance(n, (ast.Continue, ast.Break, ast.Return))]
        okc = len(conts) == 1 and [x.text() for x in P.guards(conts[0], stop=lp) if x.kind == 'if'] == ['%s == _CACHE_VERSION_FILENAME' % lp.target.id]
        rmc = [c for c in ast.walk(lp) if isinstance(c, ast.Call) and P.call_name(c) == 'self._remove_filename']
        ok = okc and len(rmc) == 1 and P.src(rmc[0].args[0]) == 'os.path.join(self._directory, %s)' % lp.target.id
    r4.check(ok, 'purge removes every entry except the stamp', rel, clean.lineno, '_clean does not remove every file but the version stamp')
    init = py.func('cachestore', 'CacheStore.__init__')
    r4.check([P.src(s) for s in init.body][-1] == 'self._check_cache_version()', 'version checked on construction', rel, init.lineno,
             'CacheStore.__init__ does not end with the version check')
    # version hash covers the scanner sources
    vh = py.func('cachestore', '_get_versionhash')
    t = P.src(vh)
    r4.check("glob.glob(os.path.join(toplevel, '*.py'))" in t and 'os.path.dirname(giscanner.__file__)' in t and 'st_mtime' in t,
             'version hash covers giscanner/*.py', rel, vh.lineno, 'version hash no longer derived from the scanner sources')

    # --------------------------------------------------------------- R5 transparency at the call site
    r5 = ctx.rule('R5', 'cache hit/miss controls only parse+store; cache bypassed when parse mode differs', floor=4)
    tm = py.mod('transformer')
    pi = py.func('transformer', 'Transformer._parse_include')
    ld = [c for c in P.calls_in(pi) if isinstance(c.func, ast.Attribute) and c.func.attr == 'load' and 'cachestore' in P.src(c.func)]
    stc = [c for c in P.calls_in(pi) if isinstance(c.func, ast.Attribute) and c.func.attr == 'store' and 'cachestore' in P.src(c.func)]
    if len(ld) != 1 or len(stc) != 1:
        raise AnalysisError('_parse_include: cache load/store calls not found')
    lst = P.enclosing_stmt(ld[0])
    pv = lst.targets[0].id if isinstance(lst, ast.Assign) and isinstance(lst.targets[0], ast.Name) else None
    r5.check(pv is not None and P.src(ld[0].args[0]) == P.src(stc[0].args[0]) == pi.args.args[1].arg, 'load/store keyed by the same file', tm.rel,
             lst.lineno, 'load(%s) / store(%s)' % (P.src(ld[0].args[0]), P.src(stc[0].args[0])))
    r5.check(P.src(stc[0].args[1]) == pv, 'stored object is the freshly parsed one', tm.rel, stc[0].lineno, 'store(..., %s)' % P.src(stc[0].args[1]))
    # statements control dependent on `<pv> is None`
    dep = []
    for n in P.walk_no_nested(pi):
        if isinstance(n, ast.stmt) and not isinstance(n, (ast.If, ast.For, ast.While, ast.Try, ast.With)):
            if any(x.kind in ('if', 'early') and '%s is None' % pv in x.text() for x in P.guards(n)):
                dep.append(n)
    texts = [P.src(s) for s in dep]
    allowed = lambda s: s.startswith('%s = GIRParser(' % pv) or s == '%s.parse(%s)' % (pv, pi.args.args[1].arg) or s.startswith('self._cachestore.store(')
    r5.check(dep and all(allowed(s) for s in texts) and any(s.startswith('%s = GIRParser(' % pv) for s in texts) and
             any(s == '%s.parse(%s)' % (pv, pi.args.args[1].arg) for s in texts), 'only parse+store depend on hit/miss', tm.rel, pi.lineno,
             'statements depending on cache hit/miss: %s' % texts, detail=texts)
    # parse mode vs cache: GIRParser(types_only=<expr over self._passthrough_mode>): entries do not record the mode, so every
    # place that flips the mode of a transformer that emits GIR must also disable the cache
    mode_dep = [c for c in P.calls_in(pi) if P.call_name(c) == 'GIRParser' and any('_passthrough_mode' in P.src(k.value) for k in c.keywords)]
    sm = py.mod('scannermain')
    flips = []
    for n in ast.walk(sm.tree):
        if isinstance(n, ast.Call) and isinstance(n.func, ast.Attribute) and n.func.attr == 'set_passthrough_mode':
            st = P.enclosing_stmt(n)
            blk = P.block_of(st)
            sibs = [P.src(s) for s in blk[2]] if blk else []
            recv = P.src(n.func.value)
            flips.append((n.lineno, '%s.disable_cache()' % recv in sibs))
    if mode_dep:
        r5.check(flips and all(ok for ln, ok in flips), 'mode flip disables the cache', sm.rel, flips[0][0] if flips else 1,
                 'scannermain switches the transformer to passthrough (full) parsing without disabling the cache, whose entries '
                 'were stored by types-only parses under the same key', detail=flips)
    else:
        r5.ok('parse mode independent of transformer state', tm.rel, pi.lineno)
