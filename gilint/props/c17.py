"""C17 — requiring a namespace loads the right typelib version and its dependencies."""
import itertools
import re

from ..core import AnalysisError
from .. import cfront as C

EXPLANATION = ('clang AST of girepository/girepository.c (and girmodule.c for the producer side of the dependency '
               'string): the two comparators are evaluated over EVERY ordering of their operands (finite: 3x3) and '
               'must be lexicographic major.minor / newer-first-then-earlier-directory, deciding by comparisons only; '
               'the acceptance guards in require_internal dominate the success assignment; search-path walks are '
               'forward and stop at the first hit, prepend is unconditional, duplicates of a version keep the first '
               'directory; every recorded dependency is required unconditionally at its recorded version (split at the '
               'last dash), with the separator the compiler writes.')

REL = 'girepository/girepository.c'


def nospace(s):
    return re.sub(r'\s+', '', s or '')


class Orderings(object):
    """evaluate comparison-only C code under a fixed ordering of symbolic integer operands"""
    def __init__(self, tu, rel):
        self.tu = tu
        self.rel = rel      # {(a, b): '<' | '=' | '>'}

    def operand(self, n):
        n = C.strip(n)
        v = C.int_value(n)
        if v is not None:
            return ('int', v)
        p = C.member_path(n)
        if p is not None:
            return ('sym', p)
        return None

    def cmp(self, a, b):
        if a[0] == 'int' and b[0] == 'int':
            return '<' if a[1] < b[1] else ('>' if a[1] > b[1] else '=')
        if (a[1], b[1]) in self.rel:
            return self.rel[(a[1], b[1])]
        if (b[1], a[1]) in self.rel:
            return {'<': '>', '>': '<', '=': '='}[self.rel[(b[1], a[1])]]
        raise AnalysisError('comparison between %s and %s is outside the abstract domain' % (a[1], b[1]))

    def cond(self, n):
        n = C.strip(n)
        k = n.get('kind')
        if k == 'BinaryOperator':
            op = n.get('opcode')
            l, r = C.kids(n)
            if op in ('&&', '||'):
                a = self.cond(l)
                if op == '&&':
                    return a and self.cond(r)
                return a or self.cond(r)
            if op in ('<', '>', '<=', '>=', '==', '!='):
                a, b = self.operand(l), self.operand(r)
                if a is None or b is None:
                    raise AnalysisError('condition %s is not a comparison of plain operands' % self.tu.text_of(n))
                c = self.cmp(a, b)
                return {'<': c == '<', '>': c == '>', '<=': c in '<=', '>=': c in '>=', '==': c == '=', '!=': c != '='}[op]
        if k == 'UnaryOperator' and n.get('opcode') == '!':
            return not self.cond(C.kids(n)[0])
        raise AnalysisError('unsupported condition %s' % self.tu.text_of(n))

    def run(self, stmt):
        """returns ('return', node) or None (fell through)"""
        k = stmt.get('kind')
        if k == 'CompoundStmt':
            for s in C.kids(stmt):
                r = self.run(s)
                if r is not None:
                    return r
            return None
        if k == 'IfStmt':
            ch = C.kids(stmt)
            if self.cond(ch[0]):
                return self.run(ch[1])
            if len(ch) > 2:
                return self.run(ch[2])
            return None
        if k == 'ReturnStmt':
            return ('return', C.kids(stmt)[0] if C.kids(stmt) else None)
        if k in ('DeclStmt', 'NullStmt'):
            return None
        if k == 'BinaryOperator' and stmt.get('opcode') == '=':
            return None
        if k == 'CallExpr':
            return None        # g_assert (success) etc.
        if k in ('ParenExpr', 'ImplicitCastExpr', 'CStyleCastExpr', 'ConditionalOperator', 'DoStmt'):
            return None
        raise AnalysisError('unsupported statement kind %s in comparator' % k)


def sign(c):
    return {'<': -1, '=': 0, '>': 1}[c]


def check(ctx):
    tu = ctx.c.tu(REL)

    # ------------------------------------------------------------------ R1 comparators, exhaustively
    r1 = ctx.rule('R1', 'comparators over every ordering of their operands: lexicographic / newer first then earlier directory', floor=20)
    f = tu.func('compare_version')
    body = tu.body(f)
    # operands are the locals filled by parse_version(vN, &vN_major, &vN_minor)
    pv = C.calls(body, 'parse_version')
    names = []
    for c in pv:
        a = C.call_args(c)
        if len(a) != 3:
            raise AnalysisError('parse_version call shape')
        vs = C.declref(a[0])
        outs = []
        for x in a[1:]:
            x = C.strip(x)
            if x.get('kind') != 'UnaryOperator' or x.get('opcode') != '&':
                raise AnalysisError('parse_version out-argument shape')
            outs.append(C.declref(C.kids(x)[0]))
        names.append((vs, outs[0], outs[1]))
    params = [p['name'] for p in tu.params(f)]
    if len(names) != 2 or [n[0] for n in names] != params:
        raise AnalysisError('compare_version: expected parse_version (v1, ...) and parse_version (v2, ...)')
    (_, maj1, min1), (_, maj2, min2) = names
    rets = [n for n in C.walk(body) if n.get('kind') == 'ReturnStmt']
    nonconst = [tu.text_of(n) for n in rets if C.int_value(C.kids(n)[0]) is None]
    r1.check(not nonconst, 'compare_version decides by comparisons only', REL, tu.line(f),
             'compare_version computes its result arithmetically (%s): the result is not the lexicographic order of (major, minor) '
             '— e.g. 1.12 vs 2.0 — and can overflow' % nonconst, detail='all returns are integer constants')
    if not nonconst:
        for a, b in itertools.product('<=>', repeat=2):
            o = Orderings(tu, {(maj1, maj2): a, (min1, min2): b})
            res = o.run(body)
            got = C.int_value(res[1]) if res else None
            exp = sign(a) if a != '=' else sign(b)
            r1.check(got is not None and (got > 0) - (got < 0) == exp, 'compare_version major%smajor minor%sminor' % (a, b), REL, tu.line(f),
                     'compare_version returns %s when v1.major %s v2.major and v1.minor %s v2.minor (expected sign %d): versions are '
                     'not ordered numerically by major then minor' % (got, a, b, exp), detail={'returns': got})
    # parse_version rejects trailing garbage
    pf = tu.func('parse_version')
    falses = []
    for n in C.walk(tu.body(pf)):
        if n.get('kind') == 'ReturnStmt' and C.kids(n) and (C.int_value(C.kids(n)[0]) == 0):
            g = C.guards(tu, n)
            falses.append(nospace(' && '.join(('' if pol else '!') + '(' + tu.text_of(c) + ')' for c, pol, o in g)))
    r1.check(any('dot!=end' in x for x in falses) and any('end!=(version+strlen(version))' in x for x in falses), 'parse_version rejects garbage', REL,
             tu.line(pf), 'parse_version no longer rejects text between the major number and the dot / after the minor number: %s' % falses,
             detail=falses)
    # compare_candidate_reverse
    g = tu.func('compare_candidate_reverse')
    gb = tu.body(g)
    p1, p2 = [p['name'] for p in tu.params(g)]
    inits = [(d.get('name'), C.kids(d)) for ds in C.walk(gb) if ds.get('kind') == 'DeclStmt' for d in C.kids(ds) if d.get('kind') == 'VarDecl']
    resvar = None
    for name, ch in inits:
        if ch and C.callee(C.strip(ch[0])) == 'compare_version':
            args = [C.member_path(a) for a in C.call_args(C.strip(ch[0]))]
            if args == ['%s->version' % p1, '%s->version' % p2]:
                resvar = name
    r1.check(resvar is not None, 'candidate order starts from compare_version (c1->version, c2->version)', REL, tu.line(g),
             'compare_candidate_reverse does not compare the two versions in argument order')
    rets = [n for n in C.walk(gb) if n.get('kind') == 'ReturnStmt']
    nonconst = [tu.text_of(n) for n in rets if C.int_value(C.kids(n)[0]) is None]
    r1.check(not nonconst, 'compare_candidate_reverse decides by comparisons only', REL, tu.line(g), 'non-constant returns: %s' % nonconst)
    if resvar and not nonconst:
        pi1, pi2 = '%s->path_index' % p1, '%s->path_index' % p2
        for a, b in itertools.product('<=>', repeat=2):
            o = Orderings(tu, {(resvar, '0'): a, (pi1, pi2): b})
            # integer literal 0 is handled as ('int', 0): map the symbolic result against it
            o.rel = {(pi1, pi2): b}
            o_cmp = o.cmp

            def cmp(x, y, a=a, o_cmp=o_cmp):
                if x == ('sym', resvar) and y == ('int', 0):
                    return a
                if y == ('sym', resvar) and x == ('int', 0):
                    return {'<': '>', '>': '<', '=': '='}[a]
                return o_cmp(x, y)
            o.cmp = cmp
            res = o.run(gb)
            got = C.int_value(res[1]) if res else None
            exp = -sign(a) if a != '=' else sign(b)
            r1.check(got is not None and (got > 0) - (got < 0) == exp, 'compare_candidate_reverse version%s path_index%s' % (a, b), REL, tu.line(g),
                     'candidate with version %s the other and directory index %s the other sorts %s (expected %d): the elected typelib is not '
                     'the newest version / the earliest directory among equals' % (a, b, got, exp), detail={'returns': got})
    r1.exhaustive = True
    # election: sort with compare_candidate_reverse and take the head
    fl = tu.func('find_namespace_latest')
    srt = C.calls(fl, 'g_slist_sort')
    ok = len(srt) == 1 and C.declref(C.call_args(srt[0])[1]) == 'compare_candidate_reverse'
    el = [(l, r) for l, r, st in C.assignments(tu.body(fl)) if C.declref(l) == 'elected']
    ok = ok and len(el) == 1 and nospace(tu.text_of(el[0][1])).endswith('candidates->data')
    r1.check(ok, 'latest = head of the list sorted by compare_candidate_reverse', REL, tu.line(fl), 'find_namespace_latest no longer elects the head of the sorted candidates')

    # ------------------------------------------------------------------ R2 acceptance guards
    r2 = ctx.rule('R2', 'require_internal: success only after namespace, version and registration checks; error codes', floor=6)
    rq = tu.func('require_internal')
    rb = tu.body(rq)
    succ = [(l, r, st) for l, r, st in C.assignments(rb) if C.declref(l) == 'ret' and C.declref(r) == 'typelib']
    if len(succ) != 1:
        raise AnalysisError('require_internal: `ret = typelib` not found exactly once')
    gs = [(nospace(tu.text_of(c)), pol) for c, pol, o in C.guards(tu, succ[0][2])]
    need = {
        'file found': ('mfile==NULL', False),
        'typelib loaded from the mapped file': ('!typelib', False),
        'namespace in the file equals the requested one': ('strcmp(typelib_namespace,namespace)!=0', False),
        'version in the file equals the requested one': ('version!=NULL&&strcmp(typelib_version,version)!=0', False),
        'registration (incl. dependencies) succeeded': ('!register_internal(repository,path,allow_lazy,typelib,error)', False),
    }
    for what, (txt, pol) in need.items():
        r2.check((txt, pol) in gs, what, REL, tu.line(succ[0][2]),
                 'require_internal can return the typelib without the check "%s" (guards on the success path: %s)' % (what, [g for g, p in gs]),
                 detail=txt)
    # return value is `ret` at the single exit label and NULL-initialised
    errs = {}
    for c in C.calls(rb, 'g_set_error'):
        a = C.call_args(c)
        code = C.declref(a[2])
        conds = [nospace(tu.text_of(x)) + ('' if pol else '=F') for x, pol, o in C.guards(tu, c)]
        errs.setdefault(code, []).append(conds)
    r2.check(any('version_conflict!=NULL' in ' '.join(c) for c in errs.get('G_IREPOSITORY_ERROR_NAMESPACE_VERSION_CONFLICT', [])), 'version conflict error', REL,
             tu.line(rq), 'no NAMESPACE_VERSION_CONFLICT error under version_conflict != NULL: %s' % sorted(errs))
    r2.check(any('mfile==NULL' in ' '.join(c) for c in errs.get('G_IREPOSITORY_ERROR_TYPELIB_NOT_FOUND', [])), 'not-found error', REL, tu.line(rq),
             'no TYPELIB_NOT_FOUND error when no file was found')
    r2.check(len(errs.get('G_IREPOSITORY_ERROR_NAMESPACE_MISMATCH', [])) == 2, 'mismatch errors', REL, tu.line(rq), 'NAMESPACE_MISMATCH errors: %s' % errs.get('G_IREPOSITORY_ERROR_NAMESPACE_MISMATCH'))
    # already registered: returned as is; conflict -> NULL
    cv = tu.func('check_version_conflict')
    nulls = []
    for n in C.walk(tu.body(cv)):
        if n.get('kind') == 'ReturnStmt':
            v = C.strip(C.kids(n)[0])
            txt = nospace(tu.text_of(C.kids(n)[0]))
            gg = [nospace(tu.text_of(c)) for c, pol, o in C.guards(tu, n) if pol]
            nulls.append((txt, gg))
    r2.check(any(t in ('NULL', '((void*)0)') and any('strcmp(expected_version,loaded_version)!=0' in x for x in g_) for t, g_ in nulls), 'loaded version differs -> NULL', REL,
             tu.line(cv), 'check_version_conflict: %s' % nulls)
    # exact-version file name
    fv = tu.func('find_namespace_version')
    fmt = [C.string_value(C.call_args(c)[0]) for c in C.calls(fv, 'g_strdup_printf')]
    r2.check('%s-%s.typelib' in fmt, 'file name <Namespace>-<version>.typelib', REL, tu.line(fv), 'file name formats: %s' % fmt, detail=fmt)

    # ------------------------------------------------------------------ R3 search order
    r3 = ctx.rule('R3', 'search path walked forward, first hit wins; prepend unconditional; first directory wins among equal versions', floor=6)
    for fn in ('find_namespace_version', 'enumerate_namespace_versions'):
        f_ = tu.func(fn)
        loops = [n for n in C.walk(tu.body(f_)) if n.get('kind') == 'ForStmt']
        hdr = [nospace(tu.text_of(n)).split(')')[0] for n in loops]
        r3.check(any(h.startswith('for(ldir=search_path;ldir;ldir=ldir->next') for h in hdr), '%s walks search_path front to back' % fn, REL, tu.line(f_),
                 'loop headers: %s' % hdr)
    # first hit: break after *path_ret = path
    loops = [n for n in C.walk(tu.body(fv)) if n.get('kind') == 'ForStmt']
    lb = C.kids(loops[0])[-1]
    tail = [s.get('kind') for s in C.kids(lb)][-2:]
    r3.check(tail[-1] == 'BreakStmt', 'first directory that has the file wins', REL, tu.line(loops[0]), 'loop body does not end with break: %s' % tail)
    pp = tu.func('g_irepository_prepend_search_path')
    pre = [(l, r, st) for l, r, st in C.assignments(tu.body(pp)) if C.declref(l) == 'typelib_search_path']
    ok = len(pre) == 1 and C.callee(C.strip(pre[0][1])) == 'g_slist_prepend' and not C.guards(tu, pre[0][2]) \
        and not [n for n in C.walk(tu.body(pp)) if n.get('kind') in ('ReturnStmt', 'IfStmt', 'GotoStmt')]
    r3.check(ok, 'prepend is unconditional', REL, tu.line(pp),
             'g_irepository_prepend_search_path does not always put the directory in front: a directory prepended later must take '
             'precedence even when it already is somewhere on the path')
    if pre:
        a = C.call_args(C.strip(pre[0][1]))
        r3.check(C.declref(a[0]) == 'typelib_search_path' and 'directory' in tu.text_of(a[1]), 'prepends the given directory', REL, tu.line(pp), 'prepend args changed')
    en = tu.func('enumerate_namespace_versions')
    eb = tu.body(en)
    # version already found -> skipped before a candidate is created; index assigned from the directory counter
    lk = C.calls(eb, 'g_hash_table_lookup')
    okd = False
    for c in lk:
        if C.declref(C.call_args(c)[0]) == 'found_versions':
            # the enclosing if's then-branch must `continue`
            for a in tu.ancestors(c):
                if a.get('kind') == 'IfStmt':
                    okd = C.always_exits(C.kids(a)[1]) and any(x.get('kind') == 'ContinueStmt' for x in C.walk(C.kids(a)[1]))
                    break
    r3.check(okd, 'a version already found in an earlier directory is skipped', REL, tu.line(en), 'duplicate versions are no longer skipped')
    idx = [(C.member_path(l), C.declref(r)) for l, r, st in C.assignments(eb) if (C.member_path(l) or '').endswith('->path_index')]
    incs = [n for n in C.walk(eb) if n.get('kind') == 'UnaryOperator' and n.get('opcode') == '++' and C.declref(C.kids(n)[0]) == 'index']
    okx = idx == [('candidate->path_index', 'index')] and len(incs) == 1
    if okx:
        # the increment is a direct statement of the directory loop body
        p = tu.par(incs[0])
        while p is not None and p.get('kind') != 'CompoundStmt':
            p = tu.par(p)
        okx = p is not None and tu.par(p).get('kind') == 'ForStmt'
    r3.check(okx, 'candidates are numbered by directory in walk order', REL, tu.line(en), 'path_index bookkeeping changed: %s' % idx)
    # init_globals: GI_TYPELIB_PATH entries precede the default dir (prepend + final reverse)
    ig = tu.func('init_globals')
    seq = [C.callee(c) for c in C.calls(tu.body(ig)) if C.callee(c) in ('g_slist_prepend', 'g_slist_reverse', 'g_slist_append')]
    r3.check(seq == ['g_slist_prepend', 'g_slist_prepend', 'g_slist_reverse'], 'environment directories precede the default directory', REL, tu.line(ig), 'list ops: %s' % seq, detail=seq)

    # ------------------------------------------------------------------ R4 dependencies at the recorded version
    r4 = ctx.rule('R4', 'every recorded dependency is required unconditionally at its recorded version; separator agreement', floor=6)
    ld = tu.func('load_dependencies_recurse')
    lb = tu.body(ld)
    req = C.calls(lb, ('g_irepository_require', 'require_internal'))
    if len(req) != 1:
        raise AnalysisError('load_dependencies_recurse: expected one require call')
    loops = [n for n in C.walk(lb) if n.get('kind') == 'ForStmt']
    if len(loops) != 1:
        raise AnalysisError('load_dependencies_recurse: expected one loop over the dependencies')
    loop_body = C.kids(loops[0])[-1]
    gs = C.guards(tu, req[0], stop=loops[0])
    early = [n for n in C.walk(loop_body) if n.get('kind') in ('ContinueStmt', 'BreakStmt')]
    # the call is the condition of `if (!require(...))`: the call itself must not be control dependent on anything inside the loop
    dep_guards = [tu.text_of(c) for c, pol, o in gs if not any(x is req[0] for x in C.walk(c))]
    r4.check(not dep_guards and not early, 'every dependency is required', REL, tu.line(req[0]),
             'inside the dependency loop the require call is skipped under %s%s: a dependency recorded at one version is not checked against '
             'an already loaded different version' % (dep_guards, ' / continue' if early else ''))
    a = C.call_args(req[0])
    r4.check(C.declref(a[1]) == 'dependency_namespace' and C.declref(a[2]) == 'dependency_version', 'required with recorded namespace and version', REL,
             tu.line(req[0]), 'require arguments: %s' % [tu.text_of(x) for x in a[:3]])
    asg = {C.declref(l): nospace(tu.text_of(r)) for l, r, st in C.assignments(lb) if C.declref(l)}
    r4.check(asg.get('last_dash') == "strrchr(dependency,'-')" and asg.get('dependency_version') == 'last_dash+1' and
             asg.get('dependency_namespace') == 'g_strndup(dependency,last_dash-dependency)', 'entry split at the last dash', REL, tu.line(ld),
             'dependency entries are not split at the LAST dash (namespaces may contain dashes): %s' % asg, detail=asg)
    # failure propagates: return FALSE inside if (!require)
    fails = [n for n in C.walk(loop_body) if n.get('kind') == 'ReturnStmt' and C.int_value(C.kids(n)[0]) == 0]
    r4.check(len(fails) == 1, 'failed dependency fails the load', REL, tu.line(ld), 'no `return FALSE` when a dependency cannot be required')
    ri = tu.func('register_internal')
    rib = tu.body(ri)
    ldc = C.calls(rib, 'load_dependencies_recurse')
    ins = [c for c in C.calls(rib, 'g_hash_table_insert') if 'priv->typelibs' in nospace(tu.text_of(C.call_args(c)[0]))]
    ok = len(ldc) == 1 and len(ins) == 1
    if ok:
        gi = [nospace(tu.text_of(c)) for c, pol, o in C.guards(tu, ins[0]) if not pol]
        ok = any('!load_dependencies_recurse(' in x for x in gi)
    r4.check(ok, 'typelib registered only after its dependencies loaded', REL, tu.line(ri), 'registration no longer depends on load_dependencies_recurse succeeding')
    # separator agreement with the compiler
    gd = tu.func('get_typelib_dependencies')
    sep = [C.string_value(C.call_args(c)[1]) for c in C.calls(gd, 'g_strsplit')]
    mt = ctx.c.tu('girepository/girmodule.c')
    mb = mt.func('_g_ir_module_build_typelib')
    wsep = None
    for c in C.calls(mb, ('g_string_append_c', 'g_string_append')):
        a = C.call_args(c)
        if C.declref(a[0]) == 'dependencies_glob' or 'dependencies' in (C.declref(a[0]) or ''):
            s = C.strip(a[1])
            if s.get('kind') == 'CharacterLiteral':
                wsep = chr(s.get('value'))
            elif C.string_value(s) is not None and len(C.string_value(s)) == 1:
                wsep = C.string_value(s)
    if wsep is None:
        # g_strjoinv ("|", dependencies)
        for c in C.calls(mb, 'g_strjoinv'):
            wsep = C.string_value(C.call_args(c)[0])
    r4.check(sep == [wsep] and wsep is not None, 'dependency separator: compiler writes what the loader splits on', REL, tu.line(gd),
             'loader splits the dependency string on %s but the compiler joins with %r' % (sep, wsep), detail={'split': sep, 'join': wsep})
