"""C17 — requiring a namespace loads the right typelib version and its dependencies."""
import itertools
import re

from ..core import AnalysisError
from .. import cfront as C
from .. import cgsa, gsa

EXPLANATION = ('clang AST of girepository/girepository.c (and girmodule.c for the producer side of the dependency '
               'string): the two comparators are evaluated over EVERY ordering of their operands (finite: 3x3) and '
               'must be lexicographic major.minor / newer-first-then-earlier-directory, deciding by comparisons only; '
               'the acceptance guards in require_internal dominate the success assignment; search-path walks are '
               'forward and stop at the first hit, prepend is unconditional, duplicates of a version keep the first '
               'directory; every recorded dependency is required unconditionally at its recorded version (split at the '
               'last dash), with the separator the compiler writes.')

REL = 'girepository/girepository.c'


def nospace(s):
    return re.sub(r'\s+', '', s or '')


class Orderings(object):
    """evaluate comparison-only C code under a fixed ordering of symbolic integer operands"""
    def __init__(self, tu, rel):
        self.tu = tu
        self.rel = rel      # {(a, b): '<' | '=' | '>'}

    def operand(self, n):
        n = C.strip(n)
        v = C.int_value(n)
        if v is not None:
            return ('int', v)
        p = C.member_path(n)
        if p is not None:
            return ('sym', p)
        return None

    def cmp(self, a, b):
        if a[0] == 'int' and b[0] == 'int':
            return '<' if a[1] < b[1] else ('>' if a[1] > b[1] else '=')
        if (a[1], b[1]) in self.rel:
            return self.rel[(a[1], b[1])]
        if (b[1], a[1]) in self.rel:
            return {'<': '>', '>': '<', '=': '='}[self.rel[(b[1], a[1])]]
        raise AnalysisError('comparison between %s and %s is outside the abstract domain' % (a[1], b[1]))

    def cond(self, n):
        n = C.strip(n)
        k = n.get('kind')
        if k == 'BinaryOperator':
            op = n.get('opcode')
            l, r = C.kids(n)
            if op in ('&&', '||'):
                a = self.cond(l)
                if op == '&&':
                    return a and self.cond(r)
                return a or self.cond(r)
            if op in ('<', '>', '<=', '>=', '==', '!='):
                a, b = self.operand(l), self.operand(r)
                if a is None or b is None:
                    raise AnalysisError('condition %s is not a comparison of plain operands' % self.tu.text_of(n))
                c = self.cmp(a, b)
                return {'<': c == '<', '>': c == '>', '<=': c in '<=', '>=': c in '>=', '==': c == '=', '!=': c != '='}[op]
        if k == 'UnaryOperator' and n.get('opcode') == '!':
            return not self.cond(C.kids(n)[0])
        raise AnalysisError('unsupported condition %s' % self.tu.text_of(n))

    def run(self, stmt):
        """returns ('return', node) or None (fell through)"""
        k = stmt.get('kind')
        if k == 'CompoundStmt':
            for s in C.kids(stmt):
                r = self.run(s)
                if r is not None:
                    return r
            return None
        if k == 'IfStmt':
            ch = C.kids(stmt)
            if self.cond(ch[0]):
                return self.run(ch[1])
            if len(ch) > 2:
                return self.run(ch[2])
            return None
        if k == 'ReturnStmt':
            return ('return', C.kids(stmt)[0] if C.kids(stmt) else None)
        if k in ('DeclStmt', 'NullStmt'):
            return None
        if k == 'BinaryOperator' and stmt.get('opcode') == '=':
            return None
        if k == 'CallExpr':
            return None        # g_assert (success) etc.
        if k in ('ParenExpr', 'ImplicitCastExpr', 'CStyleCastExpr', 'ConditionalOperator', 'DoStmt'):
            return None
        raise AnalysisError('unsupported statement kind %s in comparator' % k)


def sign(c):
    return {'<': -1, '=': 0, '>': 1}[c]


def check(ctx):
    tu = ctx.c.tu(REL)

    # ------------------------------------------------------------------ R1 comparators, exhaustively
    r1 = ctx.rule('R1', 'comparators over every ordering of their operands: lexicographic / newer first then earlier directory', floor=20)
    f = tu.func('compare_version')
    CVS = cgsa.summarise(ctx, REL, 'compare_version', opaque=('parse_version',))
    pvc = [e for e in CVS.effects if e.kind == 'call' and e.target == 'parse_version']
    params = [p['name'] for p in tu.params(f)]
    if len(pvc) != 2 or [e.args[0] for e in pvc] != params or not all(len(e.args) == 3 and e.args[1].startswith('&') and e.args[2].startswith('&') for e in pvc):
        raise AnalysisError('compare_version: expected parse_version (v1, &major, &minor) and parse_version (v2, &major, &minor)')
    (maj1, min1), (maj2, min2) = [(e.args[1][1:], e.args[2][1:]) for e in pvc]
    rets = [e for e in CVS.effects if e.kind == 'return']
    nonconst = [e.value for e in rets if not re.match(r'^-?\d+$', e.value)]
    r1.check(not nonconst, 'compare_version decides by comparisons only', REL, tu.line(f),
             'compare_version computes its result arithmetically (%s): the result is not the lexicographic order of (major, minor) '
             '— e.g. 1.12 vs 2.0 — and can overflow' % nonconst, detail='all returns are integer constants')

    def order_val(S, rel):
        """truth values of the comparison atoms of S under {(x, y): '<' | '=' | '>'}"""
        val = {}
        for a_ in S.atoms():
            mm = re.match(r'^(\S+) (<|==) (\S+)$', a_)
            if not mm:
                continue
            x, op, y = mm.groups()
            c = rel.get((x, y))
            if c is None and (y, x) in rel:
                c = {'<': '>', '>': '<', '=': '='}[rel[(y, x)]]
            if c is None:
                continue
            val[a_] = (c == '<') if op == '<' else (c == '=')
        return val

    def result(S, val):
        got = sorted(set(e.value for e in S.effects if e.kind == 'return' and e.fn == S.qual and gsa.can_hold(e.cond, val)))
        return int(got[0]) if len(got) == 1 and re.match(r'^-?\d+$', got[0]) else None
    if not nonconst:
        for a, b_ in itertools.product('<=>', repeat=2):
            got = result(CVS, order_val(CVS, {(maj1, maj2): a, (min1, min2): b_}))
            exp = sign(a) if a != '=' else sign(b_)
            r1.check(got is not None and (got > 0) - (got < 0) == exp, 'compare_version major%smajor minor%sminor' % (a, b_), REL, tu.line(f),
                     'compare_version returns %s when v1.major %s v2.major and v1.minor %s v2.minor (expected sign %d): versions are '
                     'not ordered numerically by major then minor' % (got, a, b_, exp), detail={'returns': got})
    # parse_version rejects trailing garbage
    pf = tu.func('parse_version')
    PV = cgsa.summarise(ctx, REL, 'parse_version')
    vp = re.escape(PV.P(0))
    ends = set(e.args[1][1:] for e in gsa.find(PV, 'call', r'^(strtol|g_ascii_strtoll|strtoul|g_ascii_strtoull)$') if len(e.args) > 1 and e.args[1].startswith('&'))
    EQ1 = re.compile(r'^(?:strchr\(%s,46\) == (\w+)|(\w+) == strchr\(%s,46\))$' % (vp, vp))
    EQ2 = re.compile(r'^(?:(\w+) == %s\+strlen\(%s\)|%s\+strlen\(%s\) == (\w+))$' % (vp, vp, vp, vp))
    dotted = [a_ for a_ in PV.atoms() if re.match(r'^strchr\(%s,46\)$' % vp, a_)]
    falses = []
    okpv = bool(ends) and bool(dotted)
    for e in gsa.find(PV, 'return'):
        if e.value in ('0', 'FALSE') or not gsa.can_hold(e.cond, dict((a_, True) for a_ in dotted)):
            continue
        # a "valid" answer for a version with a dot: the major number ends at the dot and the minor number at the end of the string
        a1 = [a_ for a_ in gsa.atoms(e.cond) if EQ1.match(a_) and (EQ1.match(a_).group(1) or EQ1.match(a_).group(2)) in ends]
        a2 = [a_ for a_ in gsa.atoms(e.cond) if EQ2.match(a_) and (EQ2.match(a_).group(1) or EQ2.match(a_).group(2)) in ends]
        c1 = bool(a1) and not gsa.can_hold(gsa.assign(e.cond, dict((a_, True) for a_ in dotted)), dict((a_, False) for a_ in a1))
        c2 = (bool(a2) and not gsa.can_hold(gsa.assign(e.cond, dict((a_, True) for a_ in dotted)), dict((a_, False) for a_ in a2))) or \
            any(re.match(r"^\*%s==(0|'\\0')$" % re.escape(x), e.value.replace(' ', '')) for x in ends)
        falses.append((e.value, e.when()[:160], c1, c2))
        okpv = okpv and c1 and c2
    r1.check(okpv and bool(falses), 'parse_version rejects garbage', REL,
             tu.line(pf), 'parse_version no longer rejects text between the major number and the dot / after the minor number: %s' % falses,
             detail=falses)
    # compare_candidate_reverse
    g = tu.func('compare_candidate_reverse')
    CCR = cgsa.summarise(ctx, REL, 'compare_candidate_reverse', opaque=('compare_version',))
    p1, p2 = [p['name'] for p in tu.params(g)]
    cvc = [e for e in CCR.effects if e.kind == 'call' and e.target == 'compare_version']
    resok = len(cvc) >= 1 and all(e.args == ['%s->version' % p1, '%s->version' % p2] for e in cvc)
    r1.check(resok, 'candidate order starts from compare_version (c1->version, c2->version)', REL, tu.line(g),
             'compare_candidate_reverse does not compare the two versions in argument order: %s' % [e.value for e in cvc])
    rets = [e for e in CCR.effects if e.kind == 'return']
    nonconst = [e.value for e in rets if not re.match(r'^-?\d+$', e.value)]
    r1.check(not nonconst, 'compare_candidate_reverse decides by comparisons only', REL, tu.line(g), 'non-constant returns: %s' % nonconst)
    if resok and not nonconst:
        R = cvc[0].value
        pi1, pi2 = '%s->path_index' % p1, '%s->path_index' % p2
        for a, b_ in itertools.product('<=>', repeat=2):
            val = order_val(CCR, {(pi1, pi2): b_, (R, '0'): a})
            val[R] = a != '='           # truthiness of the comparison result (result != 0)
            got = result(CCR, val)
            exp = -sign(a) if a != '=' else sign(b_)
            r1.check(got is not None and (got > 0) - (got < 0) == exp, 'compare_candidate_reverse version%s path_index%s' % (a, b_), REL, tu.line(g),
                     'candidate with version %s the other and directory index %s the other sorts %s (expected %d): the elected typelib is not '
                     'the newest version / the earliest directory among equals' % (a, b_, got, exp), detail={'returns': got})
    r1.exhaustive = True
    # election: sort with compare_candidate_reverse and take the head
    fl = tu.func('find_namespace_latest')
    srt = C.calls(fl, 'g_slist_sort')
    ok = len(srt) == 1 and C.declref(C.call_args(srt[0])[1]) == 'compare_candidate_reverse'
    el = [(l, r) for l, r, st in C.assignments(tu.body(fl)) if C.declref(l) == 'elected']
    ok = ok and len(el) == 1 and nospace(tu.text_of(el[0][1])).endswith('candidates->data')
    r1.check(ok, 'latest = head of the list sorted by compare_candidate_reverse', REL, tu.line(fl), 'find_namespace_latest no longer elects the head of the sorted candidates')

    # ------------------------------------------------------------------ R2 acceptance guards
    r2 = ctx.rule('R2', 'require_internal: success only after namespace, version and registration checks; error codes', floor=6)
    rq = tu.func('require_internal')
    RQ = cgsa.summarise(ctx, REL, 'require_internal', opaque=('register_internal', 'find_namespace_version', 'find_namespace_latest', 'get_registered_status', 'check_version_conflict'))
    NUL = ('0', '((void*)0)', 'NULL', '')
    succ = [e for e in RQ.effects if e.kind == 'return' and e.fn == 'require_internal' and e.value not in NUL and 'get_registered_status' not in e.value]
    if len(succ) < 1:
        raise AnalysisError('require_internal: success return of the freshly loaded typelib not found')
    need = {
        'file found': (r'^find_namespace_(version|latest)\(|^g_mapped_file_new\(|^mfile$', False),
        'typelib loaded from the mapped file': (r'^g_typelib_new_from_mapped_file\(', False),
        'namespace in the file equals the requested one': (r'^strcmp\(.*namespace.*,namespace\)$', True),
        'version in the file equals the requested one': (r'^strcmp\(.*,version\)$', True),
        'registration (incl. dependencies) succeeded': (r'^register_internal\(', False),
    }
    for what, (pat, bad) in need.items():
        for e in succ:
            names = [a_ for a_ in gsa.atoms(e.cond) if re.search(pat, a_)]
            extra = {'version': True} if 'version in the file' in what else {}
            v_ = dict((a_, bad) for a_ in names)
            v_.update(dict((a_, val_) for a_, val_ in extra.items() if a_ in gsa.atoms(e.cond)))
            if 'version in the file' in what and not gsa.can_hold(e.cond, {'version': True}):
                continue          # the any-version path has no requested version to compare with
            r2.check(bool(names) and not gsa.can_hold(e.cond, v_), what, REL, e.line,
                     'require_internal can return the typelib without the check "%s" (success path: %s)' % (what, gsa.show(e.cond)[:300]), detail=names[:2])
    errs = {}
    for c in [e for e in RQ.effects if e.kind == 'call' and e.target == 'g_set_error']:
        code = c.args[2] if len(c.args) > 2 else '?'
        errs.setdefault(code, []).append(c)
    vc = errs.get('G_IREPOSITORY_ERROR_NAMESPACE_VERSION_CONFLICT', [])
    r2.check(any(any(re.search(r'version_conflict$', a_) for a_ in gsa.atoms(c.cond)) and not gsa.can_hold(c.cond, dict((a_, False) for a_ in gsa.atoms(c.cond) if re.search(r'version_conflict$', a_))) for c in vc),
             'version conflict error', REL, tu.line(rq), 'no NAMESPACE_VERSION_CONFLICT error under version_conflict != NULL: %s' % sorted(errs))
    nf = errs.get('G_IREPOSITORY_ERROR_TYPELIB_NOT_FOUND', [])
    MF = r'^g_mapped_file_new\(|^mfile$|^find_namespace_(version|latest)\('
    r2.check(any(any(re.search(MF, a_) for a_ in gsa.atoms(c.cond)) and not gsa.can_hold(c.cond, dict((a_, True) for a_ in gsa.atoms(c.cond) if re.search(MF, a_))) and
                 gsa.can_hold(c.cond, dict((a_, False) for a_ in gsa.atoms(c.cond) if re.search(MF, a_))) for c in nf), 'not-found error', REL, tu.line(rq),
             'no TYPELIB_NOT_FOUND error when no file was found')
    r2.check(len(set(c.line for c in errs.get('G_IREPOSITORY_ERROR_NAMESPACE_MISMATCH', []))) == 2, 'mismatch errors', REL, tu.line(rq), 'NAMESPACE_MISMATCH errors: %s' % [c.line for c in errs.get('G_IREPOSITORY_ERROR_NAMESPACE_MISMATCH', [])])
    # already registered: returned as is; conflict -> NULL
    cv = tu.func('check_version_conflict')
    CVC = cgsa.summarise(ctx, REL, 'check_version_conflict')
    nulls = [e for e in CVC.effects if e.kind == 'return' and e.value in NUL]
    okc = False
    for e in nulls:
        sc = [a_ for a_ in gsa.atoms(e.cond) if re.match(r'^strcmp\(', a_) and 'version' in a_]
        if sc and not gsa.can_hold(e.cond, dict((a_, False) for a_ in sc)) and gsa.can_hold(e.cond, dict((a_, True) for a_ in sc)):
            okc = True
    nonnull_bad = [e for e in CVC.effects if e.kind == 'return' and e.value not in NUL and
                   gsa.can_hold(e.cond, dict([(a_, True) for a_ in gsa.atoms(e.cond) if re.match(r'^strcmp\(', a_) and 'version' in a_] + [(a_, True) for a_ in gsa.atoms(e.cond) if re.match(r'^expected_version$', a_)]))
                   and any(re.match(r'^strcmp\(', a_) for a_ in gsa.atoms(e.cond))]
    r2.check(okc and not nonnull_bad, 'loaded version differs -> NULL', REL,
             tu.line(cv), 'check_version_conflict: NULL returns %s' % [gsa.show(e.cond)[:120] for e in nulls])
    # exact-version file name
    fv = tu.func('find_namespace_version')
    fmt = [C.string_value(C.call_args(c)[0]) for c in C.calls(fv, 'g_strdup_printf')]
    r2.check('%s-%s.typelib' in fmt, 'file name <Namespace>-<version>.typelib', REL, tu.line(fv), 'file name formats: %s' % fmt, detail=fmt)

    # ------------------------------------------------------------------ R3 search order
    r3 = ctx.rule('R3', 'search path walked forward, first hit wins; prepend unconditional; first directory wins among equal versions', floor=6)
    for fn in ('find_namespace_version', 'enumerate_namespace_versions'):
        f_ = tu.func(fn)
        loops = [n for n in C.walk(tu.body(f_)) if n.get('kind') == 'ForStmt']
        hdr = [nospace(tu.text_of(n)).split(')')[0] for n in loops]
        r3.check(any(h.startswith('for(ldir=search_path;ldir;ldir=ldir->next') for h in hdr), '%s walks search_path front to back' % fn, REL, tu.line(f_),
                 'loop headers: %s' % hdr)
    # first hit: the walk stops where the file was found
    FV = cgsa.summarise(ctx, REL, 'find_namespace_version')
    hits = [e for e in FV.effects if e.kind == 'store' and e.target == '*%s' % FV.P(3) and e.loops]
    stops = [e for e in FV.effects if e.kind in ('break', 'return', 'goto') and e.loops]
    r3.check(bool(hits) and all(any(gsa.implies(h.cond, x.cond) for x in stops) for h in hits), 'first directory that has the file wins', REL, tu.line(fv),
             'after a directory with the file is found the walk goes on to later directories: hits %s' % [gsa.show(h.cond)[-120:] for h in hits])
    pp = tu.func('g_irepository_prepend_search_path')
    pre = [(l, r, st) for l, r, st in C.assignments(tu.body(pp)) if C.declref(l) == 'typelib_search_path']
    ok = len(pre) == 1 and C.callee(C.strip(pre[0][1])) == 'g_slist_prepend' and not C.guards(tu, pre[0][2]) \
        and not [n for n in C.walk(tu.body(pp)) if n.get('kind') in ('ReturnStmt', 'IfStmt', 'GotoStmt')]
    r3.check(ok, 'prepend is unconditional', REL, tu.line(pp),
             'g_irepository_prepend_search_path does not always put the directory in front: a directory prepended later must take '
             'precedence even when it already is somewhere on the path')
    if pre:
        a = C.call_args(C.strip(pre[0][1]))
        r3.check(C.declref(a[0]) == 'typelib_search_path' and 'directory' in tu.text_of(a[1]), 'prepends the given directory', REL, tu.line(pp), 'prepend args changed')
    en = tu.func('enumerate_namespace_versions')
    # (gated summary, static helpers inlined) a version already seen never creates a second candidate; a candidate's path_index is the running
    # directory counter, which advances once per directory
    EN0 = cgsa.summarise(ctx, REL, 'enumerate_namespace_versions')
    mk = [e for e in gsa.find(EN0, 'call', r'^g_slist_(prepend|append)$') if e.loops]
    dup = [a_ for a_ in EN0.atoms() if re.match(r'^g_hash_table_(lookup|contains)\(', a_)]
    okd = bool(mk) and bool(dup) and all(not gsa.can_hold(e.cond, dict((a_, True) for a_ in dup)) for e in mk)
    r3.check(okd, 'a version already found in an earlier directory is skipped', REL, tu.line(en), 'duplicate versions are no longer skipped (seen-version tests: %s)' % dup)
    pst = [e for e in gsa.find(EN0, 'store', r'->path_index$')]
    cnt_names = set(e.value for e in pst if re.match(r'^[A-Za-z_]\w*$', e.value))
    incs = [e for e in EN0.effects if e.kind == 'local' and e.target in cnt_names and re.match(r'^(%s|\d+)\+1$' % re.escape(e.target), e.value)]
    okx = len(cnt_names) == 1 and bool(incs) and all(len(e.loops) == 1 for e in incs) and all(len(e.loops) == 2 for e in pst)
    idx = [(e.target[-24:], e.value) for e in pst]
    r3.check(okx, 'candidates are numbered by directory in walk order', REL, tu.line(en), 'path_index bookkeeping changed: %s' % idx)
    # init_globals: GI_TYPELIB_PATH entries precede the default dir (prepend + final reverse)
    ig = tu.func('init_globals')
    seq = [C.callee(c) for c in C.calls(tu.body(ig)) if C.callee(c) in ('g_slist_prepend', 'g_slist_reverse', 'g_slist_append')]
    r3.check(seq == ['g_slist_prepend', 'g_slist_prepend', 'g_slist_reverse'], 'environment directories precede the default directory', REL, tu.line(ig), 'list ops: %s' % seq, detail=seq)

    # only files of the requested namespace are version candidates: the name must start with "<namespace>-" (namespace AND separator)
    EN = cgsa.summarise(ctx, REL, 'enumerate_namespace_versions')
    cands = [e for e in gsa.find(EN, 'call', r'^g_slist_(prepend|append)$') if e.loops]
    if not cands:
        raise AnalysisError('enumerate_namespace_versions: candidate list construction not found')
    nsp = EN.P(0)
    PFX = re.compile(r'^g_str_has_prefix\((\w+),g_strdup_printf\("%%s-",%s\)\)$' % re.escape(nsp))
    pa = [a_ for a_ in EN.atoms() if PFX.match(a_)]
    okp = bool(pa) and all(not gsa.can_hold(e.cond, {pa[0]: False}) for e in cands)
    r3.check(okp, 'version candidates carry the prefix "<namespace>-"', REL, cands[0].line,
             'a file becomes a version candidate for %s without its name starting with "<%s>-" (prefix tests: %s): typelibs of other namespaces whose name merely begins with the '
             'same letters (Gdk / GdkPixbuf-2.0.typelib) are offered as versions of this one' % (nsp, nsp, [a_ for a_ in EN.atoms() if 'has_prefix' in a_]),
             detail=[a_ for a_ in EN.atoms() if 'has_prefix' in a_])

    # ------------------------------------------------------------------ R4 dependencies at the recorded version
    r4 = ctx.rule('R4', 'every recorded dependency is required unconditionally at its recorded version; separator agreement', floor=6)
    ld = tu.func('load_dependencies_recurse')
    LD = cgsa.summarise(ctx, REL, 'load_dependencies_recurse', opaque=('get_typelib_dependencies',))
    req = [e for e in LD.effects if e.kind == 'call' and e.target in ('g_irepository_require', 'require_internal')]
    if len(set(e.line for e in req)) != 1:
        raise AnalysisError('load_dependencies_recurse: expected one require call')
    flags = set(re.findall(r'@carried:(\w+)#', ' '.join(LD.atoms())))
    for e in req[:1]:
        foreign = [a_ for a_ in gsa.atoms(gsa.disj(*[x.cond for x in req])) if not a_.startswith('@') and not re.match(r'^\*?\w+\[\w+\]$|^\*?\w+$', a_) and not a_.lstrip('*').startswith('get_typelib_dependencies(')
                   and not a_.startswith('g_irepository_require(') and not a_.startswith('require_internal(')]
        r4.check(bool(e.loops) and not foreign, 'every dependency is required', REL, e.line,
                 'inside the dependency loop the require call is skipped under %s: a dependency recorded at one version is not checked against '
                 'an already loaded different version' % foreign)
    okargs = bool(req)
    splits = []
    for e in req:
        a1 = e.args[1] if len(e.args) > 2 else ''
        a2 = e.args[2] if len(e.args) > 2 else ''
        mm = re.match(r"^g_strndup\((.+),strrchr\(\1,45\)-\1\)$", a1)
        m2 = re.match(r"^strrchr\((.+),45\)\+1$", a2)
        splits.append((a1, a2))
        if not (mm and m2 and mm.group(1) == m2.group(1)):
            okargs = False
    r4.check(okargs, 'required with recorded namespace and version', REL, req[0].line, 'require arguments: %s' % splits[:2])
    r4.check(okargs, 'entry split at the last dash', REL, tu.line(ld),
             'dependency entries are not split at the LAST dash (namespaces may contain dashes): %s' % splits[:2], detail=splits[:2])
    REQ = r'^(g_irepository_require|require_internal)\('
    fails = [e for e in LD.effects if e.kind == 'return' and e.fn == 'load_dependencies_recurse' and e.value == '0' and
             any(re.match(REQ, a_) for a_ in gsa.atoms(e.cond)) and not gsa.can_hold(e.cond, dict((a_, True) for a_ in gsa.atoms(e.cond) if re.match(REQ, a_)))]
    flagged = [e for e in LD.effects if e.kind == 'local' and e.value == '0' and e.target in flags and any(re.match(REQ, a_) for a_ in gsa.atoms(e.cond))
               and not gsa.can_hold(e.cond, dict((a_, True) for a_ in gsa.atoms(e.cond) if re.match(REQ, a_)))]
    okfail = bool(fails) or (bool(flagged) and any(x.kind == 'return' and x.value == flagged[0].target or (x.kind == 'return' and x.value in ('0',)) for x in LD.effects if x.fn == 'load_dependencies_recurse'))
    r4.check(okfail, 'failed dependency fails the load', REL, tu.line(ld), 'no failure result when a dependency cannot be required')
    ri = tu.func('register_internal')
    rib = tu.body(ri)
    ldc = C.calls(rib, 'load_dependencies_recurse')
    ins = [c for c in C.calls(rib, 'g_hash_table_insert') if 'priv->typelibs' in nospace(tu.text_of(C.call_args(c)[0]))]
    ok = len(ldc) == 1 and len(ins) == 1
    if ok:
        gi = [nospace(tu.text_of(c)) for c, pol, o in C.guards(tu, ins[0]) if not pol]
        ok = any('!load_dependencies_recurse(' in x for x in gi)
    r4.check(ok, 'typelib registered only after its dependencies loaded', REL, tu.line(ri), 'registration no longer depends on load_dependencies_recurse succeeding')
    # separator agreement with the compiler
    gd = tu.func('get_typelib_dependencies')
    sep = [C.string_value(C.call_args(c)[1]) for c in C.calls(gd, 'g_strsplit')]
    mt = ctx.c.tu('girepository/girmodule.c')
    mb = mt.func('_g_ir_module_build_typelib')
    wsep = None
    # the joining code may sit in a static helper of girmodule.c (e.g. serialize_dependencies): follow calls from the builder
    bodies = [(mb, False)]
    for c in C.calls(mb):
        cn_ = C.callee(c)
        if cn_ in mt.functions and cn_ != '_g_ir_module_build_typelib' and 'depend' in cn_:
            bodies.append((mt.functions[cn_], True))
    for fb, whole in bodies:
      for c in C.calls(fb, ('g_string_append_c', 'g_string_append')):
        a = C.call_args(c)
        if whole or C.declref(a[0]) == 'dependencies_glob' or 'dependencies' in (C.declref(a[0]) or ''):
            s = C.strip(a[1])
            if s.get('kind') == 'CharacterLiteral':
                wsep = chr(s.get('value'))
            elif C.string_value(s) is not None and len(C.string_value(s)) == 1:
                wsep = C.string_value(s)
    if wsep is None:
        # g_strjoinv ("|", dependencies)
        for fb, whole in bodies:
            for c in C.calls(fb, 'g_strjoinv'):
                wsep = C.string_value(C.call_args(c)[0])
    r4.check(sep == [wsep] and wsep is not None, 'dependency separator: compiler writes what the loader splits on', REL, tu.line(gd),
             'loader splits the dependency string on %s but the compiler joins with %r' % (sep, wsep), detail={'split': sep, 'join': wsep})
