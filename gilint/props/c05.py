"""C05 — everything left introspectable is bindable and every reference resolves."""
import ast
import re

from ..core import AnalysisError
from .. import pyfront as P
from .. import pycfg

EXPLANATION = ('Guarded-effect tables of giscanner/introspectablepass.py and maintransformer.py: every unbindable clause of the property '
               'has a row that demotes the parent; every warning about a parameter is paired with the demotion; the type predicate rejects '
               'each unbindable kind and recurses into containers; every kind of type-carrying member has a demoting site in a registered '
               'pass and propagation runs the registered number of rounds; cross references (property accessors, emitter, indices, type '
               'names) are stored/cleared on both sides together and only through raising lookups.')

IP = 'introspectablepass'
MT = 'maintransformer'


def check(ctx):
    py = ctx.py
    m = py.mod(IP)
    rel = m.rel

    # ------------------------------------------------------------------ R1 demotion completeness
    r1 = ctx.rule('R1', 'every unbindable parameter/return clause demotes the callable; warn => demote', floor=14)
    f = py.func(IP, 'IntrospectablePass._introspectable_param_analysis')
    eff = P.effects(f)
    dem = [e for e in eff if e.kind == 'store' and e.target == 'parent.introspectable' and e.value == 'False']
    clauses = {
        'unresolved type': ['not node.type.resolved'],
        'varargs': ['isinstance(node.type, ast.Varargs)'],
        'list/array without element type': ['isinstance(node.type, (ast.List, ast.Array))', 'node.type.element_type == ast.TYPE_ANY'],
        'callback parameter without scope': ['is_parameter', 'isinstance(target, ast.Callback)', 'node.scope is None', "'GLib.DestroyNotify', 'Gio.AsyncReadyCallback'"],
        'callback return value': ['is_return and isinstance(target, ast.Callback)'],
        'owned bare struct return': ['isinstance(target, (ast.Record, ast.Union))', 'node.transfer != ast.PARAM_TRANSFER_NONE', 'target.get_type is None'],
        'missing transfer': ['node.transfer is None'],
    }
    for what, atoms in sorted(clauses.items()):
        ok = any(all(any(a in g for g in e.gtexts()) for a in atoms) and not any(g.startswith('not (') and any(a in g for a in atoms) for g in e.gtexts()) for e in dem)
        r1.check(ok, what, rel, f.lineno, 'no `parent.introspectable = False` under %s: a callable with such a %s stays introspectable' % (atoms, what),
                 detail=atoms)
    warns = [e for e in eff if e.kind == 'call' and e.target == 'self._parameter_warning']
    for w_ in warns:
        blk = P.block_of(w_.stmt)
        texts = [P.src(s) for s in blk[2][blk[3]:]] if blk else []
        r1.check('parent.introspectable = False' in texts, 'warning at line-group %s is paired with demotion' % (w_.value[40:80].strip()), rel, w_.line,
                 'a parameter problem is warned about but the callable is not marked non-introspectable')
    # skipped values are exempt, and aliases are looked through before the callback tests
    td = [P.src(v) for t, v, st in P.stores_in(f) if isinstance(t, ast.Name) and t.id == 'target']
    r1.check(td == ['self._transformer.lookup_typenode(node.type)', 'self._transformer.resolve_aliases(target)'], 'type target resolved through aliases', rel, f.lineno,
             'target is computed as %s: a parameter typed through a typedef alias of a callback is not recognised as a callback (no scope required, callback return allowed)' % td,
             detail=td)
    first_ret = sorted([n for n in P.walk_no_nested(f) if isinstance(n, ast.Return)], key=lambda n: n.lineno)[0]
    r1.check([g.text() for g in P.guards(first_ret)] == ['node.skip'], 'skipped values are not analysed', rel, first_ret.lineno, 'first return guarded by %s' % [g.text() for g in P.guards(first_ret)])

    # ------------------------------------------------------------------ R2 type predicate
    r2 = ctx.rule('R2', '_type_is_introspectable rejects unresolved/unknown/va_list/long long/long double/missing or hidden targets, recurses into containers', floor=9)
    tp = py.func(IP, 'IntrospectablePass._type_is_introspectable')
    rets = [(P.src(n.value), [g.text() for g in P.guards(n) if g.kind in ('if', 'early')], n.lineno) for n in P.walk_no_nested(tp) if isinstance(n, ast.Return)]

    def has_ret(value, atoms):
        return any(v == value and all(any(a in g and not g.startswith('not (') for g in gs) for a in atoms) for v, gs, ln in rets)
    for what, atoms in (('unresolved', ['not typeval.resolved']), ('TypeUnknown', ['isinstance(typeval, ast.TypeUnknown)']), ('va_list', ['typeval.is_equiv(ast.TYPE_VALIST)']),
                        ('long long / long double', ['typeval.is_equiv((ast.TYPE_LONG_LONG, ast.TYPE_LONG_ULONG, ast.TYPE_LONG_DOUBLE))']), ('unknown target', ['not target'])):
        r2.check(has_ret('False', atoms), '%s -> not introspectable' % what, rel, tp.lineno, 'no `return False` under %s' % atoms, detail=atoms)
    r2.check(any(v == 'target.introspectable and (not target.skip)' for v, gs, ln in rets), 'target must itself be introspectable and not skipped', rel, tp.lineno,
             'final return is %s' % [v for v, gs, ln in rets][-1:])
    r2.check(has_ret('self._type_is_introspectable(typeval.element_type)', ['isinstance(typeval, (ast.Array, ast.List))']), 'recursion into list/array elements', rel, tp.lineno, 'element recursion changed')
    r2.check(any('self._type_is_introspectable(typeval.key_type)' in v and 'self._type_is_introspectable(typeval.value_type)' in v for v, gs, ln in rets), 'recursion into map key and value', rel, tp.lineno,
             'map recursion changed')
    order = [v for v, gs, ln in sorted(rets, key=lambda r_: r_[2])]
    r2.check(order[:2] == ['False', 'False'], 'resolution checked first', rel, tp.lineno, 'order of returns: %s' % order[:3])

    # ------------------------------------------------------------------ R3 coverage of type-carrying members, propagation rounds
    r3 = ctx.rule('R3', 'every type-carrying member kind has a demoting site in a registered pass; propagation rounds', floor=10)
    val = py.func(IP, 'IntrospectablePass.validate')
    walks = [P.src(c.args[0]).replace('self.', '') for c in P.calls_in(val) if P.src(c.func) == 'self._namespace.walk' and c.args]
    need_order = ['_introspectable_alias_analysis', '_propagate_callable_skips', '_analyze_node', '_introspectable_callable_analysis', '_introspectable_property_analysis', '_introspectable_pass3']
    pos = [walks.index(w_) if w_ in walks else -1 for w_ in need_order]
    r3.check(all(p_ >= 0 for p_ in pos) and pos == sorted(pos), 'passes registered in dependency order', rel, val.lineno, 'validate() walks %s' % walks, detail=walks)
    n_prop = walks.count('_introspectable_callable_analysis')
    r3.check(n_prop >= 2, 'callable propagation runs twice', rel, val.lineno,
             'validate() runs _introspectable_callable_analysis %d time(s): demotions decided late in a walk (a callback that becomes non-introspectable only in its own analysis) '
             'are not propagated to callables visited earlier, which stay introspectable while using a non-introspectable type' % n_prop, detail=n_prop)
    loops_around = any(isinstance(a, (ast.While, ast.For)) for c in P.calls_in(val) if P.src(c.func) == 'self._namespace.walk' and c.args and
                       '_introspectable_callable_analysis' in P.src(c.args[0]) for a in _ancestors(c))
    r3.check(loops_around, 'callable propagation reaches a fixed point', rel, val.lineno,
             'validate() propagates non-introspectability with a fixed number of walks (%d): a dependency chain of depth three (function -> callback -> callback with a '
             'va_list parameter, visited in that order) leaves the function introspectable although it uses a non-introspectable type' % n_prop, detail=n_prop)
    sites = {
        'alias target': ('_introspectable_alias_analysis', 'obj.introspectable', 'self._type_is_introspectable(obj.target)'),
        'parameter types': ('_introspectable_callable_analysis', 'obj.introspectable', 'self._type_is_introspectable(param.type)'),
        'return type': ('_introspectable_callable_analysis', 'obj.introspectable', 'self._type_is_introspectable(obj.retval.type)'),
        'field types': ('_introspectable_pass3', 'field.introspectable', 'self._type_is_introspectable(field.type)'),
        'embedded callbacks of fields': ('_introspectable_pass3', 'field.introspectable', 'field.anonymous_node.introspectable'),
        'property types': ('_introspectable_property_analysis', 'prop.introspectable', 'self._type_is_introspectable(prop.type)'),
    }
    for what, (fn, target, atom) in sorted(sites.items()):
        ff = py.func(IP, 'IntrospectablePass.' + fn)
        ok = any(e.kind == 'store' and e.target == target and e.value == 'False' and any(atom in g and g.startswith('not ') for g in e.gtexts()) for e in P.effects(ff))
        r3.check(ok, '%s demote via %s' % (what, fn), rel, ff.lineno, 'no `%s = False` under `not %s` in %s' % (target, atom, fn))
    p3 = py.func(IP, 'IntrospectablePass._introspectable_pass3')
    r3.check(any(P.src(c) == 'self._introspectable_callable_analysis(sig, [obj])' for c in P.calls_in(p3)), 'signals analysed like callables', rel, p3.lineno, 'signals are no longer analysed')
    an = py.func(IP, 'IntrospectablePass._analyze_node')
    r3.check(sum(1 for c in P.calls_in(an) if P.call_name(c) == 'self._introspectable_param_analysis') == 2, 'parameters and return value analysed', rel, an.lineno, '_analyze_node changed')
    ca = py.func(IP, 'IntrospectablePass._introspectable_callable_analysis')
    inl = [e for e in P.effects(ca) if e.kind == 'store' and e.target == 'obj.introspectable' and e.under('obj.is_inline', True)]
    r3.check(bool(inl), 'inline functions are not callable from bindings', rel, ca.lineno, 'inline demotion changed')

    # ------------------------------------------------------------------ R4 cross references
    r4 = ctx.rule('R4', 'cross references: accessors paired on both sides, cleared together, emitter checked pairwise, names via raising lookups', floor=9)
    mt = py.mod(MT)
    pa = py.func(MT, 'MainTransformer._pair_property_accessors')
    pe = [e for e in P.effects(pa) if e.kind == 'store']
    for kind, mattr, pattr in (('setter', 'method.set_property', 'prop.setter'), ('getter', 'method.get_property', 'prop.getter')):
        ms = [e for e in pe if e.target == mattr]
        ps = [e for e in pe if e.target == pattr and e.value == 'method.name']
        r4.check(bool(ps), 'property %s recorded from the matching method' % kind, mt.rel, pa.lineno, 'no `%s = method.name`' % pattr)
        # on every row that records the pairing, the method side is set to this property
        none_row = [e for e in ms if e.value == 'prop.name' and any(g == '%s is None' % mattr for g in e.gtexts())]
        mism_row = [e for e in ms if e.value == 'prop.name' and any('%s != prop.name' % mattr in g for g in e.gtexts())]
        r4.check(bool(none_row) and bool(mism_row), '%s: method side agrees with the property (also after a mismatching annotation)' % kind, mt.rel, pa.lineno,
                 'when a method matched as %s carries a different (%s) annotation the mismatch is warned about but %s is %s: property says %s="<method>" while the '
                 'method says glib:%s="<other property>"' % (kind, mattr.split('.')[1].replace('_', '-'), mattr, 'not corrected' if not mism_row else 'ok', kind,
                                                             mattr.split('.')[1].replace('_', '-')), detail=[repr(e) for e in ms][:3])
    ia = py.func(IP, 'IntrospectablePass._introspectable_property_analysis')
    ie = [e for e in P.effects(ia) if e.kind == 'store']
    r4.check(all(any(e.target == t and e.value == 'None' for e in ie) for t in ('prop.setter', 'prop.getter', 'method.set_property', 'method.get_property')), 'non-introspectable property clears all four references', rel,
             ia.lineno, 'stores: %s' % [repr(e) for e in ie])
    # emitter consistency
    loops = [n for n in P.walk_no_nested(ca) if isinstance(n, ast.For) and isinstance(n.target, ast.Tuple) and P.call_name(n.iter) == 'enumerate' and 'obj.parameters' in P.src(n.iter)]
    if len(loops) != 1:
        raise AnalysisError('_introspectable_callable_analysis: emitter parameter walk not found')
    lp = loops[0]
    iv = lp.target.elts[0].id
    mp = [(P.src(v), st) for t, v, st in P.stores_in(lp) if isinstance(t, ast.Name) and 'method.parameters[' in P.src(v)]
    r4.check(len(mp) == 1 and mp[0][0] == 'method.parameters[%s]' % iv, 'emitter: signal parameter i is compared with method parameter i', rel, lp.lineno,
             'the emitter check pairs signal parameter %s with %s: the instance parameter is not part of method.parameters, so this is off by one and raises IndexError '
             'for every (emitter) on a signal with arguments' % (iv, [x for x, s_ in mp]), detail=[x for x, s_ in mp])
    clr = [e for e in P.effects(ca) if e.kind == 'store' and e.target == 'obj.emitter' and e.value == 'None' and any('is_equiv(method_param.type)' in g for g in e.gtexts())]
    r4.check(len(clr) == 1 and any(g.startswith('not ') and 'signal_param.type.is_equiv(method_param.type)' in g for g in clr[0].gtexts()), 'emitter dropped only when parameter types differ', rel,
             clr[0].line if clr else lp.lineno, 'emitter is cleared under %s' % (clr[0].gtexts() if clr else None), detail=clr[0].gtexts()[-1:] if clr else None)
    cnt = [e for e in P.effects(ca) if e.kind == 'store' and e.target == 'obj.emitter' and any('n_emitter_params != n_signal_params' in g for g in e.gtexts())]
    nd = dict((t.id, P.src(v)) for t, v, st in P.stores_in(ca) if isinstance(t, ast.Name))
    r4.check(bool(cnt) and nd.get('n_emitter_params') == 'len(method.parameters)' and nd.get('n_signal_params') == 'len(obj.parameters)', 'emitter: parameter counts compared', rel, ca.lineno, 'count check changed')
    # names only via raising lookups
    tt = py.func('girwriter', 'GIRWriter._type_to_name')
    r4.check(any(isinstance(n, ast.Raise) and any(g.text() == 'not typeval.resolved' for g in P.guards(n)) for n in P.walk_no_nested(tt)), 'unresolved type names cannot be written', 'giscanner/girwriter.py', tt.lineno,
             '_type_to_name no longer raises for an unresolved type')
    for fn in ('Callable.get_parameter_index', 'Compound.get_field_index'):
        g = py.func('ast', fn)
        r4.check(any(isinstance(n, ast.Raise) for n in ast.walk(g)), '%s raises on a dangling name' % fn, 'giscanner/ast.py', g.lineno, '%s does not raise' % fn)
    rn = py.func(MT, 'MainTransformer._apply_annotation_rename_to')
    sb = [e for e in P.effects(rn) if e.kind == 'store' and e.target in ('target.shadowed_by', 'node.shadows')]
    r4.check(len(sb) == 2 and sb[0].gtexts() == sb[1].gtexts(), 'shadows / shadowed-by stored on the same path', mt.rel, rn.lineno, 'rename-to stores: %s' % sb)
    # invoker must be a method of the same type: stored while iterating the parent's own virtual methods
    p2 = py.func(MT, 'MainTransformer._pass_read_annotations2')
    inv = [e for e in P.effects(p2) if e.kind == 'store' and e.target == 'vfunc.invoker']
    r4.check(any(e.value == 'node.name' and any(g.kind == 'for' and 'parent.virtual_methods' in g.text() for g in e.guards) for e in inv), 'invoker recorded on a vfunc of the method\'s own parent', mt.rel, p2.lineno,
             'invoker stores: %s' % inv)


def _ancestors(n):
    n = P.parent(n)
    while n is not None:
        yield n
        n = P.parent(n)
