"""C05 — everything left introspectable is bindable and every reference resolves."""
import ast
import re

from ..core import AnalysisError
from .. import pyfront as P
from .. import pycfg, gsa

EXPLANATION = ('Guarded-effect tables of giscanner/introspectablepass.py and maintransformer.py: every unbindable clause of the property '
               'has a row that demotes the parent; every warning about a parameter is paired with the demotion; the type predicate rejects '
               'each unbindable kind and recurses into containers; every kind of type-carrying member has a demoting site in a registered '
               'pass and propagation runs the registered number of rounds; cross references (property accessors, emitter, indices, type '
               'names) are stored/cleared on both sides together and only through raising lookups.')

IP = 'introspectablepass'
MT = 'maintransformer'


def check(ctx):
    py = ctx.py
    m = py.mod(IP)
    rel = m.rel

    # ------------------------------------------------------------------ R1 demotion completeness (gated summary)
    r1 = ctx.rule('R1', 'every unbindable parameter/return clause demotes the callable; warn => demote', floor=14)
    f = py.func(IP, 'IntrospectablePass._introspectable_param_analysis')
    PA = gsa.summarise(ctx, IP, 'IntrospectablePass._introspectable_param_analysis', opaque=('_type_is_introspectable', '_parameter_warning'))
    par, nod = re.escape(PA.P(1)), re.escape(PA.P(2))
    dem = gsa.find(PA, 'store', r'^%s\.introspectable$' % par, r'^False$')
    D = gsa.cond_any(dem)
    BASE = [(r'^%s\.skip$' % nod, False), (r'^%s\.type\.resolved$' % nod, True), (r'^isinstance\(%s\.type, ast\.Varargs\)$' % nod, False)]
    NOLIST = [(r'^isinstance\(%s\.type, ast\.(List|Array)\)$' % nod, False)]
    ISPAR = [(r'^isinstance\(%s, ast\.Parameter\)$' % nod, True), (r'^isinstance\(%s, ast\.Return\)$' % nod, False)]
    ISRET = [(r'^isinstance\(%s, ast\.Parameter\)$' % nod, False), (r'^isinstance\(%s, ast\.Return\)$' % nod, True)]
    CBK = r'^isinstance\(.*, ast\.Callback\)$'
    clauses = {
        'unresolved type': [(r'^%s\.skip$' % nod, False), (r'^%s\.type\.resolved$' % nod, False)],
        'varargs': [(r'^%s\.skip$' % nod, False), (r'^%s\.type\.resolved$' % nod, True), (r'^isinstance\(%s\.type, ast\.Varargs\)$' % nod, True)],
        'list without element type': BASE + [(r'^isinstance\(%s\.type, ast\.List\)$' % nod, True), (r'^isinstance\(%s\.type, ast\.Array\)$' % nod, False), (r'element_type == ast\.TYPE_ANY$', True)],
        'array without element type': BASE + [(r'^isinstance\(%s\.type, ast\.List\)$' % nod, False), (r'^isinstance\(%s\.type, ast\.Array\)$' % nod, True), (r'element_type == ast\.TYPE_ANY$', True)],
        'callback parameter without scope': BASE + NOLIST + ISPAR + [(CBK, True), (r"gi_name == '(GLib\.DestroyNotify|Gio\.AsyncReadyCallback)'$", False), (r'^%s\.scope is None$' % nod, True)],
        'callback return value': BASE + NOLIST + ISRET + [(CBK, True)],
        'owned bare struct return': BASE + NOLIST + ISRET + [(CBK, False), (r'ast\.Record\)$', True), (r'ast\.Union\)$', False), (r'\.get_type is None$', True), (r'\.(copy_func|free_func) is None$', True),
                                                          (r'\.foreign$', False), (r'^%s\.transfer == ast\.PARAM_TRANSFER_NONE$' % nod, False), (r'^%s\.transfer is None$' % nod, False)],
        'missing transfer': BASE + NOLIST + ISPAR + [(CBK, False), (r'ast\.(Record|Union)\)$', False), (r'^%s\.transfer is None$' % nod, True)],
    }
    for what, spec in sorted(clauses.items()):
        v = gsa.ev3(D, gsa.valuation(PA, spec))
        r1.check(v is True, what, rel, f.lineno, 'a parameter/return value with %s does not (always) set `%s.introspectable = False` (condition evaluates to %s): the callable stays introspectable'
                 % (what, PA.P(1), v), detail=str(v))
    warns = gsa.find(PA, 'call', r'^self\._parameter_warning$')
    for w_ in warns:
        r1.check(gsa.implies(w_.cond, D), 'warning %s is paired with demotion' % (w_.args[2][:40] if len(w_.args) > 2 else ''), rel, w_.line,
                 'a parameter problem is warned about but the callable is not marked non-introspectable')
    # skipped values are exempt, and aliases are looked through before the callback tests
    cb_atoms = [a_ for a_ in PA.atoms() if re.search(CBK, a_)]
    r1.check(cb_atoms and all('resolve_aliases(' in a_ and 'lookup_typenode(' in a_ for a_ in cb_atoms), 'type target resolved through aliases', rel, f.lineno,
             'the callback tests look at %s: a parameter typed through a typedef alias of a callback is not recognised as a callback (no scope required, callback return allowed)' % cb_atoms,
             detail=cb_atoms)
    r1.check(gsa.ev3(D, gsa.valuation(PA, [(r'^%s\.skip$' % nod, True)])) is False, 'skipped values are not analysed', rel, f.lineno, 'a skipped parameter can still demote its callable')

    # ------------------------------------------------------------------ R2 type predicate
    r2 = ctx.rule('R2', '_type_is_introspectable rejects unresolved/unknown/va_list/long long/long double/missing or hidden targets, recurses into containers', floor=9)
    type_verdict_rule(ctx, r2)

    # ------------------------------------------------------------------ R3 coverage of type-carrying members, propagation rounds
    r3 = ctx.rule('R3', 'every type-carrying member kind has a demoting site in a registered pass; propagation rounds', floor=10)
    val = py.func(IP, 'IntrospectablePass.validate')
    walks = [P.src(c.args[0]).replace('self.', '') for c in P.calls_in(val) if P.src(c.func) == 'self._namespace.walk' and c.args]
    need_order = ['_introspectable_alias_analysis', '_propagate_callable_skips', '_analyze_node', '_introspectable_callable_analysis', '_introspectable_property_analysis', '_introspectable_pass3']
    pos = [walks.index(w_) if w_ in walks else -1 for w_ in need_order]
    r3.check(all(p_ >= 0 for p_ in pos) and pos == sorted(pos), 'passes registered in dependency order', rel, val.lineno, 'validate() walks %s' % walks, detail=walks)
    n_prop = walks.count('_introspectable_callable_analysis')
    r3.check(n_prop >= 2, 'callable propagation runs twice', rel, val.lineno,
             'validate() runs _introspectable_callable_analysis %d time(s): demotions decided late in a walk (a callback that becomes non-introspectable only in its own analysis) '
             'are not propagated to callables visited earlier, which stay introspectable while using a non-introspectable type' % n_prop, detail=n_prop)
    loops_around = any(isinstance(a, (ast.While, ast.For)) for c in P.calls_in(val) if P.src(c.func) == 'self._namespace.walk' and c.args and
                       '_introspectable_callable_analysis' in P.src(c.args[0]) for a in _ancestors(c))
    r3.check(loops_around, 'callable propagation reaches a fixed point', rel, val.lineno,
             'validate() propagates non-introspectability with a fixed number of walks (%d): a dependency chain of depth three (function -> callback -> callback with a '
             'va_list parameter, visited in that order) leaves the function introspectable although it uses a non-introspectable type' % n_prop, detail=n_prop)
    OPQ = ('_type_is_introspectable', '_parameter_warning')
    TI = r'_type_is_introspectable\(%s\)$'
    sites = {
        'alias target': ('_introspectable_alias_analysis', TI % r'\w+\.target'),
        'parameter types': ('_introspectable_callable_analysis', TI % r'\w+\.type'),
        'return type': ('_introspectable_callable_analysis', TI % r'\w+\.retval\.type'),
        'field types': ('_introspectable_pass3', TI % r'\w+\.type'),
        'embedded callbacks of fields': ('_introspectable_pass3', r'\.anonymous_node\.introspectable$'),
        'property types': ('_introspectable_property_analysis', TI % r'\w+\.type'),
    }
    for what, (fn, atom) in sorted(sites.items()):
        SS = gsa.summarise(ctx, IP, 'IntrospectablePass.' + fn, opaque=OPQ + ('_introspectable_callable_analysis',) if fn == '_introspectable_pass3' else OPQ)
        cands = gsa.find(SS, 'store', r'^\w+\.introspectable$', r'^False$')
        ok = [e for e in cands if gsa.depends_negatively(e.cond, atom) and gsa.allowed(SS, e, [(atom, False), (r'\.skip$', False)])]
        r3.check(bool(ok), '%s demote via %s' % (what, fn), rel, SS.func.lineno, 'no `<x>.introspectable = False` exactly when `%s` is false in %s (candidates: %s)' % (atom, fn, [c.when()[:120] for c in cands]))
    P3 = gsa.summarise(ctx, IP, 'IntrospectablePass._introspectable_pass3', opaque=OPQ + ('_introspectable_callable_analysis',))
    p3 = P3.func
    sigc = [c for c in gsa.find(P3, 'call', r'^self\._introspectable_callable_analysis$') if any(l.endswith('.signals') for l in c.loops)]
    r3.check(bool(sigc) and all(len(c.args) == 2 and c.args[1] == '[%s]' % P3.P(1) for c in sigc), 'signals analysed like callables', rel, p3.lineno, 'signals are no longer analysed (calls: %s)' % [c.value for c in sigc])
    AN = gsa.summarise(ctx, IP, 'IntrospectablePass._analyze_node', opaque=OPQ + ('_introspectable_param_analysis',))
    pac = gsa.find(AN, 'call', r'^self\._introspectable_param_analysis$')
    r3.check(any(any(l.endswith('.parameters') for l in c.loops) for c in pac) and any(len(c.args) > 1 and c.args[1].endswith('.retval') for c in pac), 'parameters and return value analysed', rel, AN.func.lineno,
             '_analyze_node changed: %s' % [c.value for c in pac])
    CA = gsa.summarise(ctx, IP, 'IntrospectablePass._introspectable_callable_analysis', opaque=OPQ)
    ca = CA.func
    co = re.escape(CA.P(1))
    inl = gsa.ev3(gsa.cond_any(gsa.find(CA, 'store', r'^%s\.introspectable$' % co, r'^False$')),
                  gsa.valuation(CA, [(r'^%s\.is_inline$' % co, True), (r'^isinstance\(%s, ast\.Function\)$' % co, True), (r'^%s\.skip$' % co, False),
                                        (r'_type_is_introspectable\(', True)])) is True
    r3.check(inl, 'inline functions are not callable from bindings', rel, ca.lineno, 'inline demotion changed')

    # ------------------------------------------------------------------ R4 cross references
    r4 = ctx.rule('R4', 'cross references: accessors paired on both sides, cleared together, emitter checked pairwise, names via raising lookups', floor=9)
    mt = py.mod(MT)
    PAIR = gsa.summarise(ctx, MT, 'MainTransformer._pair_property_accessors')
    pa = PAIR.func
    for kind, mattr, pattr in (('setter', 'set_property', 'setter'), ('getter', 'get_property', 'getter')):
        ms = gsa.find(PAIR, 'store', r'^\w+\.%s$' % mattr, r'^\w+\.name$')
        ps = gsa.find(PAIR, 'store', r'^\w+\.%s$' % pattr, r'^\w+\.name$')
        r4.check(bool(ps), 'property %s recorded from the matching method' % kind, mt.rel, pa.lineno, 'no `<prop>.%s = <method>.name`' % pattr)
        # whenever the pairing may be recorded, the method side ends up naming this property (or already did)
        agree = gsa.disj(gsa.cond_any(ms), *[gsa.atom(a_) for a_ in PAIR.atoms() if re.search(r'^\w+\.%s == \w+\.name$' % mattr, a_)])
        cover = [e for e in ps if not gsa.implies(e.cond, agree)]
        r4.check(bool(ps) and bool(ms) and not cover, '%s: method side agrees with the property (also after a mismatching annotation)' % kind, mt.rel, pa.lineno,
                 'when a method matched as %s carries a different (%s) annotation the mismatch is warned about but the method side is not corrected: property says %s="<method>" while the '
                 'method says glib:%s="<other property>"' % (kind, mattr.replace('_', '-'), kind, mattr.replace('_', '-')), detail=[repr(e)[:200] for e in ms][:3])
    IA = gsa.summarise(ctx, IP, 'IntrospectablePass._introspectable_property_analysis', opaque=OPQ)
    ia = IA.func
    cleared = dict((t, gsa.find(IA, 'store', r'^\w+\.%s$' % t, r'^None$')) for t in ('setter', 'getter', 'set_property', 'get_property'))
    r4.check(all(cleared.values()) and all(any(gsa.impossible(IA, e, [(TI % r'\w+\.type', True)]) for e in cleared[t]) for t in ('setter', 'getter'))
             and all(any(gsa.impossible(IA, e, [(r'^\w+\.introspectable$', True)]) for e in cleared[t]) for t in ('set_property', 'get_property')),
             'non-introspectable property clears all four references', rel, ia.lineno, 'stores: %s' % dict((k, [repr(e)[:160] for e in v]) for k, v in cleared.items()))
    # emitter consistency
    cmpc = [c for c in gsa.find(CA, 'call', r'^\w+\.type\.is_equiv$') if c.args and re.search(r'\.parameters\[', c.args[0])]
    okidx = False
    detail = [c.value for c in cmpc]
    for c in cmpc:
        mm = re.match(r'^(\w+)\.parameters\[(\w+)\]\.type$', c.args[0])
        lp_ok = any(re.search(r'^enumerate\(%s\.parameters\)' % co, l) for l in c.loops)
        if mm and lp_ok:
            # the index variable must be the enumerate counter of the signal's own parameters and the receiver the loop element
            for n in ast.walk(ca):
                if isinstance(n, ast.For) and isinstance(n.target, ast.Tuple) and len(n.target.elts) == 2 and P.call_name(n.iter) == 'enumerate' and \
                        isinstance(n.target.elts[0], ast.Name) and n.target.elts[0].id == mm.group(2):
                    okidx = True
    r4.check(okidx, 'emitter: signal parameter i is compared with method parameter i', rel, ca.lineno,
             'the emitter check compares %s: the instance parameter is not part of method.parameters, so an offset is off by one and raises IndexError '
             'for every (emitter) on a signal with arguments' % detail, detail=detail)
    EQ = r'^\w+\.type\.is_equiv\(\w+\.parameters\[\w+\]\.type\)$'
    clr = [e for e in gsa.find(CA, 'store', r'^%s\.emitter$' % co, r'^None$') if any(re.search(EQ, a_) for a_ in gsa.atoms(e.cond))]
    r4.check(len(clr) >= 1 and all(gsa.impossible(CA, e, [(EQ, True)]) and gsa.allowed(CA, e, [(EQ, False), (r'\.skip$|is_inline$| is None$', False)]) for e in clr),
             'emitter dropped only when parameter types differ', rel, clr[0].line if clr else ca.lineno, 'emitter is cleared when %s' % ([e.when()[-200:] for e in clr]), detail=[e.when()[-160:] for e in clr])
    LEN = r'^len\(\w+\.parameters\) == len\(\w+\.parameters\)$'
    cnt = [e for e in gsa.find(CA, 'store', r'^%s\.emitter$' % co, r'^None$') if any(re.search(LEN, a_) for a_ in gsa.atoms(e.cond)) and gsa.impossible(CA, e, [(LEN, True), (EQ, True), (r'retval\.type\.is_equiv', True)])]
    r4.check(bool(cnt), 'emitter: parameter counts compared', rel, ca.lineno, 'count check changed')
    # names only via raising lookups
    TT = gsa.summarise(ctx, 'girwriter', 'GIRWriter._type_to_name', inline_only=())
    rs = [e for e in TT.effects if e.kind == 'raise' and gsa.impossible(TT, e, [(r'^%s\.resolved$' % re.escape(TT.P(1)), True)]) and gsa.allowed(TT, e, [(r'^%s\.resolved$' % re.escape(TT.P(1)), False)])]
    r4.check(bool(rs), 'unresolved type names cannot be written', 'giscanner/girwriter.py', TT.func.lineno, '_type_to_name no longer raises for an unresolved type')
    from . import c07
    okrel, rels = c07.relative_name_ok(ctx)
    r4.check(okrel, 'type references are written relative to exactly "<Namespace>."', 'giscanner/girwriter.py', TT.func.lineno,
             '_type_to_name does not strip exactly the prefix "<namespace name>.": a reference to a type of an included namespace whose name starts with this namespace\'s name '
             '(Gdk -> GdkPixbuf.Pixbuf) is written as a dangling local name', detail=rels)
    for fn in ('Callable.get_parameter_index', 'Compound.get_field_index'):
        g = py.func('ast', fn)
        r4.check(raises_on_dangling(ctx, fn), '%s raises on a dangling name' % fn, 'giscanner/ast.py', g.lineno, '%s does not raise' % fn)
    RN = gsa.summarise(ctx, MT, 'MainTransformer._apply_annotation_rename_to')
    sb = gsa.find(RN, 'store', r'\.shadowed_by$') + gsa.find(RN, 'store', r'\.shadows$')
    r4.check(len(sb) == 2 and gsa.equiv(sb[0].cond, sb[1].cond), 'shadows / shadowed-by stored on the same path', mt.rel, RN.func.lineno, 'rename-to stores: %s' % sb)
    # invoker must be a method of the same type: stored while iterating the parent's own virtual methods
    inv_helpers = [mn for mn, mf in py.methods(MT, 'MainTransformer').items()
                   if any(isinstance(n, ast.Attribute) and n.attr == 'invoker' and isinstance(n.ctx, ast.Store) for n in ast.walk(mf))]
    P2 = gsa.summarise(ctx, MT, 'MainTransformer._pass_read_annotations2', inline_only=inv_helpers)
    inv = gsa.find(P2, 'store', r'^\w+\.invoker$', r'^%s\.name$' % re.escape(P2.P(1)))
    r4.check(any(any(l.endswith('.virtual_methods') for l in e.loops) for e in inv), 'invoker recorded on a vfunc of the method\'s own parent', mt.rel, P2.func.lineno,
             'invoker stores: %s' % inv)


def included_flags_rule(ctx, r2):
    """dependency GIRs are read with types_only=True: skip / introspectable of their definitions must still be read"""
    GA = gsa.summarise(ctx, 'girparser', 'GIRParser._parse_generic_attribs', inline_only=())
    ob = re.escape(GA.P(2))
    for attr in ('skip', 'introspectable'):
        st = gsa.find(GA, 'store', r'^%s\.%s$' % (ob, attr))
        r2.check(bool(st) and all(gsa.can_hold(e.cond, {'self._types_only': True}) for e in st if not re.search(r'^(False|True)$', e.value) or True), 'included definitions keep their %s flag' % attr,
                 'giscanner/girparser.py', st[0].line if st else GA.func.lineno,
                 'GIRParser reads %s only when not types_only: every definition of an included namespace then counts as introspectable, and users of a non-introspectable '
                 'included type stay introspectable' % attr)


def _ancestors(n):
    n = P.parent(n)
    while n is not None:
        yield n
        n = P.parent(n)


def type_verdict_rule(ctx, r2):
    """verdicts of IntrospectablePass._type_is_introspectable under abstract valuations (shared with C15: what stays introspectable must be compilable)"""
    py = ctx.py
    rel = py.mod(IP).rel
    tp = py.func(IP, 'IntrospectablePass._type_is_introspectable')
    TP = gsa.summarise(ctx, IP, 'IntrospectablePass._type_is_introspectable')
    tv = re.escape(TP.P(1))

    def tdecide(resolved=True, unknown=False, kind=None, foreign=False, fundamental=None, found=True):
        def dec(a_):
            if re.search(r'^%s\.resolved$' % tv, a_):
                return resolved
            mm = re.search(r'^isinstance\(%s, ast\.(\w+)\)$' % tv, a_)
            if mm:
                return (mm.group(1) == 'TypeUnknown' and unknown) or mm.group(1) == kind
            if re.search(r'^%s\.target_foreign$' % tv, a_):
                return foreign
            if re.search(r'^%s\.target_fundamental$' % tv, a_):
                return fundamental is not None
            mm = re.search(r'^%s\.is_equiv\((.*)\)$' % tv, a_)
            if mm:
                return fundamental is not None and fundamental in re.findall(r'ast\.(TYPE_\w+)', mm.group(1))
            if re.search(r'lookup_typenode\(%s\)$' % tv, a_):
                return found
            return None
        return dec

    def verdict(**kw):
        return gsa.truth_returns(TP, tdecide(**kw))
    for what, kw in (('unresolved', dict(resolved=False)), ('TypeUnknown', dict(unknown=True)), ('va_list', dict(fundamental='TYPE_VALIST')), ('long long', dict(fundamental='TYPE_LONG_LONG')),
                     ('unsigned long long', dict(fundamental='TYPE_LONG_ULONG')), ('long double', dict(fundamental='TYPE_LONG_DOUBLE')), ('unknown target', dict(found=False))):
        got = verdict(**kw)
        r2.check(got == [(False, True)], '%s -> not introspectable' % what, rel, tp.lineno, 'a type that is %s is judged %s' % (what, got), detail=str(got))
    got = verdict(fundamental='TYPE_INT')
    r2.check(got == [(True, True)], 'ordinary fundamental types are introspectable', rel, tp.lineno, 'gint is judged %s' % got)
    got = verdict()
    r2.check(len(got) == 1 and isinstance(got[0][0], str) and re.search(r'\.introspectable and \(?not .*\.skip\)?$', got[0][0]), 'target must itself be introspectable and not skipped', rel, tp.lineno,
             'for a registered target the verdict is %s' % got)
    for kind in ('Array', 'List'):
        got = verdict(kind=kind)
        r2.check(got == [('self._type_is_introspectable(%s.element_type)' % TP.P(1), True)], 'recursion into %s elements' % kind.lower(), rel, tp.lineno, 'element recursion changed: %s' % got)
    got = verdict(kind='Map')
    r2.check(len(got) == 1 and isinstance(got[0][0], str) and '_type_is_introspectable(%s.key_type)' % TP.P(1) in got[0][0] and '_type_is_introspectable(%s.value_type)' % TP.P(1) in got[0][0] and ' and ' in got[0][0],
             'recursion into map key and value', rel, tp.lineno, 'map recursion changed: %s' % got)
    got = verdict(resolved=False, kind='Array')
    r2.check(got == [(False, True)], 'resolution checked first', rel, tp.lineno, 'an unresolved array type is judged %s' % got)

    included_flags_rule(ctx, r2)


def raises_on_dangling(ctx, qual):
    """the name -> index lookup cannot return normally for an unknown name: a raise (in the function or an in-class helper it calls) or list.index()"""
    S = gsa.Summary(ctx.py, 'ast', qual, inline_only=None)
    return bool(gsa.find(S, 'raise')) or bool(gsa.find(S, 'call', r'\.index$'))
