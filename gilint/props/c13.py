"""C13 — enumeration members and constants keep correct names, types and values."""
import ast
import re

from ..core import AnalysisError
from .. import pyfront as P
from .. import gsa

EXPLANATION = ('Static rules over giscanner/transformer.py and girwriter.py: the unsigned-wrap modulus '
               'of every fixed-width unsigned constant equals its type width; enum members are built '
               'verbatim (ident, const_int) in declaration order and written unsorted; bitfield routing; '
               'constant typing rows. Decides the structural necessary conditions, not the common-prefix '
               'results on arbitrary member names.')


def check(ctx):
    py = ctx.py
    tm = py.mod('transformer')
    rel = tm.rel

    # ---- R1 width agreement
    r1 = ctx.rule('R1', 'unsigned wrap modulus = width of the guarded fixed-width type', floor=4)
    CC = gsa.summarise(ctx, 'transformer', 'Transformer._create_const', opaque=('_create_type_from_base', '_strip_symbol', '_resolve_type_from_ctype'))
    f = CC.func
    sym = CC.P(1)
    consts = [e for e in CC.effects if e.kind == 'call' and e.target == 'ast.Constant' and e.vnode is not None]
    if len(consts) < 4:
        raise AnalysisError('_create_const: ast.Constant(...) constructions not found')
    cinit = py.func('ast', 'Constant.__init__')

    def cargs(e):
        return P.bind_call(e.vnode, cinit)

    def modulus(n):
        out = []
        for b_ in ast.walk(n):
            if isinstance(b_, ast.BinOp) and isinstance(b_.op, ast.Mod) and not (isinstance(b_.left, ast.Constant) and isinstance(b_.left.value, str)):
                v = py.try_fold(b_.right, tm)
                if isinstance(v, int):
                    out.append(v)
        return out
    UEQ = re.compile(r' == ast\.TYPE_UINT(\d+)$|^ast\.TYPE_UINT(\d+) == ')
    for w in (8, 16, 32, 64):
        def dec(a_, w=w):
            mm = UEQ.search(a_)
            if mm:
                return int(mm.group(1) or mm.group(2)) == w
            return None
        val = dict((a_, dec(a_)) for a_ in CC.atoms() if dec(a_) is not None)
        if not val:
            r1.fail('TYPE_UINT%d' % w, rel, f.lineno, 'no unsigned-wrap branch for guint%d in _create_const' % w)
            continue
        alts = [e for e in consts if 'const_int' in e.value and gsa.can_hold(e.cond, val)]
        mods = [(e, modulus(cargs(e).get('value'))) for e in alts if cargs(e).get('value') is not None]
        if not mods or any(not m_ for e, m_ in mods):
            r1.fail('TYPE_UINT%d' % w, rel, f.lineno, 'a constant of type guint%d is not reduced modulo 2**%d: %s' % (w, w, [e.value[:80] for e, m_ in mods if not m_][:2]))
            continue
        for e, ms in mods:
            for v in ms:
                r1.check(v == 2 ** w, 'TYPE_UINT%d' % w, rel, e.line,
                         'constant of type guint%d is wrapped modulo %d (= 2**%s), not 2**%d: value can lie '
                         'outside its type' % (w, v, (v.bit_length() - 1) if v > 0 and v & (v - 1) == 0 else '?', w),
                         detail={'modulus': v})
    r1.exhaustive = True
    # unsigned types whose width is not fixed by their name
    guarded = set(re.findall(r'ast\.(TYPE_\w+)', ' '.join(CC.atoms())))
    unsigned_other = ['TYPE_USHORT', 'TYPE_UINT', 'TYPE_ULONG', 'TYPE_SIZE', 'TYPE_UINTPTR', 'TYPE_LONG_ULONG']
    missing = [t for t in unsigned_other if t not in guarded]
    r1.check(not missing, 'non-fixed-width unsigned types are wrapped', rel, f.lineno,
             'constants of the unsigned types %s have no wrap branch in _create_const: `#define X ((guint) -1)` is emitted as value "-1" of type guint, outside the '
             'range of its type (only guint8/16/32/64 are reduced modulo their width)' % missing, detail=missing)

    # ---- R2 members verbatim, declaration order
    r2 = ctx.rule('R2', 'enum members verbatim (ident, const_int), declaration order, bitfield routing', floor=8)
    CE = gsa.summarise(ctx, 'transformer', 'Transformer._create_enum', opaque=('_strip_symbol', '_enum_common_prefix'))
    f = CE.func
    esym = CE.P(1)
    member_init = py.func('ast', 'Member.__init__')
    mcalls = [e for e in CE.effects if e.kind == 'call' and e.target == 'ast.Member' and e.vnode is not None]
    if not mcalls:
        raise AnalysisError('_create_enum: no ast.Member(...) construction found')
    CHILD = '%s.base_type.child_list' % esym
    lvs = set()
    for e in mcalls:
        b = P.bind_call(e.vnode, member_init)
        r2.check(e.loops == (CHILD,), 'member loop order', rel, e.line,
                 'members are not created by walking child_list in declaration order: loops %s' % (e.loops,), detail=list(e.loops))
        val, symb, nm = b.get('value'), b.get('symbol'), b.get('name')
        lv = gsa._unparse(symb).rsplit('.', 1)[0] if symb is not None and gsa._unparse(symb).endswith('.ident') else None
        lvs.add(lv)
        r2.check(lv is not None and val is not None and gsa._unparse(val) == '%s.const_int' % lv, 'Member.value', rel, e.line,
                 'member value is not the declared integer verbatim: %s' % (gsa._unparse(val) if val is not None else None), detail=gsa._unparse(val) if val is not None else None)
        r2.check(lv is not None, 'Member.symbol', rel, e.line, 'member c:identifier is not the original C identifier: %s' % (gsa._unparse(symb) if symb is not None else None))
        ok = isinstance(nm, ast.Call) and isinstance(nm.func, ast.Attribute) and nm.func.attr == 'lower' and not nm.args
        r2.check(ok, 'Member.name lower-cased', rel, e.line, 'member name is not lower-cased: %s' % (gsa._unparse(nm) if nm is not None else None))
        if ok and lv:
            t = gsa._unparse(nm.func.value)
            good = t == 'self._strip_symbol(%s)' % lv or re.match(r'^%s\.ident\[len\(self\._enum_common_prefix\(%s\)\):\]$' % (re.escape(lv), re.escape(esym)), t)
            r2.check(good, 'Member.name derivation', rel, e.line,
                     'member name must be child.ident with the common prefix sliced off, or the namespace-stripped symbol; found %s' % t, detail=t)
            if t.startswith('self._strip_symbol('):
                r2.check(gsa.impossible(CE, e, [(r'_enum_common_prefix\(', True)]), 'prefix length', rel, e.line, 'the namespace-stripped name is used although a common prefix exists')
            else:
                r2.check(gsa.impossible(CE, e, [(r'_enum_common_prefix\(', False)]), 'prefix length', rel, e.line, 'the prefix slice is used although there is no common prefix')
    names = sorted(set(('strip' if 'self._strip_symbol(' in e.value else 'slice') for e in mcalls))
    r2.check(names == ['slice', 'strip'], 'both member-name derivations present', rel, f.lineno, 'member names derived by %s' % names)
    # private members skipped only
    lv = sorted(x for x in lvs if x)[0] if any(lvs) else 'child'
    made = gsa.cond_any(mcalls)
    want = gsa.conj(*[gsa.atom(a_) for a_ in gsa.atoms(made) if a_.startswith('@iter:')] + [gsa.neg(gsa.atom('%s.private' % lv))])
    r2.check(gsa.equiv(made, want), 'member skip condition', rel, f.lineno,
             'a member is dropped under a condition other than "private": members are created when %s' % gsa.show(made)[:200], detail=gsa.show(made)[:200])
    # appended in order, passed as members=
    apps = [e for e in CE.effects if e.kind == 'call' and re.match(r'^\w+\.append$', e.target) and e.args and e.args[0].startswith('ast.Member(')]
    listname = apps[0].target.split('.')[0] if apps else None
    r2.check(listname is not None and len(apps) == len(mcalls), 'members list build', rel, f.lineno, 'the constructed Member is not appended to a list')
    if listname:
        other = [e for e in CE.effects if e.kind == 'call' and e.target.startswith(listname + '.') and not e.target.endswith('.append')]
        inits = [P.src(v) for t, v, s_ in P.stores_in(f) if isinstance(t, ast.Name) and t.id == listname]
        r2.check(not other and inits == ['[]'], 'members list order', rel, f.lineno,
                 'member list is reordered or re-initialised: %s %s' % ([e.value for e in other], inits))
    # bitfield routing
    BF = r'^%s\.base_type\.is_bitfield$' % re.escape(esym)
    en = gsa.returns_under(CE, gsa.decide_by([(BF, False)]))
    bf = gsa.returns_under(CE, gsa.decide_by([(BF, True)]))
    r2.check(len(en) == 1 and en[0][0].startswith('ast.Enum(') and len(bf) == 1 and bf[0][0].startswith('ast.Bitfield('), 'is_bitfield -> ast.Bitfield', rel, f.lineno,
             'flags-style enumeration is not routed to ast.Bitfield (and plain to ast.Enum): %s / %s' % ([x[0][:40] for x in en], [x[0][:40] for x in bf]))
    okc = True
    for got, cls_ in ((en, 'Enum'), (bf, 'Bitfield')):
        if len(got) != 1 or not isinstance(got[0][1], ast.Call):
            okc = False
            continue
        bb = P.bind_call(got[0][1], py.func('ast', '%s.__init__' % cls_))
        okc = okc and bb.get('members') is not None and gsa._unparse(bb.get('members')) == listname and bb.get('ctype') is not None and gsa._unparse(bb.get('ctype')) == '%s.ident' % esym
    r2.check(okc, 'enum construction', rel, f.lineno, 'enum node is not built from the collected members / original ident')
    # ast.Enum / ast.Bitfield keep the list as given
    am = py.mod('ast')
    for cname in ('Enum', 'Bitfield'):
        init = py.func('ast', '%s.__init__' % cname)
        st = [P.src(v) for t, v, s in P.stores_in(init) if P.src(t) == 'self.members']
        r2.check(st == ['members'], 'ast.%s.members' % cname, am.rel, init.lineno,
                 'ast.%s does not keep the member list as given: %s' % (cname, st))
    # writer: unsorted member loops, tags
    wm = py.mod('girwriter')
    from .. import wattr
    W = wattr.WriterModel(py)
    for fn, tag in (('_write_enum', 'enumeration'), ('_write_bitfield', 'bitfield')):
        els = [e for e in W.by_tag().get(tag, [])]
        r2.check(len(els) >= 1, '%s element name' % fn, wm.rel, 1, 'no <%s> element is written' % tag)
        for el in els:
            kids = [c for c in el.children if isinstance(c, wattr.Element) and c.tag == 'member']
            loops = [l for c in kids for l in (c.repeat or [])[-1:]]
            r2.check(bool(kids) and all(re.match(r'^\w+\.members$', l) for l in loops) and len(loops) == len(kids), '%s member loop' % fn, wm.rel, el.line,
                     'members must be written in stored order (no sorting): member elements are written inside loops over %s' % loops, detail=loops)
    # dispatch: Bitfield -> _write_bitfield, Enum -> _write_enum
    wn = py.func('girwriter', 'GIRWriter._write_node')
    # from the writer model: <enumeration> is emitted under isinstance(node, ast.Enum), <bitfield> under isinstance(node, ast.Bitfield)
    # (whether the dispatch is an if-chain or a table of (class, writer) pairs)
    disp = {}
    for tag_, cls_ in (('enumeration', 'ast.Enum'), ('bitfield', 'ast.Bitfield')):
        els_ = W.by_tag().get(tag_, [])
        disp[cls_] = sorted(set(t_ for e_ in els_ for t_, pol_ in e_.guards if pol_ and re.match(r'^isinstance\(\w+, ast\.\w+\)$', t_)))
    okdisp = any(t_.endswith(', ast.Enum)') for t_ in disp['ast.Enum']) and not any(t_.endswith(', ast.Bitfield)') for t_ in disp['ast.Enum']) and \
        any(t_.endswith(', ast.Bitfield)') for t_ in disp['ast.Bitfield']) and not any(t_.endswith(', ast.Enum)') for t_ in disp['ast.Bitfield'])
    r2.check(okdisp, 'writer dispatch enum/bitfield', wm.rel, wn.lineno, 'writer dispatch for Enum/Bitfield is %s / %s'
             % (disp.get('ast.Enum'), disp.get('ast.Bitfield')))
    # _write_member attrs
    mem = [e for e in W.by_tag().get('member', [])]
    okm = bool(mem)
    for el in mem:
        pairs = dict((r_.key, r_.value) for r_ in el.rows if r_.key in ('name', 'value', 'c:identifier'))
        base = pairs.get('name', '').rsplit('.', 1)[0]
        okm = okm and pairs == {'name': '%s.name' % base, 'value': 'str(%s.value)' % base, 'c:identifier': '%s.symbol' % base}
    r2.check(okm, '_write_member attributes', wm.rel, mem[0].line if mem else 1, 'member attributes written: %s' % [[(r_.key, r_.value) for r_ in el.rows][:4] for el in mem], detail=str(okm))

    # ---- R3 constant typing
    r3 = ctx.rule('R3', 'constant typing rows: string/boolean/double/int; private and non-header constants dropped', floor=7)
    f = CC.func
    S_ = re.escape(sym)

    def rows_when(spec):
        val = gsa.valuation(CC, spec)
        return [cargs(e) for e in consts if gsa.can_hold(e.cond, val)]
    BASE = [(r"^%s\.ident\.startswith\('_'\)$" % S_, False), (r'^%s\.source_filename is None$' % S_, False), (r"^%s\.source_filename\.endswith\('\.h'\)$" % S_, True)]
    NONE = lambda k, v: (r'^%s\.%s is None$' % (S_, k), v)
    d = rows_when(BASE + [NONE('const_string', False)])
    r3.check(bool(d) and all(gsa._unparse(x.get('value_type')) == 'ast.TYPE_STRING' and gsa._unparse(x.get('value')) == '%s.const_string' % sym for x in d), 'string constant', rel, f.lineno,
             'string constants must be typed utf8 with the value verbatim: %s' % [(gsa._unparse(x.get('value_type')), gsa._unparse(x.get('value'))) for x in d][:3])
    for truth, text in ((True, "'true'"), (False, "'false'")):
        d = rows_when(BASE + [NONE('const_string', True), NONE('const_int', True), NONE('const_boolean', False), (r'^%s\.const_boolean$' % S_, truth)])
        r3.check(bool(d) and all(gsa._unparse(x.get('value_type')) == 'ast.TYPE_BOOLEAN' and gsa._unparse(x.get('value')) == text for x in d), 'boolean constant %s' % text, rel, f.lineno,
                 'boolean constants must be gboolean true/false: %s' % [(gsa._unparse(x.get('value_type')), gsa._unparse(x.get('value'))) for x in d][:3])
    d = rows_when(BASE + [NONE('const_string', True), NONE('const_int', True), NONE('const_boolean', True), NONE('const_double', False)])
    r3.check(bool(d) and all(gsa._unparse(x.get('value_type')) == 'ast.TYPE_DOUBLE' and '%s.const_double' % sym in gsa._unparse(x.get('value')) for x in d), 'double constant', rel, f.lineno,
             'double constants: %s' % [(gsa._unparse(x.get('value_type')), gsa._unparse(x.get('value'))) for x in d][:3])
    d = rows_when(BASE + [NONE('const_string', True), NONE('const_int', False)])
    tv = sorted(set(gsa._unparse(x.get('value_type')) for x in d))
    r3.check(tv == ['ast.TYPE_INT', 'self._create_type_from_base(%s.base_type)' % sym], 'integer constant type', rel, f.lineno,
             'integer constants take the declared base type or gint: %s' % tv, detail=tv)
    vv = sorted(set(gsa._unparse(x.get('value')) for x in d))
    r3.check(any(v in ('str(%s.const_int)' % sym, "'%%d' %% (%s.const_int,)" % sym) for v in vv) and all('%s.const_int' % sym in v for v in vv), 'integer constant value', rel, f.lineno,
             'integer constants are written as declared: %s' % vv)
    # early None returns
    got = gsa.returns_under(CC, gsa.decide_by([(r"^%s\.ident\.startswith\('_'\)$" % S_, True)]))
    r3.check([g[0] for g in got] == ['None'], 'underscore constants dropped', rel, f.lineno, 'identifiers starting with an underscore yield %s' % [g[0][:40] for g in got])
    got = gsa.returns_under(CC, gsa.decide_by([(r"^%s\.ident\.startswith\('_'\)$" % S_, False), (r'^%s\.source_filename is None$' % S_, False), (r"\.endswith\('\.h'\)$", False)]))
    got2 = gsa.returns_under(CC, gsa.decide_by([(r"^%s\.ident\.startswith\('_'\)$" % S_, False), (r'^%s\.source_filename is None$' % S_, True)]))
    r3.check([g[0] for g in got] == ['None'] and [g[0] for g in got2] == ['None'], 'non-header constants dropped', rel, f.lineno, 'constants outside .h files yield %s / %s' % ([g[0][:40] for g in got], [g[0][:40] for g in got2]))
    # construction: Constant(name, typeval, value, symbol.ident)
    okc = all(gsa._unparse(cargs(e).get('name')) == 'self._strip_symbol(%s)' % sym and gsa._unparse(cargs(e).get('ctype')) == '%s.ident' % sym for e in consts)
    r3.check(okc, 'Constant construction', rel, f.lineno, 'ast.Constant is not built from (stripped name, typeval, value, symbol.ident)')
    # writer
    cel = [e for e in W.by_tag().get('constant', [])]
    okw = bool(cel)
    for el in cel:
        pairs = dict((r_.key, r_.value) for r_ in el.rows if r_.key in ('name', 'value', 'c:type'))
        base = pairs.get('name', '').rsplit('.', 1)[0]
        okw = okw and pairs == {'name': '%s.name' % base, 'value': '%s.value' % base, 'c:type': '%s.ctype' % base}
    r3.check(okw, '_write_constant attributes', wm.rel, cel[0].line if cel else 1, 'constant attributes written: %s' % [[(r_.key, r_.value) for r_ in el.rows][:4] for el in cel])

    # ---- R4 common prefix is folded over every member, and "no shared word" is recognised
    r4 = ctx.rule('R4', 'common prefix folded over all members; empty prefix recognised; width guards see through aliases; dumped values keep their sign', floor=6)
    EP = gsa.summarise(ctx, 'transformer', 'Transformer._enum_common_prefix')
    f = EP.func
    CH = '%s.base_type.child_list' % EP.P(1)
    locs = [e for e in EP.effects if e.kind == 'local' and CH in e.loops]
    accs = sorted(set(e.target for e in locs))
    if len(accs) != 1:
        raise AnalysisError('_enum_common_prefix: member loop with one running prefix not recognised (%s)' % accs)
    acc = accs[0]
    firsts = [e for e in locs if re.match(r'^\w+\.ident$', e.value)]
    updates = [e for e in locs if e not in firsts]
    L = [gsa.atom(a_) for a_ in EP.atoms() if a_.startswith('@iter:%s#' % CH)]
    C_ = [gsa.atom(a_) for a_ in EP.atoms() if a_.startswith('@carried:%s#' % acc)]
    small = [a_ for a_ in EP.atoms() if re.match(r'^len\(.*child_list.*\) < 2$', a_)]
    ctx_ = gsa.conj(*(L + C_ + [gsa.neg(gsa.atom('%s is None' % acc))] + [gsa.neg(gsa.atom(a_)) for a_ in small]))
    r4.check(bool(updates) and bool(L) and bool(C_) and gsa.implies(ctx_, gsa.cond_any(updates)), 'every member after the first narrows the prefix', rel, updates[0].line if updates else f.lineno,
             'the common prefix is not recomputed for every member after the first (updates happen when %s): members that happen to start with the text accumulated so far '
             '(FOO_MODE_READ / FOO_MODE_READWRITE) are skipped and the prefix stops at a non-word boundary' % [e.when()[-160:] for e in updates][:2], detail=[e.when()[-160:] for e in updates][:3])
    r4.check(bool(firsts) and all(e.value.endswith('.ident') for e in firsts), 'prefix starts from the first member', rel, f.lineno, 'initial prefix: %s' % [e.value for e in firsts])
    # two members that differ in their very first word have no common prefix: the function must answer "none"
    inner = [n for n in f.body if isinstance(n, ast.FunctionDef)]
    if not inner:
        raise AnalysisError('_enum_common_prefix: nested word-prefix helper not found')
    listvars = [t.id for n in inner for t, v, st in P.stores_in(n) if isinstance(t, ast.Name) and isinstance(v, ast.List) and not v.elts]
    spec = [(r'^@', True), (r'^%s is None$' % re.escape(acc), False), (r'^len\(.*child_list.*\) < 2$', False), (r'^\w+ == \w+$', False)] + [(r'^%s$' % re.escape(v_), False) for v_ in listvars]
    got = gsa.returns_under(EP, gsa.decide_by(spec))
    vals = sorted(set(g[0] for g in got))
    r4.check(vals == ['None'], 'members sharing no word yield the empty prefix', rel, f.lineno,
             'when two members differ in their first word _enum_common_prefix() can return %s instead of None: the helper\'s "nothing in common" result is not the value the caller tests for, '
             'and member names lose their first character instead of the namespace prefix' % vals, detail=vals)
    # width guards see through aliases
    f = CC.func
    cmp_atoms = [a_ for a_ in CC.atoms() if UEQ.search(a_)]
    via = [a_ for a_ in cmp_atoms if 'resolve_aliases(' in a_]
    widths_via = set(int(UEQ.search(a_).group(1) or UEQ.search(a_).group(2)) for a_ in via)
    r4.check(widths_via == {8, 16, 32, 64}, 'unsigned-width guards look at the fully unaliased type', rel, f.lineno,
             'the type compared with TYPE_UINT<N> is not the result of resolve_aliases(): a constant cast to an alias of an alias of guint32 is not wrapped '
             '(comparisons: %s)' % [a_[:80] for a_ in cmp_atoms][:4], detail=[a_[:80] for a_ in cmp_atoms][:6])
    from . import c12
    c12.printed_value_signedness(ctx, r4)

    # values preserved from the scanned source: looked up under the name the member gets
    r5 = ctx.rule('R5', 'runtime-registered enumerations keep the scanned (exact) member values: the lookup key is the member name the scanner produced; '
                  'upper-case test on identifiers covers the whole prefix test; private members are skipped one at a time', floor=3)
    IE = gsa.summarise(ctx, 'gdumpparser', 'GDumpParser._introspect_enum')
    stores = [e for e in gsa.find(IE, 'store', r'^\w+\[.*\]$')]
    keyed = dict((e.target[:e.target.index('[')], e.target[e.target.index('[') + 1:-1]) for e in stores)     # dict name -> key expression
    mem = [e for e in gsa.find(IE, 'call', r'^ast\.Member$') if e.args]
    looked = 0
    for e in mem:
        for a_ in e.args[1:3]:
            m_ = re.match(r'^(\w+)\.get\((.*)\)(?:\[\d+\])?$', a_) or re.match(r'^(\w+)\[(.*)\]$', a_)
            if m_ and m_.group(1) in keyed:
                looked += 1
                r5.check(m_.group(2) == e.args[0] and re.search(r'\.name$', keyed[m_.group(1)]), '%s looked up under the new member name' % m_.group(1), 'giscanner/gdumpparser.py', e.line,
                         'the scanned value is stored under %s (the scanner\'s member name) but looked up with %s while the member is called %s: members whose nick contains "-" '
                         'lose their exact scanned value and get the 32-bit signed value of the runtime dump' % (keyed[m_.group(1)], m_.group(2)[:60], e.args[0][:60]), detail=[a_, e.args[0]])
        for at in gsa.atoms(e.cond):
            m_ = re.match(r'^(.*) in (\w+)$', at)
            mg_ = re.match(r'^(\w+)\.get\((.*)\) is None$', at)
            if mg_ and mg_.group(1) in keyed:
                m_ = re.match(r'^(.*) in (\w+)$', '%s in %s' % (mg_.group(2), mg_.group(1)))
            if m_ and m_.group(2) in keyed:
                r5.check(m_.group(1) == e.args[0], 'membership in %s tested with the new member name' % m_.group(2), 'giscanner/gdumpparser.py', e.line,
                         'the scanned values are keyed by %s but membership is tested with %s while the member is called %s' % (keyed[m_.group(2)], m_.group(1)[:60], e.args[0][:60]))
    r5.check(looked >= 1, 'scanned values take precedence over dumped ones', 'giscanner/gdumpparser.py', IE.func.lineno,
             '_introspect_enum no longer takes member values from the scanned enumeration: values above 2^31-1 are reported with the wrong sign')
    from . import c04
    c04.upper_family_rule(ctx, r5)
    # every public enumerator is visited: the member loop is never left early
    CE = gsa.summarise(ctx, 'transformer', 'Transformer._create_enum', opaque=('_enum_common_prefix',))
    in_loop = [e for e in CE.effects if any('child_list' in l for l in e.loops)]
    if not [e for e in in_loop if e.kind == 'call' and e.target.endswith('.append')]:
        raise AnalysisError('_create_enum: member loop over child_list not recognised')
    early = [e for e in in_loop if e.kind in ('break', 'return') and e.fn == '_create_enum']
    r5.check(not early, 'member loop of _create_enum visits every enumerator', rel, early[0].line if early else CE.func.lineno,
             'the loop over the enumerators is left early (%s when %s): members declared after that point are missing from the enumeration' %
             (early[0].kind if early else '', early[0].when()[-160:] if early else ''), detail=[(e.kind, e.when()[-120:]) for e in early])
