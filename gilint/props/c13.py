"""C13 — enumeration members and constants keep correct names, types and values."""
import ast
import re

from ..core import AnalysisError
from .. import pyfront as P

EXPLANATION = ('Static rules over giscanner/transformer.py and girwriter.py: the unsigned-wrap modulus '
               'of every fixed-width unsigned constant equals its type width; enum members are built '
               'verbatim (ident, const_int) in declaration order and written unsorted; bitfield routing; '
               'constant typing rows. Decides the structural necessary conditions, not the common-prefix '
               'results on arbitrary member names.')


def check(ctx):
    py = ctx.py
    tm = py.mod('transformer')
    rel = tm.rel

    # ---- R1 width agreement
    r1 = ctx.rule('R1', 'unsigned wrap modulus = width of the guarded fixed-width type', floor=4)
    f = py.func('transformer', 'Transformer._create_const')
    seen_widths = set()
    for n in P.walk_no_nested(f):
        if not isinstance(n, ast.If):
            continue
        widths = set()
        for c in ast.walk(n.test):
            if isinstance(c, ast.Compare):
                for side in [c.left] + c.comparators:
                    nm = py.const_name(side, tm) or ''
                    m = re.match(r'TYPE_UINT(\d+)$', nm)
                    if m:
                        widths.add(int(m.group(1)))
        if len(widths) != 1:
            continue
        width = widths.pop()
        seen_widths.add(width)
        mods = []
        for st in n.body:
            for b in ast.walk(st):
                if isinstance(b, ast.BinOp) and isinstance(b.op, ast.Mod):
                    v = py.try_fold(b.right, tm)
                    if isinstance(v, int):
                        mods.append((b, v))
        if not mods:
            r1.fail('TYPE_UINT%d' % width, rel, n.lineno,
                    'branch guarded by TYPE_UINT%d does not reduce the value modulo 2**%d' % (width, width))
            continue
        for b, v in mods:
            r1.check(v == 2 ** width, 'TYPE_UINT%d' % width, rel, b.lineno,
                     'constant of type guint%d is wrapped modulo %d (= 2**%s), not 2**%d: value can lie '
                     'outside its type' % (width, v, (v.bit_length() - 1) if v > 0 and v & (v - 1) == 0 else '?', width),
                     detail={'guard': P.src(n.test), 'modulus': v})
    for w in (8, 16, 32, 64):
        if w not in seen_widths:
            r1.fail('TYPE_UINT%d' % w, rel, f.lineno, 'no unsigned-wrap branch for guint%d in _create_const' % w)
    r1.exhaustive = True
    # unsigned types whose width is not fixed by their name
    guarded = set()
    for n in P.walk_no_nested(f):
        if isinstance(n, ast.Compare):
            for side in [n.left] + n.comparators:
                nm = py.const_name(side, tm) or ''
                if nm.startswith('TYPE_'):
                    guarded.add(nm)
    unsigned_other = ['TYPE_USHORT', 'TYPE_UINT', 'TYPE_ULONG', 'TYPE_SIZE', 'TYPE_UINTPTR', 'TYPE_LONG_ULONG']
    missing = [t for t in unsigned_other if t not in guarded]
    r1.check(not missing, 'non-fixed-width unsigned types are wrapped', rel, f.lineno,
             'constants of the unsigned types %s have no wrap branch in _create_const: `#define X ((guint) -1)` is emitted as value "-1" of type guint, outside the '
             'range of its type (only guint8/16/32/64 are reduced modulo their width)' % missing, detail=missing)

    # ---- R2 members verbatim, declaration order
    r2 = ctx.rule('R2', 'enum members verbatim (ident, const_int), declaration order, bitfield routing', floor=8)
    f = py.func('transformer', 'Transformer._create_enum')
    member_init = py.func('ast', 'Member.__init__')
    calls = [c for c in P.calls_in(f) if P.call_name(c) in ('ast.Member',)]
    if len(calls) != 1:
        raise AnalysisError('_create_enum: expected exactly one ast.Member(...) construction, found %d' % len(calls))
    call = calls[0]
    b = P.bind_call(call, member_init)
    # loop variable iterating child_list
    loop = None
    n = P.parent(call)
    while n is not None and n is not f:
        if isinstance(n, ast.For):
            loop = n
            break
        n = P.parent(n)
    if loop is None or not isinstance(loop.target, ast.Name):
        raise AnalysisError('_create_enum: Member construction is not inside a for loop over the children')
    lv = loop.target.id
    r2.check(P.src(loop.iter).endswith('.child_list') and 'sorted' not in P.src(loop.iter) and 'reversed' not in P.src(loop.iter),
             'member loop order', rel, loop.lineno,
             'members are not created by walking child_list in declaration order: %s' % P.src(loop.iter),
             detail=P.src(loop.iter))
    r2.check('value' in b and P.src(b['value']) == '%s.const_int' % lv, 'Member.value', rel, call.lineno,
             'member value is not the declared integer verbatim: %s' % P.src(b.get('value')), detail=P.src(b.get('value')))
    r2.check('symbol' in b and P.src(b['symbol']) == '%s.ident' % lv, 'Member.symbol', rel, call.lineno,
             'member c:identifier is not the original C identifier: %s' % P.src(b.get('symbol')))
    # name: must be <something derived from child.ident>.lower()
    nm = b.get('name')
    ok = isinstance(nm, ast.Call) and isinstance(nm.func, ast.Attribute) and nm.func.attr == 'lower' and not nm.args
    r2.check(ok, 'Member.name lower-cased', rel, call.lineno, 'member name is not lower-cased: %s' % P.src(nm))
    if ok and isinstance(nm.func.value, ast.Name):
        defs = [v for t, v, st in P.stores_in(f) if isinstance(t, ast.Name) and t.id == nm.func.value.id]
        texts = sorted(P.src(v) for v in defs)
        good = len(defs) == 2 and any(re.match(r'%s\.ident\[\w+:\]$' % lv, t) for t in texts) \
            and any(t == 'self._strip_symbol(%s)' % lv for t in texts)
        r2.check(good, 'Member.name derivation', rel, call.lineno,
                 'member name must be child.ident with the common prefix sliced off, or the namespace-stripped '
                 'symbol; found %s' % texts, detail=texts)
        # the slice length must be len(prefix) of the common prefix
        pl = [v for t, v, st in P.stores_in(f) if isinstance(t, ast.Name) and t.id == 'prefixlen']
        r2.check(sorted(P.src(v) for v in pl) == ['0', 'len(prefix)'], 'prefix length', rel, f.lineno,
                 'prefixlen must be len(prefix) or 0, found %s' % [P.src(v) for v in pl])
    # private members skipped only
    conts = [n for n in P.walk_no_nested(f) if isinstance(n, ast.Continue)]
    for c in conts:
        g = [x.text() for x in P.guards(c, stop=loop) if x.kind in ('if', 'early')]
        r2.check(g == ['%s.private' % lv], 'member skip condition', rel, c.lineno,
                 'a member is dropped under a condition other than "private": %s' % g, detail=g)
    # appended in order, passed as members=
    st_call = P.enclosing_stmt(call)
    listname = None
    pc = P.parent(call)
    if isinstance(pc, ast.Call) and isinstance(pc.func, ast.Attribute) and pc.func.attr == 'append' \
            and isinstance(pc.func.value, ast.Name):
        listname = pc.func.value.id
    r2.check(listname is not None, 'members list build', rel, call.lineno,
             'the constructed Member is not appended to a list: %s' % P.src(st_call))
    if listname:
        other = [c for c in P.calls_in(f) if isinstance(c.func, ast.Attribute) and isinstance(c.func.value, ast.Name)
                 and c.func.value.id == listname and c.func.attr != 'append']
        inits = [P.src(v) for t, v, s_ in P.stores_in(f) if isinstance(t, ast.Name) and t.id == listname]
        r2.check(not other and inits == ['[]'], 'members list order', rel, f.lineno,
                 'member list is reordered or re-initialised: %s %s' % ([P.src(c) for c in other], inits))
    # bitfield routing
    routed = None
    for n in P.walk_no_nested(f):
        if isinstance(n, ast.If) and P.src(n.test).endswith('.is_bitfield') and len(n.body) == 1 and len(n.orelse) == 1 \
                and isinstance(n.body[0], ast.Assign) and isinstance(n.orelse[0], ast.Assign):
            a, b_ = n.body[0], n.orelse[0]
            if P.src(a.targets[0]) == P.src(b_.targets[0]) and P.src(a.value) == 'ast.Bitfield' and P.src(b_.value) == 'ast.Enum':
                routed = P.src(a.targets[0])
    r2.check(routed is not None, 'is_bitfield -> ast.Bitfield', rel, f.lineno,
             'flags-style enumeration is not routed to ast.Bitfield (and plain to ast.Enum)')
    ctor = [c for c in P.calls_in(f) if routed and P.call_name(c) == routed]
    okc = False
    if len(ctor) == 1:
        bb = P.bind_call(ctor[0], py.func('ast', 'Enum.__init__'))
        bb2 = P.bind_call(ctor[0], py.func('ast', 'Bitfield.__init__'))
        okc = P.src(bb.get('members')) == listname and P.src(bb.get('ctype')) == 'symbol.ident' \
            and P.src(bb2.get('members')) == listname and P.src(bb2.get('ctype')) == 'symbol.ident'
    r2.check(okc, 'enum construction', rel, f.lineno, 'enum node is not built from the collected members / original ident')
    # ast.Enum / ast.Bitfield keep the list as given
    am = py.mod('ast')
    for cname in ('Enum', 'Bitfield'):
        init = py.func('ast', '%s.__init__' % cname)
        st = [P.src(v) for t, v, s in P.stores_in(init) if P.src(t) == 'self.members']
        r2.check(st == ['members'], 'ast.%s.members' % cname, am.rel, init.lineno,
                 'ast.%s does not keep the member list as given: %s' % (cname, st))
    # writer: unsorted member loops, tags
    wm = py.mod('girwriter')
    for fn, tag in (('_write_enum', 'enumeration'), ('_write_bitfield', 'bitfield')):
        wf = py.func('girwriter', 'GIRWriter.' + fn)
        loops = [n for n in P.walk_no_nested(wf) if isinstance(n, ast.For) and P.src(n.iter).endswith('.members')]
        r2.check(len(loops) == 1 and isinstance(loops[0].iter, ast.Attribute), '%s member loop' % fn, wm.rel, wf.lineno,
                 'members must be written in stored order (no sorting): %s' % [P.src(l.iter) for l in
                  [n for n in P.walk_no_nested(wf) if isinstance(n, ast.For)]])
        tags = [py.try_fold(c.args[0], wm) for c in P.calls_in(wf) if P.call_name(c) == 'self.tagcontext' and c.args]
        r2.check(tags == [tag], '%s element name' % fn, wm.rel, wf.lineno, 'element written is %s, expected %s' % (tags, tag))
    # dispatch: Bitfield -> _write_bitfield, Enum -> _write_enum
    wn = py.func('girwriter', 'GIRWriter._write_node')
    disp = {}
    for n in P.walk_no_nested(wn):
        if isinstance(n, ast.If) and isinstance(n.test, ast.Call) and P.call_name(n.test) == 'isinstance':
            disp[P.src(n.test.args[1])] = [P.call_name(s.value) for s in n.body if isinstance(s, ast.Expr)]
    r2.check(disp.get('ast.Bitfield') == ['self._write_bitfield'] and disp.get('ast.Enum') == ['self._write_enum'],
             'writer dispatch enum/bitfield', wm.rel, wn.lineno, 'writer dispatch for Enum/Bitfield is %s / %s'
             % (disp.get('ast.Enum'), disp.get('ast.Bitfield')))
    # _write_member attrs
    wmem = py.func('girwriter', 'GIRWriter._write_member')
    first = [s for s in wmem.body if isinstance(s, ast.Assign)][0]
    pairs = {}
    if isinstance(first.value, ast.List):
        for e in first.value.elts:
            if isinstance(e, ast.Tuple) and len(e.elts) == 2:
                pairs[py.try_fold(e.elts[0], wm)] = P.src(e.elts[1])
    r2.check(pairs == {'name': 'member.name', 'value': 'str(member.value)', 'c:identifier': 'member.symbol'},
             '_write_member attributes', wm.rel, wmem.lineno, 'member attributes written: %s' % pairs, detail=pairs)

    # ---- R3 constant typing
    r3 = ctx.rule('R3', 'constant typing rows: string/boolean/double/int; private and non-header constants dropped', floor=7)
    f = py.func('transformer', 'Transformer._create_const')
    rows = {}
    for t, v, st in P.stores_in(f):
        if isinstance(t, ast.Name) and t.id in ('typeval', 'value'):
            g = tuple(x.text() for x in P.guards(st) if x.kind == 'if')
            rows.setdefault(g, {})[t.id] = P.src(v)
    def row_for(atom):
        for g, d in rows.items():
            if g and g[-1] == atom:
                return d
        return None
    d = row_for('symbol.const_string is not None')
    r3.check(d == {'typeval': 'ast.TYPE_STRING', 'value': 'symbol.const_string'}, 'string constant', rel, f.lineno,
             'string constants must be typed utf8 with the value verbatim: %s' % d, detail=d)
    d = row_for('symbol.const_boolean is not None')
    r3.check(d == {'typeval': 'ast.TYPE_BOOLEAN', 'value': "'true' if symbol.const_boolean else 'false'"},
             'boolean constant', rel, f.lineno, 'boolean constants must be gboolean true/false: %s' % d, detail=d)
    d = row_for('symbol.const_double is not None')
    r3.check(d is not None and d.get('typeval') == 'ast.TYPE_DOUBLE' and 'symbol.const_double' in d.get('value', ''),
             'double constant', rel, f.lineno, 'double constants: %s' % d)
    # default int rows: typeval from base_type or TYPE_INT, fallback value str(const_int)
    ivals = [d for g, d in rows.items() if 'symbol.const_int is not None' in g]
    tv = sorted(x['typeval'] for x in ivals if 'typeval' in x)
    r3.check(tv == ['ast.TYPE_INT', 'self._create_type_from_base(symbol.base_type)'], 'integer constant type', rel, f.lineno,
             'integer constants take the declared base type or gint: %s' % tv, detail=tv)
    vv = [x['value'] for x in ivals if 'value' in x]
    r3.check('str(symbol.const_int)' in vv and all('symbol.const_int' in v for v in vv), 'integer constant value', rel, f.lineno,
             'integer constants are written as declared: %s' % vv)
    # early None returns
    rets = [n for n in P.walk_no_nested(f) if isinstance(n, ast.Return) and (n.value is None or P.src(n.value) == 'None')]
    gts = [' & '.join(x.text() for x in P.guards(r) if x.kind == 'if') for r in rets]
    r3.check(any("symbol.ident.startswith('_')" == g for g in gts), 'underscore constants dropped', rel, f.lineno,
             'no early return for identifiers starting with an underscore: %s' % gts)
    r3.check(any("endswith('.h')" in g and 'not' in g and 'source_filename is None' in g for g in gts),
             'non-header constants dropped', rel, f.lineno, 'no early return for constants outside .h files: %s' % gts)
    # construction: Constant(name, typeval, value, symbol.ident)
    cc = [c for c in P.calls_in(f) if P.call_name(c) == 'ast.Constant']
    okc = False
    if len(cc) == 1:
        bb = P.bind_call(cc[0], py.func('ast', 'Constant.__init__'))
        okc = {k: P.src(v) for k, v in bb.items()} == {'name': 'name', 'value_type': 'typeval', 'value': 'value', 'ctype': 'symbol.ident'}
    r3.check(okc, 'Constant construction', rel, f.lineno, 'ast.Constant is not built from (name, typeval, value, symbol.ident)')
    # writer
    wc = py.func('girwriter', 'GIRWriter._write_constant')
    first = [s for s in wc.body if isinstance(s, ast.Assign)][0]
    pairs = {}
    if isinstance(first.value, ast.List):
        for e in first.value.elts:
            if isinstance(e, ast.Tuple) and len(e.elts) == 2:
                pairs[py.try_fold(e.elts[0], wm)] = P.src(e.elts[1])
    r3.check(pairs == {'name': 'constant.name', 'value': 'constant.value', 'c:type': 'constant.ctype'},
             '_write_constant attributes', wm.rel, wc.lineno, 'constant attributes written: %s' % pairs, detail=pairs)

    # ---- R4 common prefix is folded over every member, and "no shared word" is recognised
    r4 = ctx.rule('R4', 'common prefix folded over all members; empty prefix recognised; width guards see through aliases; dumped values keep their sign', floor=6)
    f = py.func('transformer', 'Transformer._enum_common_prefix')
    loops = [n for n in f.body if isinstance(n, ast.For)]
    if len(loops) != 1 or not P.src(loops[0].iter).endswith('.child_list') or not isinstance(loops[0].target, ast.Name):
        raise AnalysisError('_enum_common_prefix: member loop not recognised')
    lp = loops[0]
    cv = lp.target.id
    folds = [(t, v, st) for t, v, st in P.stores_in(lp) if isinstance(t, ast.Name) and isinstance(v, ast.Call) and P.call_name(v) == 'common_prefix']
    if len(folds) != 1:
        raise AnalysisError('_enum_common_prefix: prefix = common_prefix(prefix, child.ident) not found')
    acc = folds[0][0].id
    gs = [g.text() for g in P.guards(folds[0][2], stop=lp) if g.kind in ('if', 'early')]
    r4.check(gs == ['not (%s is None)' % acc] and [P.src(a) for a in folds[0][1].args] == [acc, '%s.ident' % cv], 'every member after the first narrows the prefix', rel,
             folds[0][2].lineno, 'the common prefix is recomputed only when %s: members that happen to start with the text accumulated so far (FOO_MODE_READ / '
             'FOO_MODE_READWRITE) are skipped and the prefix stops at a non-word boundary' % gs, detail=gs)
    inits = [P.src(v) for t, v, st in P.stores_in(lp) if isinstance(t, ast.Name) and t.id == acc and not (isinstance(v, ast.Call) and P.call_name(v) == 'common_prefix')]
    r4.check(inits == ['%s.ident' % cv], 'prefix starts from the first member', rel, lp.lineno, 'initial prefix: %s' % inits)
    # sentinels the caller tests for
    sentinels = set()
    for n in P.walk_no_nested(f):
        if isinstance(n, ast.Compare) and isinstance(n.left, ast.Name) and n.left.id == acc and len(n.ops) == 1 and isinstance(n.ops[0], ast.Eq):
            v = py.try_fold(n.comparators[0], tm, default=Ellipsis)
            if v is not Ellipsis:
                sentinels.add(v)
    inner = [n for n in f.body if isinstance(n, ast.FunctionDef) and n.name == 'common_prefix']
    if not inner:
        raise AnalysisError('_enum_common_prefix: nested common_prefix() not found')
    cp = inner[0]
    for p_ in ast.walk(cp):
        for c_ in ast.iter_child_nodes(p_):
            c_._parent = p_
    listvar = [t.id for t, v, st in P.stores_in(cp) if isinstance(t, ast.Name) and isinstance(v, ast.List) and not v.elts]
    mism = [n for n in ast.walk(cp) if isinstance(n, ast.Return) and any(isinstance(g.test, ast.Compare) and isinstance(g.test.ops[0], ast.NotEq) for g in P.guards(n))]
    for rt in mism:
        gt = [g.text() for g in P.guards(rt)]
        nonempty = any(g == 'not (not %s)' % lv_ or g == lv_ for g in gt for lv_ in listvar)
        if nonempty:
            r4.ok('mismatch return with shared words', rel, rt.lineno)
            continue
        try:
            val = py.fold(rt.value, tm, dict((lv_, []) for lv_ in listvar))
        except P.Unfoldable:
            val = None
        r4.check(val in sentinels, 'members sharing no word yield the empty prefix', rel, rt.lineno,
                 'when two members differ in their first word common_prefix() returns %r, but _enum_common_prefix() only recognises %s as "no common prefix": '
                 'member names lose their first character instead of the namespace prefix' % (val, sorted(map(repr, sentinels))), detail={'returns': val})
    # width guards see through aliases
    f = py.func('transformer', 'Transformer._create_const')
    guard_vars = set()
    for n in P.walk_no_nested(f):
        if isinstance(n, ast.Compare) and isinstance(n.left, ast.Name) and re.match(r'TYPE_UINT\d+$', py.const_name(n.comparators[0], tm) or ''):
            guard_vars.add(n.left.id)
    if len(guard_vars) != 1:
        raise AnalysisError('_create_const: width guards do not test a single variable: %s' % sorted(guard_vars))
    gv = guard_vars.pop()
    srcs = [(P.src(v), st) for t, v, st in P.stores_in(f) if isinstance(t, ast.Name) and t.id == gv]
    ok = False
    for vtxt, st in srcs:
        # the value assigned under isinstance(..., ast.Type) must come from self.resolve_aliases(...)
        if isinstance(st.value, ast.Name):
            d = [P.src(v) for t, v, s_ in P.stores_in(f) if isinstance(t, ast.Name) and t.id == st.value.id]
            if any(x.startswith('self.resolve_aliases(') for x in d) and any('isinstance(%s, ast.Type)' % st.value.id == g.text() for g in P.guards(st)):
                ok = True
    r4.check(ok, 'unsigned-width guards look at the fully unaliased type', rel, f.lineno,
             'the type compared with TYPE_UINT<N> is not the result of resolve_aliases(): a constant cast to an alias of an alias of guint32 is not wrapped '
             '(assignments to %s: %s)' % (gv, [s_ for s_, x in srcs]), detail=[s_ for s_, x in srcs])
    from . import c12
    c12.printed_value_signedness(ctx, r4)
