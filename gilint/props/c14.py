"""C14 — every typelib entry can be found by name, GType name and error domain."""
import re

from ..core import AnalysisError
from .. import cfront as C
from .. import cgsa, gsa

EXPLANATION = ('clang AST rules over gthash.c, gitypelib.c, girmodule.c, girepository.c: every non-NULL result of the three '
               'directory lookups is control-dependent on strcmp(key, string-of-that-entry) == 0; the hash result is '
               'clamped with >= before indexing; builder and search agree on the index layout and on the header field '
               'that counts the indexed entries; no size/offset is implicitly narrowed below 32 bits; the negative GType '
               'cache is cleared on every registration; repository-level finders use these lookups.')

TL = 'girepository/gitypelib.c'
GH = 'girepository/gthash.c'
GM = 'girepository/girmodule.c'
GR = 'girepository/girepository.c'


def ns(s):
    return re.sub(r'\s+', '', s or '')


def int_width(qt):
    qt = (qt or '').replace('const ', '').strip()
    table = {'guint8': 8, 'gint8': 8, 'unsigned char': 8, 'char': 8, 'gchar': 8, 'guchar': 8, 'uint8_t': 8, 'int8_t': 8,
             'guint16': 16, 'gint16': 16, 'unsigned short': 16, 'short': 16, 'gushort': 16, 'gshort': 16, 'uint16_t': 16, 'int16_t': 16,
             'guint32': 32, 'gint32': 32, 'unsigned int': 32, 'int': 32, 'guint': 32, 'gint': 32, 'uint32_t': 32, 'int32_t': 32, 'gboolean': 32,
             'cmph_uint32': 32,
             'guint64': 64, 'gint64': 64, 'unsigned long': 64, 'long': 64, 'gsize': 64, 'gssize': 64, 'size_t': 64, 'gulong': 64, 'glong': 64,
             'uint64_t': 64, 'int64_t': 64}
    return table.get(qt)


def check(ctx):
    tl = ctx.c.tu(TL)
    gh = ctx.c.tu(GH)
    gm = ctx.c.tu(GM)
    gr = ctx.c.tu(GR)

    # ------------------------------------------------------------------ R1 hit is verified
    r1 = ctx.rule('R1', 'non-NULL lookup results are control-dependent on strcmp(key, string of that entry) == 0', floor=6)
    count_fields = {}
    NULLS = ('0', '((void*)0)', 'NULL', '')
    for fname, keyparam in (('g_typelib_get_dir_entry_by_name', 'name'), ('g_typelib_get_dir_entry_by_gtype_name', 'gtype_name'),
                            ('g_typelib_get_dir_entry_by_error_domain', 'error_domain')):
        f = tl.func(fname)
        b = tl.body(f)
        params = [p['name'] for p in tl.params(f)]
        if keyparam not in params:
            raise AnalysisError('%s lost its key parameter %s' % (fname, keyparam))
        LS = cgsa.summarise(ctx, TL, fname, opaque=('g_typelib_get_dir_entry', 'get_section_by_id'))
        nonnull = [e for e in LS.effects if e.kind == 'return' and e.fn == fname and e.value not in NULLS]
        if not nonnull:
            raise AnalysisError('%s has no non-NULL return' % fname)
        for e in nonnull:
            ok = False
            for a_ in gsa.atoms(e.cond):
                mm = re.match(r'^strcmp\((.*)\)$', a_)
                eq0 = re.match(r'^strcmp\((.*)\)\s*==\s*0$', a_)       # truth of a helper that returns `strcmp (...) == 0`
                if not mm and not eq0:
                    continue
                inside = (mm or eq0).group(1)
                uses_key = re.search(r'(^|\W)%s(\W|$)' % re.escape(keyparam), inside) is not None
                uses_entry = e.value in inside
                if uses_key and uses_entry and not gsa.can_hold(e.cond, {a_: True if mm else False}):
                    ok = True
            r1.check(ok, '%s: return %s' % (fname, e.value[:50]), TL, e.line,
                     '%s can return an entry without comparing the requested key with that entry\'s own string: a perfect-hash '
                     'hit (or a scan) for an absent key would be reported as some other entry' % fname,
                     detail=[a_[:120] for a_ in gsa.atoms(e.cond) if a_.startswith('strcmp(')])
        fields = set()
        for m in C.walk(b):
            if m.get('kind') == 'MemberExpr' and m.get('name') in ('n_entries', 'n_local_entries'):
                fields.add(m['name'])
        for hn in LS.inlined:
            for m in C.walk(tl.body(tl.func(hn))):
                if m.get('kind') == 'MemberExpr' and m.get('name') in ('n_entries', 'n_local_entries'):
                    fields.add(m['name'])
        count_fields[fname] = fields
    # both branches exist in by_name
    f = tl.func('g_typelib_get_dir_entry_by_name')
    BN = cgsa.summarise(ctx, TL, 'g_typelib_get_dir_entry_by_name', opaque=('g_typelib_get_dir_entry', 'get_section_by_id'))
    srch = [e for e in BN.effects if e.kind == 'call' and e.target == '_gi_typelib_hash_search']
    scan = [e for e in BN.effects if e.kind == 'return' and e.loops and e.value not in NULLS]
    r1.check(len(srch) == 1 and len(scan) >= 1, 'indexed lookup and linear fallback both present', TL, tl.line(f),
             'g_typelib_get_dir_entry_by_name lost its hash branch or its linear fallback')
    if srch:
        SEC = 'get_section_by_id(typelib,GI_SECTION_DIRECTORY_INDEX)'
        secs = [a_ for a_ in BN.atoms() if a_.startswith('get_section_by_id(') and 'DIRECTORY_INDEX' in a_]
        r1.check(len(secs) == 1 and gsa.equiv(srch[0].cond, gsa.atom(secs[0])), 'index used exactly when the section exists', TL, srch[0].line, 'hash search reached when %s' % gsa.show(srch[0].cond)[:200],
                 detail=gsa.show(srch[0].cond)[:200])
        ge = [e for e in BN.effects if e.kind == 'call' and e.target == 'g_typelib_get_dir_entry' and len(e.args) > 1 and re.match(r'^(\(\w+\))?_gi_typelib_hash_search\(.*\)\+1$', e.args[1])]
        r1.check(len(srch[0].args) > 1 and srch[0].args[1] == 'name' and bool(ge), 'hash result used as 0-based index of the 1-based directory', TL, srch[0].line,
                 'index returned by the hash is not converted to the directory\'s 1-based numbering')

    # ------------------------------------------------------------------ R2 bounded index
    r2 = ctx.rule('R2', 'hash value clamped (>= n_entries -> 0) before it indexes the table', floor=3)
    f = gh.func('_gi_typelib_hash_search')
    b = gh.body(f)
    HS = cgsa.summarise(ctx, GH, '_gi_typelib_hash_search')
    nent = HS.P(2)
    rets = [e for e in HS.effects if e.kind == 'return']
    if not rets:
        raise AnalysisError('_gi_typelib_hash_search: no return found')
    seen_hash = False
    for e in rets:
        mm = re.match(r'^(.*)\[(.*)\]$', e.value)
        if not mm:
            r2.fail('result is a table element', GH, e.line, '_gi_typelib_hash_search returns %s' % e.value[:80])
            continue
        idx = mm.group(2)
        if idx == '0':
            r2.ok('out-of-range value replaced by a valid index', GH, e.line)
            continue
        seen_hash = seen_hash or 'cmph_search_packed(' in idx
        INR = '%s < %s' % (idx, nent)
        r2.check(INR in gsa.atoms(e.cond) and not gsa.can_hold(e.cond, {INR: False}), 'clamp uses >=', GH, e.line,
                 'table[%s] is read when %s: cmph can return exactly n_entries (or more) for a string that is not a key, and table[n_entries] is one element '
                 'past the index' % (idx[:40], gsa.show(e.cond)[:120]), detail='index < n_entries required')
    r2.check(seen_hash and any(re.search(r'\[0\]$', e.value) for e in rets), 'clamp present', GH, gh.line(f), 'the hash value is not compared with n_entries before indexing the table')

    # ------------------------------------------------------------------ R3 builder / search layout agreement
    r3 = ctx.rule('R3', 'builder and search agree on layout (dirmap offset at 0, MPH at +4, guint16 table) and on the counted entries', floor=6)
    pk = gh.func('_gi_typelib_hash_builder_pack')
    pb, sb = gh.body(pk), b
    # pack side from its gated summary (static helpers inlined, locals copy-propagated): what is stored where
    PK = cgsa.CSummary(gh, '_gi_typelib_hash_builder_pack', keep_ptr_casts=True)
    pmem = re.escape(PK.P(1))
    pa = {}
    for e_ in PK.effects:
        if e_.kind == 'store' and re.match(r'^\*\(?\(guint32\*\)%s\)?$' % pmem, e_.target):
            pa['*((guint32*)mem)'] = e_.value
        if e_.kind == 'call' and e_.target == 'cmph_pack' and len(e_.args) > 1:
            pa['packed_mem'] = re.sub(r'\b%s\b' % pmem, 'mem', e_.args[1])
        if e_.kind == 'store':
            mt_ = re.match(r'^\(?(\(guint16\*\)\(%s\+builder->dirmap_offset\))\)?\[(.*)\]$' % pmem, e_.target)
            if mt_:
                pa['table'] = re.sub(r'\b%s\b' % pmem, 'mem', mt_.group(1))
                pa['table_index'] = mt_.group(2)
                pa['table_value'] = e_.value
    HK = cgsa.CSummary(gh, '_gi_typelib_hash_search', keep_ptr_casts=True)
    memp = HK.P(0)
    M = re.escape(memp)
    cm = [e for e in HK.effects if e.kind == 'call' and e.target == 'cmph_search_packed']
    kret = [e for e in HK.effects if e.kind == 'return']
    DM = r'\*\(?\(guint32\*\)%s\)?' % M
    r3.check(pa.get('*((guint32*)mem)') == 'builder->dirmap_offset' and kret and all(re.search(DM, e.value) for e in kret), 'dirmap offset stored/read at byte 0', GH,
             gh.line(pk), 'pack: %s / search returns: %s' % (pa.get('*((guint32*)mem)'), [e.value[:80] for e in kret][:2]))
    mph_ok = len(cm) == 1 and bool(re.match(r'^(\(guint8\*\))?\(?(\(\(guint32\*\)%s\)\+1|\(guint32\*\)%s\+1|%s\+sizeof\(guint32\)|\(%s\+sizeof\(guint32\)\))\)?$' % (M, M, M, M), cm[0].args[0] if cm and cm[0].args else ''))
    r3.check(pa.get('packed_mem') == '(guint8*)(mem+sizeof(guint32))' and mph_ok, 'MPH stored/read at byte 4', GH, gh.line(pk),
             'pack: %s / search: %s' % (pa.get('packed_mem'), [e.args[:1] for e in cm]))
    tab_ok = bool(kret) and all(re.match(r'^\(?\(guint16\*\)\(%s\+%s\)\)?\[' % (M, DM), e.value) for e in kret)
    r3.check(pa.get('table') == '(guint16*)(mem+builder->dirmap_offset)' and tab_ok, 'table position and element type', GH,
             gh.line(pk), 'pack: %s / search: %s' % (pa.get('table'), [e.value[:80] for e in kret][:2]))
    pr = gh.func('_gi_typelib_hash_builder_prepare')
    pra = {ns(gh.text_of(l)): ns(gh.text_of(r)) for l, r, st in C.assignments(gh.body(pr))}
    r3.check(pra.get('builder->packed_size') == 'builder->dirmap_offset+(num_elts*sizeof(guint16))' and 'sizeof(guint32)+cmph_packed_size' in pra.get('offset', ''),
             'buffer size covers header, MPH and one guint16 per entry', GH, gh.line(pr), 'packed_size = %s' % pra.get('builder->packed_size'))
    # table[hash] = value for every string
    st_tab = (pa.get('table_index', ''), pa.get('table_value', ''))
    r3.check(re.match(r'^cmph_search_packed\(\(guint8\*\)\(\w+\+sizeof\(guint32\)\),(\w+),strlen\(\1\)\)$', st_tab[0]) is not None and re.match(r'^\(guint16\)(\(\w+\))*value$', st_tab[1]) is not None,
             'each key stores its directory index at its hash slot', GH, gh.line(pk), 'table stores: %s' % (st_tab,))
    # the count: builder iterates the same header field the lookups use
    ad = gm.func('add_directory_index_section')
    bf = set(m['name'] for m in C.walk(gm.body(ad)) if m.get('kind') == 'MemberExpr' and m.get('name') in ('n_entries', 'n_local_entries'))
    for fname, fields in sorted(count_fields.items()):
        r3.check(fields == bf == {'n_local_entries'}, '%s counts the entries the index was built over' % fname, TL, 1,
                 '%s bounds its search by Header.%s but the index is built over Header.%s: names of non-local (cross-reference) entries '
                 'can be returned, or the clamp range is wrong' % (fname, sorted(fields), sorted(bf)), detail=sorted(fields))
    adds = C.calls(gm.body(ad), '_gi_typelib_hash_builder_add_string')
    ok = len(adds) == 1 and C.declref(C.call_args(adds[0])[2]) == 'i'
    r3.check(ok, 'entry i is indexed under value i', GM, gm.line(ad), 'builder add_string arguments changed')

    # ------------------------------------------------------------------ R4 no narrowing of sizes
    r4 = ctx.rule('R4', 'no size/offset is stored in an integer narrower than 32 bits', floor=4)
    SIZE_FUNCS = ('_gi_typelib_hash_builder_get_buffer_size', 'cmph_packed_size', 'g_hash_table_size', 'strlen')
    for tu, rel, fnames in ((gm, GM, ('add_directory_index_section', 'alloc_section')),
                            (gh, GH, ('_gi_typelib_hash_builder_prepare', '_gi_typelib_hash_builder_pack', '_gi_typelib_hash_builder_get_buffer_size'))):
        for fn in fnames:
            f = tu.func(fn)
            for d in C.walk(tu.body(f)):
                if d.get('kind') != 'VarDecl':
                    continue
                w = int_width(d.get('type', {}).get('qualType'))
                name = d.get('name', '')
                sizeish = bool(re.search(r'size|offset|len', name))
                # does it receive a size?
                recv = False
                for l, r, st in C.assignments(tu.body(f)):
                    if C.declref(l) == name:
                        if any(C.callee(c) in SIZE_FUNCS for c in C.calls(r)) or 'sizeof' in tu.text_of(r):
                            recv = True
                if C.kids(d):
                    init = C.kids(d)[-1]
                    if any(C.callee(c) in SIZE_FUNCS for c in C.calls(init)) or 'sizeof' in tu.text_of(init):
                        recv = True
                if not (sizeish or recv) or w is None:
                    continue
                r4.check(w >= 32, '%s: %s' % (fn, name), rel, tu.line(d),
                         '`%s %s` holds a byte size/offset in %d bits: beyond 65535 bytes (about 27000 directory entries, within the '
                         '65535 a typelib can hold) the value is truncated and the index cannot be built'
                         % (d.get('type', {}).get('qualType'), name, w), detail=d.get('type', {}).get('qualType'))
    # implicit narrowing casts on values coming from the size functions
    for tu, rel in ((gm, GM), (gh, GH)):
        for fn, f in sorted(tu.functions.items()):
            if not tu.in_main_file(f):
                continue
            for n in C.walk(tu.body(f)):
                if n.get('kind') == 'ImplicitCastExpr' and n.get('castKind') == 'IntegralCast':
                    dst = int_width(n.get('type', {}).get('qualType'))
                    src_ = C.kids(n)[0]
                    sw = int_width(src_.get('type', {}).get('qualType'))
                    if dst and sw and dst < sw and dst < 32 and any(C.callee(c) in SIZE_FUNCS[:2] for c in C.calls(src_)):
                        r4.fail('%s: implicit %d->%d bit cast' % (fn, sw, dst), rel, tu.line(n), 'size returned by %s is narrowed: %s' % (SIZE_FUNCS[:2], tu.text_of(n)[:80]))

    # byte offsets into the typelib are never narrowed below 32 bits (count * blob size exceeds 16 bits for large namespaces)
    OFFSETISH = re.compile(r'_blob_size$|^directory$|^size$|offset|^sections$|^attributes$|^annotations$')
    n_casts = 0
    for fn, f in sorted(tl.functions.items()):
        if not tl.in_main_file(f) or tl.body(f) is None:
            continue
        for n in C.walk(tl.body(f)):
            if n.get('kind') in ('ImplicitCastExpr', 'CStyleCastExpr') and n.get('castKind') == 'IntegralCast':
                dst = int_width(n.get('type', {}).get('qualType')) or int_width(n.get('type', {}).get('desugaredQualType'))
                src_ = C.kids(n)[-1]
                sw = int_width(src_.get('type', {}).get('qualType')) or int_width(src_.get('type', {}).get('desugaredQualType'))
                if not (dst and sw):
                    continue
                arith = [x for x in C.walk(src_) if x.get('kind') == 'BinaryOperator' and x.get('opcode') in ('*', '+', '<<')]
                hm = [x.get('name') for x in C.walk(src_) if x.get('kind') == 'MemberExpr' and C.base_record_type(x) == 'Header' and OFFSETISH.search(x.get('name') or '')]
                if not (arith and hm):
                    continue
                n_casts += 1
                r4.check(not (dst < sw and dst < 32), '%s: offset arithmetic on Header.%s kept in >= 32 bits' % (fn, '/'.join(sorted(set(hm)))), TL, tl.line(n),
                         'a byte offset computed from Header.%s is narrowed from %d to %d bits (`%s`): beyond 65535 bytes - about 5500 directory entries - the lookup '
                         'lands on another entry' % ('/'.join(sorted(set(hm))), sw, dst, tl.text_of(n)[:80]), detail={'from': sw, 'to': dst})

    # ------------------------------------------------------------------ R6 every blob kind written with a GType name is searchable by it
    r6 = ctx.rule('R6', 'lookup by GType name considers every blob kind the compiler writes with a gtype_name (writer cases of girnode.c vs the kind filter of the lookup)', floor=6)
    gn = ctx.c.tu('girepository/girnode.c')
    bt = gn.func('_g_ir_node_build_typelib')
    written = {}
    for sw in C.walk(gn.body(bt)):
        if sw.get('kind') != 'SwitchStmt' or not re.search(r'node->type$', re.sub(r'\s', '', gn.text_of(C.kids(sw)[0]))):
            continue
        for labels, stmts in C.switch_cases(gn, sw):
            kinds, named = set(), False
            for st in stmts:
                for l, r, a_ in C.assignments(st):
                    mp = C.member_path(l) or ''
                    if mp.endswith('->blob_type'):
                        kinds |= set(x['referencedDecl']['name'] for x in C.walk(r) if x.get('kind') == 'DeclRefExpr' and x.get('referencedDecl', {}).get('kind') == 'EnumConstantDecl' and x['referencedDecl']['name'].startswith('BLOB_TYPE_'))
                    elif mp.endswith('->gtype_name') and C.int_value(r) != 0:
                        named = True
            if named:
                for k_ in kinds:
                    written[k_] = labels
    if len(written) < 5:
        raise AnalysisError('girnode.c: blob kinds written with a gtype_name not recognised: %s' % sorted(written))
    # enumerator values
    evals = {}
    for d in tl.root.get('inner', []):
        if d.get('kind') == 'EnumDecl' and any(c.get('name') == 'BLOB_TYPE_STRUCT' for c in d.get('inner', [])):
            v = -1
            for c in d.get('inner', []):
                if c.get('kind') == 'EnumConstantDecl':
                    iv = [C.int_value(x) for x in C.kids(c)]
                    v = iv[0] if iv and iv[0] is not None else v + 1
                    evals[c['name']] = v
    if 'BLOB_TYPE_STRUCT' not in evals:
        raise AnalysisError('GTypelibBlobType enumerators not found')
    LG = cgsa.summarise(ctx, TL, 'g_typelib_get_dir_entry_by_gtype_name')
    hits = [e for e in gsa.find(LG, 'return') if e.value not in ('0', 'NULL') and e.fn == 'g_typelib_get_dir_entry_by_gtype_name']
    KIND = re.compile(r'^(?:(.*->blob_type) (==|<) (BLOB_TYPE_\w+)|(BLOB_TYPE_\w+) (<) (.*->blob_type))$')
    REVIEWED = {'BLOB_TYPE_BOXED': 'never accepted by the lookup in this code base (StructBlob written for <glib:boxed>); candidate defect, not confirmable here: no C build'}
    for kind_ in sorted(written):
        val = {}
        for a_ in LG.atoms():
            m_ = KIND.match(a_)
            if not m_:
                continue
            if m_.group(1):
                other = evals.get(m_.group(3))
                if other is not None:
                    val[a_] = (evals[kind_] == other) if m_.group(2) == '==' else (evals[kind_] < other)
            else:
                other = evals.get(m_.group(4))
                if other is not None:
                    val[a_] = other < evals[kind_]
        found = any(gsa.can_hold(e.cond, val) for e in hits)
        if kind_ in REVIEWED and not found:
            ctx.notes.append('R6: %s not searchable by GType name: %s' % (kind_, REVIEWED[kind_]))
            continue
        r6.check(found, '%s entries can be found by GType name' % kind_, TL, hits[0].line if hits else 1,
                 'the compiler writes %s blobs with a gtype_name (girnode.c case %s) but g_typelib_get_dir_entry_by_gtype_name skips entries of that kind: such a registered '
                 'type is never found by its GType name' % (kind_, '/'.join(written[kind_])), detail=sorted(k for k, v in val.items() if v))

    # ------------------------------------------------------------------ R5 repository level
    r5 = ctx.rule('R5', 'repository finders use the typelib lookups; negative GType cache cleared on every registration', floor=4)
    def reach(start):
        """functions of girepository.c reachable from `start` through calls or function references (callbacks)"""
        seen, todo = set(), [start]
        while todo:
            fn_ = todo.pop()
            if fn_ in seen or fn_ not in gr.functions:
                continue
            seen.add(fn_)
            for d in C.walk(gr.body(gr.functions[fn_])):
                if d.get('kind') == 'DeclRefExpr' and d.get('referencedDecl', {}).get('kind') == 'FunctionDecl':
                    todo.append(d['referencedDecl'].get('name'))
        return seen
    for fn, callee_ in (('g_irepository_find_by_name', 'g_typelib_get_dir_entry_by_name'), ('g_irepository_find_by_gtype', 'g_typelib_get_dir_entry_by_gtype_name'),
                        ('g_irepository_find_by_error_domain', 'g_typelib_get_dir_entry_by_error_domain')):
        f = gr.func(fn)
        users = [g_ for g_ in sorted(reach(fn)) if C.calls(gr.body(gr.functions[g_]), callee_)]
        r5.check(bool(users), '%s -> %s' % (fn, callee_), GR, gr.line(f), '%s no longer reaches %s: the repository-level lookup can disagree with the typelib-level one' % (fn, callee_), detail=users)
    # a GType is declared unknown only after BOTH tables were searched without the C-prefix shortcut
    helpers = [g_ for g_ in sorted(reach('g_irepository_find_by_gtype')) if g_ != 'g_irepository_find_by_gtype' and C.calls(gr.body(gr.functions[g_]), 'g_typelib_get_dir_entry_by_gtype_name')]
    if len(helpers) != 1:
        raise AnalysisError('g_irepository_find_by_gtype: per-table search helper not recognised (%s)' % helpers)
    hp = gr.params(gr.functions[helpers[0]])
    flag_i = [i for i, p_ in enumerate(hp) if (p_.get('type', {}).get('qualType') or '') == 'gboolean']
    if len(flag_i) != 1:
        raise AnalysisError('%s: prefix-check flag parameter not recognised' % helpers[0])
    FG = cgsa.summarise(ctx, GR, 'g_irepository_find_by_gtype', opaque=set(helpers) | {'get_repository'})
    neg_cache = [e for e in gsa.find(FG, 'call', r'^g_hash_table_(add|insert)$') if e.args and 'unknown_gtypes' in e.args[0]]
    if not neg_cache:
        raise AnalysisError('g_irepository_find_by_gtype: negative cache insertion not found')
    searched = {}
    for e in gsa.find(FG, 'call', r'^%s$' % re.escape(helpers[0])):
        if e.args and len(e.args) > flag_i[0]:
            searched.setdefault(e.args[0], set()).add(e.args[flag_i[0]])
    if any(f_ not in ('0', '1') for fl_ in searched.values() for f_ in fl_):
        raise AnalysisError('g_irepository_find_by_gtype: the prefix-check flag of the per-table search is not a literal (%s): the pass structure is not recognised'
                            % sorted(set(f_ for fl_ in searched.values() for f_ in fl_)))
    for tbl_, flags_ in sorted(searched.items()):
        full = [a_ for a_ in FG.atoms() if a_.startswith('%s(%s,' % (helpers[0], tbl_)) and a_.endswith(',0)')]
        okf = bool(full) and all(not gsa.can_hold(e.cond, {full[0]: True}) for e in neg_cache) and '0' in flags_
        r5.check(okf, 'unknown only after an unprefixed search of %s' % tbl_.split('->')[-1], GR, neg_cache[0].line,
                 'the GType is cached as unknown although %s was only searched with the C-prefix shortcut (flags %s): a type whose library declares another C prefix is '
                 'found by g_typelib_get_dir_entry_by_gtype_name but not by g_irepository_find_by_gtype' % (tbl_.split('->')[-1], sorted(flags_)), detail=sorted(flags_))
    if len(searched) < 2:
        r5.fail('both typelib tables searched', GR, gr.line(gr.func('g_irepository_find_by_gtype')), 'only %s searched by g_irepository_find_by_gtype' % sorted(searched))
    ri = gr.func('register_internal')
    clr = [c for c in C.calls(gr.body(ri), 'g_hash_table_remove_all') if 'unknown_gtypes' in gr.text_of(c)]
    if len(clr) != 1:
        r5.fail('unknown_gtypes cleared on registration', GR, gr.line(ri), 'register_internal does not clear the negative GType cache')
    else:
        g = [(ns(gr.text_of(c)), pol) for c, pol, o in C.guards(gr, clr[0]) if o.get('kind') == 'IfStmt' and not C.always_exits(C.kids(o)[1])]
        r5.check(not g, 'unknown_gtypes cleared on every registration (lazy or not)', GR, gr.line(clr[0]),
                 'the negative GType cache is cleared only when %s: after the other kind of registration find_by_gtype keeps answering '
                 '"unknown" for types the new typelib defines, disagreeing with g_typelib_get_dir_entry_by_gtype_name' % g)
