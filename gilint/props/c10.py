"""C10 — well-formed GTK-Doc comment blocks are parsed exactly (structural clauses only)."""
import ast
import re

from ..core import AnalysisError
from .. import pyfront as P
from .. import rx

EXPLANATION = ('Decides only the clauses visible in the shape of giscanner/annotationparser.py: the serialiser and the '
               'parser agree on every token (separators, key=value split at the FIRST "=", annotation names only '
               'lower-cased, parentheses, "@name:", "Tag:"), both line-ending conventions are normalised before '
               'splitting (pattern language == CRLF|CR|LF), and the vocabulary tables are mutually consistent and equal '
               'to the ast constants later written into the GIR. Layout independence and the round trip as a whole are '
               'value-level and NOT decided.')


def method(py, name):
    return py.func('annotationparser', name)


def check(ctx):
    py = ctx.py
    m = py.mod('annotationparser')
    rel = m.rel
    am = py.mod('ast')

    # ---------------------------------------------------------------- R1 token agreement
    r1 = ctx.rule('R1', 'serialiser/parser token agreement', floor=14)
    ser = method(py, 'GtkDocCommentBlockWriter._serialize_annotations')
    pd = method(py, 'GtkDocCommentBlockParser._parse_annotation_options_dict')
    pl = method(py, 'GtkDocCommentBlockParser._parse_annotation_options_list')
    pa = method(py, 'GtkDocCommentBlockParser._parse_annotation')
    # serialiser formats
    fmts = []
    for n in P.walk_no_nested(ser):
        if isinstance(n, ast.BinOp) and isinstance(n.op, ast.Mod) and isinstance(n.left, ast.Constant) and isinstance(n.left.value, str):
            fmts.append(n.left.value)
    joins = [py.try_fold(c.func.value, m) for c in P.calls_in(ser) if isinstance(c.func, ast.Attribute) and c.func.attr == 'join']
    lpar, rpar = py.fold_name(m, 'ANN_LPAR'), py.fold_name(m, 'ANN_RPAR')
    r1.check(sorted(fmts) == sorted(['%s=%s ', '%s ', '(%s %s)', '(%s)']), 'serialiser formats', rel, ser.lineno,
             'annotation serialiser formats changed: %s' % fmts, detail=fmts)
    r1.check(all(f.startswith(lpar) and f.endswith(rpar) for f in fmts if '(' in f or ')' in f) and lpar == '(' and rpar == ')',
             'parentheses tokens', rel, ser.lineno, 'serialiser does not wrap annotations in ANN_LPAR/ANN_RPAR')
    r1.check(joins.count(' ') == 2, 'options and annotations joined by one space', rel, ser.lineno, 'join separators: %s' % joins, detail=joins)
    # dict parser: split(' ') then split('=', 1)
    splits = [c for c in P.calls_in(pd) if isinstance(c.func, ast.Attribute) and c.func.attr == 'split']
    sp = {P.src(c.func.value): [py.try_fold(a, m) for a in c.args] for c in splits}
    loopvars = [n.target.id for n in P.walk_no_nested(pd) if isinstance(n, ast.For) and isinstance(n.target, ast.Name)]
    r1.check(sp.get('options') == [' '], 'dict options split on the serialiser\'s separator', rel, pd.lineno, 'options.split(%s)' % sp.get('options'))
    kv = [v for k, v in sp.items() if k in loopvars]
    r1.check(kv == [['=', 1]], 'key=value split at the first "=" only', rel, pd.lineno,
             'key=value pairs are split with split(%s): a value that itself contains "=" (URLs, base64) is lost' % (kv,), detail=kv)
    st = {P.src(t): P.src(v) for t, v, s_ in P.stores_in(pd)}
    r1.check(st.get('key') == 'parts[0]' and st.get('value') == 'parts[1] if len(parts) == 2 else None' and st.get('parsed[key]') == 'value',
             'key and value taken from the two halves', rel, pd.lineno, 'stores: %s' % st)
    # list parser
    lsp = [[py.try_fold(a, m) for a in c.args] for c in P.calls_in(pl) if isinstance(c.func, ast.Attribute) and c.func.attr == 'split'
           and P.src(c.func.value) == 'options']
    r1.check(lsp == [[' ']], 'list options split on one space', rel, pl.lineno, 'options.split%s' % lsp)
    # annotation name: only lower-cased
    nm = [v for t, v, s_ in P.stores_in(pa) if isinstance(t, ast.Name) and t.id == 'ann_name']
    first = nm[0] if nm else None
    r1.check(first is not None and P.src(first) == 'parts[0].lower()', 'annotation name only lower-cased', rel, pa.lineno,
             'annotation name is transformed as `%s`: a name written by the user (or by the comment writer) is parsed back as a different one'
             % (P.src(first) if first is not None else None), detail=P.src(first) if first is not None else None)
    others = [P.src(v) for v in nm[1:]]
    r1.check(sorted(others) == ['ANN_ATTRIBUTES', 'ANN_INOUT'], 'only the two deprecated spellings are renamed', rel, pa.lineno, 'other renames: %s' % others)
    psplit = [v for t, v, s_ in P.stores_in(pa) if isinstance(t, ast.Name) and t.id == 'parts']
    r1.check(len(psplit) == 1 and P.src(psplit[0]) == "annotation.split(' ', 1)", 'name/options split at the first space', rel, pa.lineno,
             'parts = %s' % [P.src(v) for v in psplit])
    # parameter / tag / identifier tokens
    sp_ = method(py, 'GtkDocCommentBlockWriter._serialize_parameter')
    stag = method(py, 'GtkDocCommentBlockWriter._serialize_tag')
    wr = method(py, 'GtkDocCommentBlockWriter.write')
    pinit = [P.src(v) for t, v, s_ in P.stores_in(sp_) if isinstance(t, ast.Name) and t.id == 'serialized' and isinstance(s_, ast.Assign)]
    r1.check(pinit == ["'@%s' % (parameter.name,)"], 'parameter written as @name', rel, sp_.lineno, 'serialized = %s' % pinit)
    tinit = [P.src(v) for t, v, s_ in P.stores_in(stag) if isinstance(t, ast.Name) and t.id == 'serialized' and isinstance(s_, ast.Assign)]
    r1.check(tinit == ['tag.name.capitalize()'], 'tag written as Name', rel, stag.lineno, 'serialized = %s' % tinit)
    for fn in (sp_, stag):
        aug = [py.try_fold(n.value.left if isinstance(n.value, ast.BinOp) else n.value, m) for n in P.walk_no_nested(fn) if isinstance(n, ast.AugAssign)]
        r1.check(aug and all(isinstance(a, str) and a.startswith(':') for a in aug), '%s: fields introduced by ":"' % fn.name, rel, fn.lineno,
                 'field separators: %s' % aug, detail=aug)
    regs = {}
    for name in ('PARAMETER_RE', 'TAG_RE', 'SYMBOL_RE', 'LINE_BREAK_RE'):
        c = m.assigns[name][0]
        regs[name] = (py.fold(c.args[0], m), py.fold(c.args[1], m) if len(c.args) > 1 else 0)
    squeeze = lambda s: re.sub(r'\s+|#[^\n]*', '', s)
    r1.check('@(?P<parameter_name>' in squeeze(regs['PARAMETER_RE'][0]) and ':{1}' in squeeze(regs['PARAMETER_RE'][0]), 'PARAMETER_RE expects @name:', rel,
             m.assigns['PARAMETER_RE'][0].lineno, 'PARAMETER_RE no longer has the "@" <name> ":" shape')
    r1.check(regs['TAG_RE'][1] & re.IGNORECASE and ':{1}' in squeeze(regs['TAG_RE'][0]), 'TAG_RE case-insensitive with ":"', rel,
             m.assigns['TAG_RE'][0].lineno, 'TAG_RE is not case-insensitive although tags are written capitalised')
    # line endings
    f = method(py, 'GtkDocCommentBlockParser.parse_comment_block')
    cl = [v for t, v, s_ in P.stores_in(f) if isinstance(t, ast.Name) and t.id == 'comment_lines' and isinstance(s_, ast.Assign)]
    ok = False
    why = P.src(cl[0]) if cl else None
    if len(cl) == 1 and isinstance(cl[0], ast.Call) and isinstance(cl[0].func, ast.Attribute) and cl[0].func.attr == 'split' \
            and [py.try_fold(a, m) for a in cl[0].args] == ['\n']:
        inner = cl[0].func.value
        if isinstance(inner, ast.Call) and P.call_name(inner) == 're.sub' and P.src(inner.args[0]) == 'LINE_BREAK_RE' \
                and py.try_fold(inner.args[1], m) == '\n' and P.src(inner.args[2]) == 'comment':
            try:
                ok = rx.compare(rx.Language(regs['LINE_BREAK_RE'][0], regs['LINE_BREAK_RE'][1], 'fullmatch'),
                                rx.Language('\r\n|\r|\n', 0, 'fullmatch')) is None
            except rx.RxError as e:
                raise AnalysisError(str(e))
    r1.check(ok, 'both line-ending conventions normalised before splitting', rel, cl[0].lineno if cl else f.lineno,
             'the comment is split into lines as `%s`: CRLF input keeps a trailing "\\r" on every line (blank " * " lines stop '
             'being paragraph breaks)' % why, detail=why)

    # ---------------------------------------------------------------- R2 vocabulary tables
    r2 = ctx.rule('R2', 'vocabulary tables consistent with each other, with TAG_RE and with the ast constants', floor=12)
    G = lambda n: py.fold_name(m, n)
    gi, dep, allann = G('GI_ANNS'), G('DEPRECATED_GI_ANNS'), G('ALL_ANNOTATIONS')
    r2.check(sorted(gi + dep) == sorted(allann) and len(set(allann)) == len(allann), 'ALL_ANNOTATIONS = GI_ANNS + deprecated, no duplicates', rel, 1,
             'ALL_ANNOTATIONS inconsistent')
    la, da = G('LIST_ANNOTATIONS'), G('DICT_ANNOTATIONS')
    r2.check(set(la) | set(da) == set(allann) and not (set(la) & set(da)), 'every annotation is list- or dict-valued, not both', rel, 1, 'LIST/DICT partition broken')
    ann_consts = {k: py.fold_name(m, k) for k in m.assigns if k.startswith('ANN_') and k not in ('ANN_LPAR', 'ANN_RPAR')}
    missing = sorted(v for k, v in ann_consts.items() if v not in allann)
    r2.check(not missing, 'every ANN_* constant is listed', rel, 1, 'ANN_ constants missing from ALL_ANNOTATIONS: %s' % missing, detail=len(ann_consts))
    tags = G('ALL_TAGS')
    tag_consts = sorted(py.fold_name(m, k) for k in m.assigns if k.startswith('TAG_') and isinstance(py.try_fold(m.assigns[k][0], m), str)
                        and not k.endswith('_RE'))
    r2.check(sorted(tags) == tag_consts, 'every TAG_* constant is in ALL_TAGS', rel, 1, 'ALL_TAGS %s vs constants %s' % (sorted(tags), tag_consts))
    # TAG_RE accepts exactly "tag:" for every tag (model run of the folded pattern's automaton)
    try:
        lang = rx.Language(regs['TAG_RE'][0], regs['TAG_RE'][1], 'match')
        atoms = lang.atoms()
        classes = rx.partition(atoms)
        cf = rx.classifier(atoms, classes)
        dfa = rx.determinize(lang, classes)
    except rx.RxError as e:
        raise AnalysisError('TAG_RE: %s' % e)

    def accepts(w):
        s = dfa.start
        for ch in w:
            s = dfa.delta[(s, cf(ord(ch)))]
        return s in dfa.accept
    for t in tags:
        r2.check(accepts(t + ':') and accepts(' ' + t.capitalize() + ': x') and not accepts(t + 'x:'), 'TAG_RE recognises "%s:"' % t, rel,
                 m.assigns['TAG_RE'][0].lineno, 'tag %r is in ALL_TAGS but "%s:" is not matched by TAG_RE' % (t, t))
    # option lists vs ast constants
    A = lambda n: py.fold_name(am, n)
    r2.check(sorted(G('SCOPE_OPTIONS')) == sorted([A('PARAM_SCOPE_CALL'), A('PARAM_SCOPE_ASYNC'), A('PARAM_SCOPE_NOTIFIED'), A('PARAM_SCOPE_FOREVER')]),
             'SCOPE_OPTIONS = ast.PARAM_SCOPE_*', rel, 1, 'scope options differ from the values written to the GIR')
    r2.check(sorted(set(G('TRANSFER_OPTIONS')) - {G('OPT_TRANSFER_FLOATING')}) ==
             sorted([A('PARAM_TRANSFER_NONE'), A('PARAM_TRANSFER_CONTAINER'), A('PARAM_TRANSFER_FULL')]),
             'TRANSFER_OPTIONS minus floating = ast.PARAM_TRANSFER_*', rel, 1, 'transfer options differ from the values written to the GIR')
    r2.check([G('ANN_IN'), G('ANN_OUT'), G('ANN_INOUT')] == [A('PARAM_DIRECTION_IN'), A('PARAM_DIRECTION_OUT'), A('PARAM_DIRECTION_INOUT')],
             'direction annotations = ast.PARAM_DIRECTION_*', rel, 1, 'direction names differ')
    r2.check(sorted(G('ARRAY_OPTIONS')) == ['fixed-size', 'length', 'zero-terminated'] and sorted(G('OUT_OPTIONS')) == ['callee-allocates', 'caller-allocates']
             and sorted(G('NOT_OPTIONS')) == ['nullable', 'optional'], 'array/out/not option names as documented', rel, 1, 'option lists changed')
