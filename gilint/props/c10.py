"""C10 — well-formed GTK-Doc comment blocks are parsed exactly (structural clauses only)."""
import ast
import re

from ..core import AnalysisError
from .. import pyfront as P
from .. import rx, gsa, strfrag

EXPLANATION = ('Decides only the clauses visible in the shape of giscanner/annotationparser.py: the serialiser and the '
               'parser agree on every token (separators, key=value split at the FIRST "=", annotation names only '
               'lower-cased, parentheses, "@name:", "Tag:"), both line-ending conventions are normalised before '
               'splitting (pattern language == CRLF|CR|LF), and the vocabulary tables are mutually consistent and equal '
               'to the ast constants later written into the GIR. Layout independence and the round trip as a whole are '
               'value-level and NOT decided.')


def method(py, name):
    return py.func('annotationparser', name)


def _splitters(S, sep):
    out = []
    for c in S.effects:
        if c.kind == 'call' and re.search(r'\.(r?split|r?partition)$', c.target) and c.args and c.args[0] == repr(sep):
            out.append(c)
    return out


def kv_split_rule(ctx, r1):
    """key=value options are split on single spaces and each at the FIRST "=" only (shared by C01: (attributes k=v) values may contain "=")"""
    py = ctx.py
    rel = py.mod('annotationparser').rel
    pd = method(py, 'GtkDocCommentBlockParser._parse_annotation_options_dict')
    # dict parser: options split on ' ', each at the first '=' only
    PD = gsa.summarise(ctx, 'annotationparser', 'GtkDocCommentBlockParser._parse_annotation_options_dict', inline_only=())
    optp = [a_.arg for a_ in pd.args.args][-1]

    def splitters(S, sep):
        out = []
        for c in S.effects:
            if c.kind == 'call' and re.search(r'\.(r?split|r?partition)$', c.target) and c.args and c.args[0] == repr(sep):
                out.append(c)
        return out
    osp = splitters(PD, ' ')
    r1.check(len(osp) == 1 and osp[0].target == '%s.split' % optp and osp[0].args == ["' '"], 'dict options split on the serialiser\'s separator', rel, pd.lineno, 'option splits: %s' % [c.value for c in osp])
    kv = splitters(PD, '=')
    okkv = len(kv) == 1 and ((kv[0].target.endswith('.split') and kv[0].args == ["'='", '1']) or (kv[0].target.endswith('.partition') and kv[0].args == ["'='"]))
    r1.check(okkv, 'key=value split at the first "=" only', rel, pd.lineno,
             'key=value pairs are split with %s: a value that itself contains "=" (URLs, base64) is lost' % ([c.value for c in kv],), detail=[c.value for c in kv])
    stores = [e for e in PD.effects if e.kind == 'store' and re.match(r'^\w+\[.*\]$', e.target)]
    half = r"\.split\('=', 1\)\[%d\]$|\.partition\('='\)\[%d\]$"
    okhalves = bool(stores) and all(re.search(half % (0, 0), e.target[:-1]) for e in stores) and \
        sorted(set('None' if e.value == 'None' else ('second' if re.search(half % (1, 2), e.value) else e.value) for e in stores)) == ['None', 'second']
    r1.check(okhalves, 'key and value taken from the two halves', rel, pd.lineno, 'stores: %s' % [(e.target, e.value) for e in stores])


HELPERS = ('_parse_annotations', '_parse_fields', '_parse_annotation', '_parse_annotation_options_list')


def continuation_rule(ctx, rule):
    """annotations written over several lines accumulate: a parse result that replaces the annotations of an object that
    already exists (the current block / parameter / tag on a continuation line) must have been started from that object's
    own annotations (shared by C01, C03 and C10)"""
    PCB = gsa.summarise(ctx, 'annotationparser', 'GtkDocCommentBlockParser.parse_comment_block', opaque=HELPERS + ('_validate_multiline_annotation_continuation',))
    rel = ctx.py.mod('annotationparser').rel
    n = 0
    for e in PCB.effects:
        if e.kind != 'store' or not e.target.endswith('.annotations') or e.vnode is None:
            continue
        v = e.vnode
        if not (isinstance(v, ast.Attribute) and v.attr == 'annotations' and isinstance(v.value, ast.Call) and (P.call_name(v.value) or '') in ('self._parse_fields', 'self._parse_annotations')):
            continue
        obj = e.target[:-len('.annotations')]
        fresh = re.match(r'^GtkDoc\w+\(', obj) is not None
        call = v.value
        f = ctx.py.func('annotationparser', 'GtkDocCommentBlockParser.' + P.call_name(call)[5:])
        b = P.bind_call(call, f)
        given = gsa._unparse(b['annotations']) if b.get('annotations') is not None else None
        n += 1
        if fresh:
            rule.ok('first line of %s starts from empty annotations' % obj[:30], rel, e.line)
        else:
            rule.check(given == '%s.annotations' % obj, 'continuation line extends the annotations of %s' % obj, rel, e.line,
                       'on a continuation line the annotations of `%s` are replaced by the result of %s(... annotations=%s): annotations written on the earlier line(s) '
                       'of the same identifier / parameter / tag are dropped' % (obj, P.call_name(call), given), detail=given)
    if n < 4:
        raise AnalysisError('parse_comment_block: only %d sites where parsed annotations are applied' % n)


def check(ctx):
    py = ctx.py
    m = py.mod('annotationparser')
    rel = m.rel
    am = py.mod('ast')

    # ---------------------------------------------------------------- R1 token agreement
    r1 = ctx.rule('R1', 'serialiser/parser token agreement', floor=14)
    ser = method(py, 'GtkDocCommentBlockWriter._serialize_annotations')
    pd = method(py, 'GtkDocCommentBlockParser._parse_annotation_options_dict')
    pl = method(py, 'GtkDocCommentBlockParser._parse_annotation_options_list')
    pa = method(py, 'GtkDocCommentBlockParser._parse_annotation')
    # serialiser: the text it can produce, as a set of string-shape fragments
    wm = py.methods('annotationparser', 'GtkDocCommentBlockWriter')
    lpar, rpar = py.fold_name(m, 'ANN_LPAR'), py.fold_name(m, 'ANN_RPAR')
    exprs, flow = strfrag.universe(ser, wm)
    shapes = []
    seps = []
    for e in exprs:
        fr = strfrag.flatten(e)
        for x in fr:
            if x[0] == 'join':
                seps.append(strfrag.merge_consts(x[1]))
        for seq in strfrag.sequences(fr):
            shapes.append([x if x[0] == 'const' else (x[0], P.src(x[1]) if x[0] == 'expr' else '') for x in strfrag.merge_consts(seq)])
    consts = sorted(set(x[1] for sh in shapes for x in sh if x[0] == 'const'))
    r1.check(consts and all(c in ('(', ')', ' ', '=') for c in consts), 'serialiser tokens are "(", ")", " " and "="', rel, ser.lineno,
             'the annotation serialiser concatenates the literal text %s: the parser splits on single spaces, the first "=" and parentheses only' % consts, detail=consts)

    def has_shape(pattern):
        for sh in shapes:
            kinds = [x[1] if x[0] == 'const' else '$' for x in sh]
            if kinds[:len(pattern)] == pattern and len(kinds) in (len(pattern), len(pattern) + 1) and (len(kinds) == len(pattern) or kinds[-1] == ' '):
                return True
        return False
    r1.check(has_shape(['(', '$', ')']) and has_shape(['(', '$', ' ', '$', ')']) and lpar == '(' and rpar == ')', 'annotation written as (name) / (name options)', rel, ser.lineno,
             'serialiser does not write annotations as ANN_LPAR name [space options] ANN_RPAR: %s' % [sh for sh in shapes if any(x == ('const', '(') for x in sh)], detail=shapes)
    r1.check(has_shape(['$', '=', '$']) and has_shape(['$']), 'options written as key=value / key', rel, ser.lineno, 'option shapes: %s' % [sh for sh in shapes if any(x == ('const', '=') for x in sh)])
    r1.check(len(seps) >= 2 and all(sp_ == [('const', ' ')] for sp_ in seps), 'options and annotations joined by one space', rel, ser.lineno, 'join separators: %s' % seps, detail=seps)
    kv_split_rule(ctx, r1)
    splitters = _splitters
    # list parser
    PL = gsa.summarise(ctx, 'annotationparser', 'GtkDocCommentBlockParser._parse_annotation_options_list', inline_only=())
    lopt = [a_.arg for a_ in pl.args.args][-1]
    lsp = splitters(PL, ' ')
    r1.check(len(lsp) == 1 and lsp[0].target == '%s.split' % lopt and lsp[0].args == ["' '"], 'list options split on one space', rel, pl.lineno, 'option splits: %s' % [c.value for c in lsp])
    # annotation name: only lower-cased
    PA = gsa.summarise(ctx, 'annotationparser', 'GtkDocCommentBlockParser._parse_annotation', inline_only=())
    annp = [a_.arg for a_ in pa.args.args][-1]
    names = []
    renames = {}

    def add_name(node):
        # a rename table `{OLD: NEW, ...}.get(name[, name])` names either a NEW constant or nothing new
        if isinstance(node, ast.Call) and isinstance(node.func, ast.Attribute) and node.func.attr == 'get' and node.args:
            tab = node.func.value
            if isinstance(tab, ast.Name) and len(m.assigns.get(tab.id, ())) == 1:
                tab = m.assigns[tab.id][0]
            if isinstance(tab, ast.Dict) and all(k is not None for k in tab.keys):
                for k, v in zip(tab.keys, tab.values):
                    renames[gsa._unparse(k)] = gsa._unparse(v)
                    add_name(v)
                for x in node.args[1:2]:
                    add_name(x)
                if len(node.args) == 1:
                    add_name(node.args[0])
                return
        t_ = gsa._unparse(node)
        if t_ not in names:
            names.append(t_)
    for g, n in PA.returns:
        if isinstance(n, ast.Tuple) and len(n.elts) == 2:
            add_name(n.elts[0])
    derived = [t_ for t_ in names if not re.match(r'^(None|ANN_\w+)$', t_)]

    def angle_table(name):
        try:
            return py.fold_name(m, name) == {ord('<'): ord(lpar), ord('>'): ord(rpar)}
        except Exception:
            return False
    NAME_RE = r"^%s(\.replace\('<', ANN_LPAR\)\.replace\('>', ANN_RPAR\)|\.translate\((?P<tab>\w+)\))?\.(split\(' ', 1\)|partition\(' '\))\[0\]\.lower\(\)$" % re.escape(annp)
    nm_ = re.match(NAME_RE, derived[0]) if len(derived) == 1 else None
    if nm_ and nm_.group('tab') and not angle_table(nm_.group('tab')):
        nm_ = None
    r1.check(len(derived) == 1 and bool(nm_), 'annotation name only lower-cased', rel, pa.lineno,
             'annotation name is derived as `%s`: a name written by the user (or by the comment writer) is parsed back as a different one' % derived, detail=derived)
    others = sorted(t_ for t_ in names if re.match(r'^ANN_\w+$', t_))
    r1.check(others == ['ANN_ATTRIBUTES', 'ANN_INOUT'] and renames in ({}, {'ANN_INOUT_ALT': 'ANN_INOUT', 'ANN_ATTRIBUTE': 'ANN_ATTRIBUTES'}),
             'only the two deprecated spellings are renamed', rel, pa.lineno, 'other renames: %s %s' % (others, renames))
    psplit = splitters(PA, ' ')
    r1.check(len(psplit) == 1 and ((psplit[0].target.endswith('.split') and psplit[0].args == ["' '", '1']) or (psplit[0].target.endswith('.partition') and psplit[0].args == ["' '"])),
             'name/options split at the first space', rel, pa.lineno, 'splits: %s' % [c.value for c in psplit])
    # parameter / tag / identifier tokens
    sp_ = method(py, 'GtkDocCommentBlockWriter._serialize_parameter')
    stag = method(py, 'GtkDocCommentBlockWriter._serialize_tag')
    for fn, head in ((sp_, ['@', '$']), (stag, ['$'])):
        ex2, fl2 = strfrag.universe(fn, wm)
        own = [e for e in ex2 if e not in exprs]
        sh2 = []
        for e in own:
            for seq in strfrag.sequences(strfrag.flatten(e)):
                sh2.append([x if x[0] == 'const' else (x[0], P.src(x[1]) if x[0] == 'expr' else '') for x in strfrag.merge_consts(seq)])
        first = [sh for sh in sh2 if sh and (sh[0] == ('const', '@') or (head == ['$'] and sh[0][0] == 'expr' and sh[0][1].endswith('.name.capitalize()')))]
        pn = fn.args.args[1].arg
        okhead = bool(first) and all((sh[-1] == ('expr', '%s.name' % pn) if head[0] == '@' else sh[0] == ('expr', '%s.name.capitalize()' % pn)) and len(sh) == len(head) for sh in first)
        r1.check(okhead, '%s: starts with %s' % (fn.name, '@name' if head[0] == '@' else 'capitalised tag name'), rel, fn.lineno, 'leading shapes: %s' % first)
        rest = [sh for sh in sh2 if sh not in first and any(x[0] == 'const' for x in sh)]
        r1.check(rest and all(sh[0][0] == 'const' and sh[0][1] in (':', ': ') for sh in rest), '%s: fields introduced by ":"' % fn.name, rel, fn.lineno,
                 'field separators: %s' % [sh[0] for sh in rest], detail=[sh[0] for sh in rest])
    regs = {}
    for name in ('PARAMETER_RE', 'TAG_RE', 'SYMBOL_RE', 'LINE_BREAK_RE'):
        c = m.assigns[name][0]
        regs[name] = (py.fold(c.args[0], m), py.fold(c.args[1], m) if len(c.args) > 1 else 0)
    squeeze = lambda s: re.sub(r'\s+|#[^\n]*', '', s)
    r1.check('@(?P<parameter_name>' in squeeze(regs['PARAMETER_RE'][0]) and ':{1}' in squeeze(regs['PARAMETER_RE'][0]), 'PARAMETER_RE expects @name:', rel,
             m.assigns['PARAMETER_RE'][0].lineno, 'PARAMETER_RE no longer has the "@" <name> ":" shape')
    r1.check(regs['TAG_RE'][1] & re.IGNORECASE and ':{1}' in squeeze(regs['TAG_RE'][0]), 'TAG_RE case-insensitive with ":"', rel,
             m.assigns['TAG_RE'][0].lineno, 'TAG_RE is not case-insensitive although tags are written capitalised')
    # line endings
    f = method(py, 'GtkDocCommentBlockParser.parse_comment_block')
    cl = [v for t, v, s_ in P.stores_in(f) if isinstance(t, ast.Name) and t.id == 'comment_lines' and isinstance(s_, ast.Assign)]
    ok = False
    why = P.src(cl[0]) if cl else None
    if len(cl) == 1 and isinstance(cl[0], ast.Call) and isinstance(cl[0].func, ast.Attribute) and cl[0].func.attr == 'split' \
            and [py.try_fold(a, m) for a in cl[0].args] == ['\n']:
        inner = cl[0].func.value
        if line_break_sub(py, m, inner, 'comment') == 'LINE_BREAK_RE':
            try:
                ok = rx.compare(rx.Language(regs['LINE_BREAK_RE'][0], regs['LINE_BREAK_RE'][1], 'fullmatch'),
                                rx.Language('\r\n|\r|\n', 0, 'fullmatch')) is None
            except rx.RxError as e:
                raise AnalysisError(str(e))
    r1.check(ok, 'both line-ending conventions normalised before splitting', rel, cl[0].lineno if cl else f.lineno,
             'the comment is split into lines as `%s`: CRLF input keeps a trailing "\\r" on every line (blank " * " lines stop '
             'being paragraph breaks)' % why, detail=why)

    # ---------------------------------------------------------------- R3 multi-line annotations accumulate
    r3 = ctx.rule('R3', 'annotations continued on a following line extend (never replace) those already parsed', floor=4)
    continuation_rule(ctx, r3)
    # the annotation tokenizer looks at the field text character by character only: whole-string, position-sensitive tests on the raw text
    # (startswith, indexing, strip comparisons) would make the result depend on how a continuation line is indented
    PA = gsa.summarise(ctx, 'annotationparser', 'GtkDocCommentBlockParser._parse_annotations', inline_only=())
    fparam = PA.P(4) if len(PA.params) > 4 else 'fields'
    if fparam not in PA.params:
        raise AnalysisError('_parse_annotations: `fields` parameter not found (%s)' % PA.params)
    POSN = re.compile(r'(?<![\w.])%s(\.|\[)' % re.escape(fparam))
    rets = [e for e in gsa.find(PA, 'return')]
    if not rets:
        raise AnalysisError('_parse_annotations: no return effects')
    for e in rets:
        bad = sorted(a_ for a_ in gsa.atoms(e.cond) if POSN.search(a_) and not a_.startswith('@iter:'))
        r3.check(not bad, 'tokenizer result at line %d decided character by character' % e.line, rel, e.line,
                 '_parse_annotations returns %s depending on %s: a continuation line is handed over with its indentation, so annotations continued on an indented line '
                 'are no longer recognised and become description text' % (e.value[:60], bad), detail=bad)

    # the colon after an identifier / parameter / tag name is optional wherever the grammar has one: every pattern with a `delimiter`
    # group accepts both the empty string and ":" for it (sibling agreement over all line patterns)
    from . import c11
    import re._parser as sre
    for rname, (pat, flags, groups, ln) in sorted(c11.regex_table(py, m).items()):
        if 'delimiter' not in groups:
            continue
        tree = sre.parse(pat, flags)
        gid = tree.state.groupdict['delimiter']
        sub = [av[3] for op, av in _walk_sre(tree) if op == sre.SUBPATTERN and av[0] == gid]
        ok = False
        if sub:
            lo, hi = sub[0].getwidth()
            lits = set(av for op, av in _walk_sre(sub[0]) if op == sre.LITERAL)
            ok = lo == 0 and hi == 1 and lits == {ord(':')}
        r3.check(ok, '%s: delimiter is an optional colon' % rname, rel, ln,
                 'the `delimiter` group of %s is `%s`: the colon after the name is optional in the documented grammar (and in the sibling patterns), a line without it is no longer '
                 'recognised' % (rname, re.search(r'\(\?P<delimiter>([^)]*)\)', pat).group(1) if re.search(r'\(\?P<delimiter>([^)]*)\)', pat) else '?'))

    # ---------------------------------------------------------------- R2 vocabulary tables
    r2 = ctx.rule('R2', 'vocabulary tables consistent with each other, with TAG_RE and with the ast constants', floor=12)
    from . import c11
    c11.validator_rule(ctx, r2)
    G = lambda n: py.fold_name(m, n)
    gi, dep, allann = G('GI_ANNS'), G('DEPRECATED_GI_ANNS'), G('ALL_ANNOTATIONS')
    r2.check(sorted(gi + dep) == sorted(allann) and len(set(allann)) == len(allann), 'ALL_ANNOTATIONS = GI_ANNS + deprecated, no duplicates', rel, 1,
             'ALL_ANNOTATIONS inconsistent')
    la, da = G('LIST_ANNOTATIONS'), G('DICT_ANNOTATIONS')
    r2.check(set(la) | set(da) == set(allann) and not (set(la) & set(da)), 'every annotation is list- or dict-valued, not both', rel, 1, 'LIST/DICT partition broken')
    ann_consts = {k: py.fold_name(m, k) for k in m.assigns if k.startswith('ANN_') and k not in ('ANN_LPAR', 'ANN_RPAR')}
    missing = sorted(v for k, v in ann_consts.items() if v not in allann)
    r2.check(not missing, 'every ANN_* constant is listed', rel, 1, 'ANN_ constants missing from ALL_ANNOTATIONS: %s' % missing, detail=len(ann_consts))
    tags = G('ALL_TAGS')
    tag_consts = sorted(py.fold_name(m, k) for k in m.assigns if k.startswith('TAG_') and isinstance(py.try_fold(m.assigns[k][0], m), str)
                        and not k.endswith('_RE'))
    r2.check(sorted(tags) == tag_consts, 'every TAG_* constant is in ALL_TAGS', rel, 1, 'ALL_TAGS %s vs constants %s' % (sorted(tags), tag_consts))
    # TAG_RE accepts exactly "tag:" for every tag (model run of the folded pattern's automaton)
    try:
        lang = rx.Language(regs['TAG_RE'][0], regs['TAG_RE'][1], 'match')
        atoms = lang.atoms()
        classes = rx.partition(atoms)
        cf = rx.classifier(atoms, classes)
        dfa = rx.determinize(lang, classes)
    except rx.RxError as e:
        raise AnalysisError('TAG_RE: %s' % e)

    def accepts(w):
        s = dfa.start
        for ch in w:
            s = dfa.delta[(s, cf(ord(ch)))]
        return s in dfa.accept
    for t in tags:
        r2.check(accepts(t + ':') and accepts(' ' + t.capitalize() + ': x') and not accepts(t + 'x:'), 'TAG_RE recognises "%s:"' % t, rel,
                 m.assigns['TAG_RE'][0].lineno, 'tag %r is in ALL_TAGS but "%s:" is not matched by TAG_RE' % (t, t))
    # option lists vs ast constants
    A = lambda n: py.fold_name(am, n)
    r2.check(sorted(G('SCOPE_OPTIONS')) == sorted([A('PARAM_SCOPE_CALL'), A('PARAM_SCOPE_ASYNC'), A('PARAM_SCOPE_NOTIFIED'), A('PARAM_SCOPE_FOREVER')]),
             'SCOPE_OPTIONS = ast.PARAM_SCOPE_*', rel, 1, 'scope options differ from the values written to the GIR')
    r2.check(sorted(set(G('TRANSFER_OPTIONS')) - {G('OPT_TRANSFER_FLOATING')}) ==
             sorted([A('PARAM_TRANSFER_NONE'), A('PARAM_TRANSFER_CONTAINER'), A('PARAM_TRANSFER_FULL')]),
             'TRANSFER_OPTIONS minus floating = ast.PARAM_TRANSFER_*', rel, 1, 'transfer options differ from the values written to the GIR')
    r2.check([G('ANN_IN'), G('ANN_OUT'), G('ANN_INOUT')] == [A('PARAM_DIRECTION_IN'), A('PARAM_DIRECTION_OUT'), A('PARAM_DIRECTION_INOUT')],
             'direction annotations = ast.PARAM_DIRECTION_*', rel, 1, 'direction names differ')
    r2.check(sorted(G('ARRAY_OPTIONS')) == ['fixed-size', 'length', 'zero-terminated'] and sorted(G('OUT_OPTIONS')) == ['callee-allocates', 'caller-allocates']
             and sorted(G('NOT_OPTIONS')) == ['nullable', 'optional'], 'array/out/not option names as documented', rel, 1, 'option lists changed')


def _walk_sre(tree):
    """(op, av) items of an sre parse tree, nested ones included"""
    import re._parser as sre
    for op, av in tree:
        yield op, av
        if op == sre.SUBPATTERN:
            for x in _walk_sre(av[3]):
                yield x
        elif op in (sre.MAX_REPEAT, sre.MIN_REPEAT) or str(op) == 'POSSESSIVE_REPEAT':
            for x in _walk_sre(av[2]):
                yield x
        elif op == sre.BRANCH:
            for alt in av[1]:
                for x in _walk_sre(alt):
                    yield x
        elif op in (sre.ASSERT, sre.ASSERT_NOT):
            for x in _walk_sre(av[1]):
                yield x
        elif str(op) == 'ATOMIC_GROUP':
            for x in _walk_sre(av):
                yield x


def line_break_sub(py, m, inner, text_param):
    """name of the module-level pattern when `inner` is `re.sub(PAT, '\\n', text)` or `PAT.sub('\\n', text)`, else None (shared with C11)"""
    if not isinstance(inner, ast.Call):
        return None
    if P.call_name(inner) == 're.sub' and len(inner.args) >= 3 and isinstance(inner.args[0], ast.Name) \
            and py.try_fold(inner.args[1], m) == '\n' and P.src(inner.args[2]) == text_param:
        return inner.args[0].id
    if isinstance(inner.func, ast.Attribute) and inner.func.attr == 'sub' and isinstance(inner.func.value, ast.Name) and inner.func.value.id != 're' and len(inner.args) >= 2 \
            and py.try_fold(inner.args[0], m) == '\n' and P.src(inner.args[1]) == text_param:
        return inner.func.value.id
    return None
