"""C02 — undocumented APIs get the documented default ownership, types and roles."""
import ast
import re

from ..core import AnalysisError
from .. import pyfront as P
from .. import absint
from ..absint import Env, ev, truthy, Unknown

EXPLANATION = ('The C-spelling -> fundamental-type table of giscanner/ast.py is reconstructed by folding its module-level statements and '
               'checked for internal consistency (stdint, signed/unsigned spellings, GLib aliases) and for the documented semantic entries; '
               'the transfer-default functions are evaluated EXHAUSTIVELY over their finite abstract domains (direction x caller-allocates; '
               'every fundamental type x const) against the documented defaults; pointer canonicalisation peels exactly one level per step; '
               'guarded-effect queries decide the callable roles (trailing GError** -> throws, callback/user_data/destroy triple, async scope) '
               'and that the original C spelling is kept as c:type.')

MT = 'maintransformer'


def type_table(py):
    """reconstruct ast.type_names and the TYPE_* constants by interpreting the module-level statements of ast.py"""
    m = py.mod('ast')
    consts = {}     # TYPE_X -> fundamental
    lists = {}
    names = {}      # spelling -> TYPE_X

    def tname(n):
        if isinstance(n, ast.Name) and n.id in consts:
            return n.id
        if isinstance(n, ast.Subscript) and P.src(n.value) == 'type_names':
            k = py.try_fold(n.slice, m)
            return names.get(k)
        return None

    for st in m.tree.body:
        if isinstance(st, ast.Assign) and len(st.targets) == 1:
            t, v = st.targets[0], st.value
            if isinstance(t, ast.Name) and isinstance(v, ast.Call) and P.call_name(v) == 'Type':
                kw = dict((k.arg, py.try_fold(k.value, m)) for k in v.keywords)
                if 'target_fundamental' in kw:
                    consts[t.id] = kw['target_fundamental']
            elif isinstance(t, ast.Name) and isinstance(v, ast.List) and all(isinstance(e, ast.Name) for e in v.elts):
                lists[t.id] = [e.id for e in v.elts]
            elif isinstance(t, ast.Name) and isinstance(v, ast.Call) and P.call_name(v) == 'list' and isinstance(v.args[0], ast.Name) and v.args[0].id in lists:
                lists[t.id] = list(lists[v.args[0].id])
            elif isinstance(t, ast.Subscript) and P.src(t.value) == 'type_names':
                k = py.try_fold(t.slice, m)
                tn = tname(v)
                if isinstance(k, str) and tn:
                    names[k] = tn
        elif isinstance(st, ast.Expr) and isinstance(st.value, ast.Call) and isinstance(st.value.func, ast.Attribute) and st.value.func.attr == 'extend':
            tgt = P.src(st.value.func.value)
            a = st.value.args[0]
            if tgt in lists:
                if isinstance(a, ast.Name) and a.id in lists:
                    lists[tgt].extend(lists[a.id])
                elif isinstance(a, ast.List):
                    lists[tgt].extend(e.id for e in a.elts if isinstance(e, ast.Name))
        elif isinstance(st, ast.For) and isinstance(st.iter, ast.Name) and st.iter.id in lists:
            body = P.src(st.body[0]) if st.body else ''
            if body.startswith('type_names[%s.target_fundamental] = %s' % (st.target.id, st.target.id)):
                for c in lists[st.iter.id]:
                    names[consts[c]] = c
            elif 'INTROSPECTABLE_BASIC.remove' in body:
                pass
    return consts, lists, names


def eval_function(py, func, atoms, mod, fold_is_equiv=None, depth=0):
    """value returned by a function made of if/return statements under the given atom valuation"""
    env = Env(py, mod, atoms, None, {}, ())

    def cond(n):
        # typeval.is_equiv(X)
        if fold_is_equiv is not None:
            r = fold_is_equiv(n)
            if r is not None:
                return r
        if isinstance(n, ast.BoolOp):
            if isinstance(n.op, ast.Or):
                return any(cond(v) for v in n.values)
            return all(cond(v) for v in n.values)
        if isinstance(n, ast.UnaryOp) and isinstance(n.op, ast.Not):
            return not cond(n.operand)
        return truthy(ev(n, env))

    def run(stmts):
        for st in stmts:
            if isinstance(st, ast.Expr) and isinstance(st.value, ast.Constant):
                continue
            if isinstance(st, ast.If):
                r = run(st.body if cond(st.test) else st.orelse)
                if r is not None:
                    return r
            elif isinstance(st, ast.Return):
                return ('ret', st.value)
            elif isinstance(st, ast.Assign) and isinstance(st.targets[0], ast.Name):
                try:
                    env.locals[st.targets[0].id] = ev(st.value, env)
                except Unknown:
                    env.locals[st.targets[0].id] = absint.Opaque(P.src(st.value))
            elif isinstance(st, (ast.Raise, ast.Assert)):
                return ('raise', st)
            else:
                raise AnalysisError('unsupported statement in %s: %s' % (func.name, P.src(st)[:60]))
        return None
    r = run(func.body)
    if r is None:
        return None
    if r[0] == 'raise':
        return 'RAISE'
    if r[1] is None:
        return None
    try:
        return ev(r[1], env)
    except Unknown:
        return 'EXPR:' + P.src(r[1])


def check(ctx):
    py = ctx.py
    am = py.mod('ast')
    mt = py.mod(MT)
    tm = py.mod('transformer')
    consts, lists, names = type_table(py)
    if len(names) < 80:
        raise AnalysisError('only %d type_names entries reconstructed' % len(names))
    F = lambda spelling: consts.get(names.get(spelling))

    # ------------------------------------------------------------------ R1 type-name table
    r1 = ctx.rule('R1', 'C spelling -> fundamental type table: stdint, signedness spellings, GLib aliases, documented semantic entries', floor=45)
    for w in (8, 16, 32, 64):
        r1.check(F('int%d_t' % w) == 'gint%d' % w, 'int%d_t -> gint%d' % (w, w), am.rel, 1, 'int%d_t maps to %s' % (w, F('int%d_t' % w)), detail=F('int%d_t' % w))
        r1.check(F('uint%d_t' % w) == 'guint%d' % w, 'uint%d_t -> guint%d' % (w, w), am.rel, 1, 'uint%d_t maps to %s' % (w, F('uint%d_t' % w)), detail=F('uint%d_t' % w))
    for sp in sorted(names):
        if sp.startswith('signed ') and sp[7:] in names and sp != 'signed char':
            r1.check(F(sp) == F(sp[7:]), '"%s" = "%s"' % (sp, sp[7:]), am.rel, 1, '"%s" maps to %s but "%s" to %s' % (sp, F(sp), sp[7:], F(sp[7:])))
    UNS = {'gchar': 'guint8', 'gshort': 'gushort', 'gint': 'guint', 'glong': 'gulong', 'long long': 'unsigned long long'}
    for sp in sorted(names):
        mm = re.match(r'unsigned (char|short|int|long)( int)?$', sp)
        if mm:
            base = F(mm.group(1))
            r1.check(F(sp) == UNS.get(base), '"%s" is the unsigned partner of "%s"' % (sp, mm.group(1)), am.rel, 1, '"%s" maps to %s, "%s" to %s' % (sp, F(sp), mm.group(1), base),
                     detail=F(sp))
    for c, f in sorted(consts.items()):
        if f in names and not f.startswith('<'):
            r1.check(F(f) == f, 'fundamental name %s maps to itself' % f, am.rel, 1, 'type_names[%r] is %s' % (f, F(f)))
    SEMANTIC = {'char*': 'utf8', 'gchar*': 'utf8', 'gchararray': 'utf8', 'void*': 'gpointer', 'gconstpointer': 'gpointer', 'void': 'none', 'guchar': 'guint8',
                'goffset': 'gint64', 'gunichar2': 'guint16', 'size_t': 'gsize', 'ssize_t': 'gssize', 'intptr_t': 'gintptr', 'uintptr_t': 'guintptr',
                'int': 'gint', 'unsigned': 'guint', 'signed': 'gint', 'char': 'gchar', 'short': 'gshort', 'long': 'glong', 'float': 'gfloat', 'double': 'gdouble',
                'signed char': 'gint8', 'unsigned char': 'guint8'}
    for sp, want in sorted(SEMANTIC.items()):
        r1.check(F(sp) == want, '"%s" -> %s' % (sp, want), am.rel, 1, 'the C spelling "%s" maps to %s, documented default is %s' % (sp, F(sp), want), detail=F(sp))
    # _Bool, char** return, GStrv
    cf = py.func('transformer', 'Transformer.create_type_from_ctype_string')
    src_ = P.src(cf)
    eff = P.effects(cf)
    r1.check(any(e.kind == 'store' or True for e in eff) and "canonical in ('_Bool', 'bool')" in src_ and "canonical = 'gboolean'" in src_, '_Bool / bool -> gboolean', tm.rel, cf.lineno,
             '_Bool is no longer canonicalised to gboolean')
    arr_ret = [n for n in P.walk_no_nested(cf) if isinstance(n, ast.Return) and isinstance(n.value, ast.Call) and P.call_name(n.value) == 'ast.Array']
    okarr = len(arr_ret) == 1 and any(g.text() == "is_return and canonical == 'utf8*' or base == 'GStrv'" for g in P.guards(arr_ret[0]))
    r1.check(okarr, 'returned char** and GStrv -> array of utf8', tm.rel, cf.lineno, 'array-of-strings special case changed: %s' % [g.text() for r_ in arr_ret for g in P.guards(r_)])

    # ------------------------------------------------------------------ R1b canonicalisation peels one pointer level at a time
    r1b = ctx.rule('R1b', 'pointer canonicalisation: alias lookup first, then strip exactly one "*" and recurse', floor=3)
    cc = py.func('transformer', 'Transformer._canonicalize_ctype')
    param = cc.args.args[1].arg
    rec = [c for c in P.calls_in(cc) if P.call_name(c) == 'self._canonicalize_ctype']
    st = dict((t.id, P.src(v)) for t, v, s_ in P.stores_in(cc) if isinstance(t, ast.Name))
    okr = len(rec) == 1 and isinstance(rec[0].args[0], ast.Name) and st.get(rec[0].args[0].id) == '%s[:-1]' % param
    r1b.check(okr, 'recursion strips exactly one trailing "*"', tm.rel, cc.lineno,
              '_canonicalize_ctype recurses on %s: with more than one level stripped at once, pointer-qualified aliases (char* -> utf8, void* -> gpointer) are no longer '
              'found for multi-level pointers such as char**' % ([st.get(a.id) if isinstance(a, ast.Name) else P.src(a) for c in rec for a in c.args]), detail=st)
    first = [s_ for s_ in cc.body if not (isinstance(s_, ast.Expr) and isinstance(s_.value, ast.Constant))][0]
    r1b.check(isinstance(first, ast.Assign) and P.src(first.value) == 'ast.type_names.get(%s)' % param, 'whole spelling looked up before any stripping', tm.rel, cc.lineno,
              'first statement is %s' % P.src(first))
    rets = [P.src(n.value) for n in P.walk_no_nested(cc) if isinstance(n, ast.Return)]
    r1b.check(len(rets) == 3 and any(r_.endswith('.target_fundamental') for r_ in rets) and param in rets, 'returns: alias target, unchanged non-pointer, or canonical base + "*"', tm.rel, cc.lineno,
              'returns: %s' % rets, detail=rets)

    # ------------------------------------------------------------------ R2 transfer defaults, exhaustive
    r2 = ctx.rule('R2', 'transfer defaults evaluated over their whole abstract domain', floor=60)
    NONE, FULL = py.fold_name(am, 'PARAM_TRANSFER_NONE'), py.fold_name(am, 'PARAM_TRANSFER_FULL')
    fp = py.func(MT, 'MainTransformer._get_transfer_default_param')
    for d in ('in', 'out', 'inout', None):
        for ca in (False, True):
            got = eval_function(py, fp, {'node.direction': d, 'node.caller_allocates': ca}, mt)
            exp = NONE if d in ('in', None) else (NONE if ca else FULL)
            r2.check(got == exp, 'parameter direction=%s caller_allocates=%s -> transfer %s' % (d, ca, exp), mt.rel, fp.lineno,
                     'default transfer of a %s parameter (caller-allocates=%s) is %r, documented default is %r' % (d, ca, got, exp), detail=got)
    fb = py.func(MT, 'MainTransformer._get_transfer_default_returntype_basic')
    basic_doc = set(['gboolean', 'gfloat', 'gdouble', 'glong', 'gulong', 'GType', 'gint', 'guint', 'gchar', 'gshort', 'gushort', 'gsize', 'gssize', 'gintptr', 'guintptr', 'gunichar']
                    + ['gint%d' % w for w in (8, 16, 32, 64)] + ['guint%d' % w for w in (8, 16, 32, 64)])
    all_fund = sorted(set(consts.values()))

    def fundamentals_of(node):
        """set of fundamental names a list/tuple/const expression of ast.X names denotes"""
        if isinstance(node, ast.Attribute) and isinstance(node.value, ast.Name) and node.value.id == 'ast':
            if node.attr in lists:
                return set(consts[c] for c in lists[node.attr])
            if node.attr in consts:
                return {consts[node.attr]}
        if isinstance(node, (ast.Tuple, ast.List)):
            out = set()
            for e in node.elts:
                s_ = fundamentals_of(e)
                if s_ is None:
                    return None
                out |= s_
            return out
        return None
    for fund in all_fund + [None]:
        for const in (False, True):
            def is_equiv(n, fund=fund):
                if isinstance(n, ast.Call) and isinstance(n.func, ast.Attribute) and n.func.attr == 'is_equiv' and P.src(n.func.value) == 'typeval':
                    s_ = fundamentals_of(n.args[0])
                    if s_ is None:
                        raise AnalysisError('cannot fold %s' % P.src(n))
                    return fund in s_
                return None
            got = eval_function(py, fb, {'typeval.is_const': const, 'typeval.target_fundamental': fund}, mt, is_equiv)
            if const or fund in basic_doc or fund in ('gpointer', 'none'):
                exp = NONE
            elif fund == 'utf8':
                exp = FULL
            elif fund in ('long long', 'unsigned long long', 'long double', 'time_t', 'off_t', 'dev_t', 'gid_t', 'pid_t', 'socklen_t', 'uid_t'):
                exp = NONE        # numeric C types are basic as well
            else:
                exp = None
            r2.check(got == exp, 'return type %s%s -> transfer %s' % ('const ' if const else '', fund, exp), mt.rel, fb.lineno,
                     'a returned %s%s gets default transfer %r, documented default is %r (basic types and const values are not transferred, non-const strings are)'
                     % ('const ' if const else '', fund, got, exp), detail=got)
    r2.exhaustive = True
    # TypeContainer: const => none when no explicit transfer
    interp = absint.Interp(py, assume={})
    init = py.func('ast', 'TypeContainer.__init__')
    for is_const in (False, True):
        obj = absint.Obj('TypeContainer')
        interp2 = absint.Interp(py, assume={'typenode.is_const': is_const})
        interp2.run_init('ast', 'TypeContainer', init, {}, Env(py, am), obj, bound_values={'typenode': absint.Opaque('type'), 'nullable': False, 'not_nullable': False,
                                                                                             'transfer': None, 'direction': 'in'})
        exp = NONE if is_const else None
        r2.check(obj.attrs.get('transfer') == exp, 'TypeContainer: const type without transfer -> %s' % exp, am.rel, init.lineno, 'TypeContainer.transfer = %r' % obj.attrs.get('transfer'))
    # dispatcher
    gd = py.func(MT, 'MainTransformer._get_transfer_default')
    rows = []
    for n in P.walk_no_nested(gd):
        if isinstance(n, ast.Return):
            rows.append(([g.text() for g in P.guards(n) if g.kind == 'if' and g.polarity][-1:], P.src(n.value)))
    want = [(['node.type.is_equiv(ast.TYPE_NONE) or isinstance(node.type, ast.Varargs)'], 'ast.PARAM_TRANSFER_NONE'),
            (['isinstance(node, ast.Parameter)'], 'self._get_transfer_default_param(parent, node)'),
            (['isinstance(node, ast.Return)'], 'self._get_transfer_default_return(parent, node)'),
            (['isinstance(node, ast.Field)'], 'ast.PARAM_TRANSFER_NONE'), (['isinstance(node, ast.Property)'], 'ast.PARAM_TRANSFER_NONE')]
    for wrow in want:
        r2.check(wrow in rows, 'default dispatch: %s -> %s' % (wrow[0][0][:40], wrow[1][-30:]), mt.rel, gd.lineno, 'dispatch rows: %s' % rows)

    # ------------------------------------------------------------------ R3 callable roles
    r3 = ctx.rule('R3', 'throws, callback closure/destroy/scope roles, untyped pointers nullable', floor=8)
    th = py.func(MT, 'MainTransformer._pass3_callable_throws')
    te = P.effects(th)
    pop = [e for e in te if e.kind == 'call' and e.target == 'node.parameters.pop']
    thr = [e for e in te if e.kind == 'store' and e.target == 'node.throws' and e.value == 'True']
    lp = dict((t.id, P.src(v)) for t, v, s_ in P.stores_in(th) if isinstance(t, ast.Name))
    ok = len(pop) == 1 and len(thr) == 1 and pop[0].under("ctype == 'GError**'", True) and thr[0].under("ctype == 'GError**'", True) and 'node.parameters[-1]' in lp.values()
    r3.check(ok, 'trailing GError** removed and throws set together', mt.rel, th.lineno, 'pop: %s throws: %s last: %s' % (pop, thr, lp))
    cb = py.func(MT, 'MainTransformer._pass3_callable_callbacks')
    ce = [e for e in P.effects(cb) if e.kind == 'store']

    def has(target, value, under):
        return any(e.target == target and e.value == value and all(e.under(u, p_) for u, p_ in under) for e in ce)
    r3.check(has('callback_param.destroy_name', 'param.argname', [('is_destroynotify', True), ('callback_param is None', False)]) and
             has('callback_param.scope', 'ast.PARAM_SCOPE_NOTIFIED', [('is_destroynotify', True)]), 'destroy-notify after a callback -> destroy + notified scope', mt.rel, cb.lineno,
             'destroy role stores changed')
    r3.check(has('callback_param.closure_name', 'param.argname', [("param.argname.endswith('data')", True), ('param.type.is_equiv(ast.TYPE_ANY)', True), ('callback_param is None', False)]),
             'untyped *data pointer after a callback -> closure', mt.rel, cb.lineno, 'closure role store changed')
    r3.check(has('param.scope', 'ast.PARAM_SCOPE_ASYNC', [("'Gio.AsyncReadyCallback'", True)]), 'async-ready callback -> async scope', mt.rel, cb.lineno, 'async scope store changed')
    # the remembered callback stays remembered after its destroy notify (callback, destroy, user_data order)
    resets = [s_ for t, v, s_ in P.stores_in(cb) if isinstance(t, ast.Name) and t.id == 'callback_param' and P.src(v) == 'None']
    loops = [n for n in P.walk_no_nested(cb) if isinstance(n, ast.For)]
    inside = [s_ for s_ in resets if any(any(x is s_ for x in ast.walk(l)) for l in loops)]
    r3.check(len(resets) == 1 and not inside, 'callback stays current after its destroy notify', mt.rel, cb.lineno,
             'callback_param is reset inside the parameter loop (line %s): in the arrangement (callback, GDestroyNotify, user_data) the callback keeps its destroy but loses its closure'
             % [s_.lineno for s_ in inside])
    only_cb = [e for e in ce if e.target == 'callback_param' or False]
    cont = [(P.src(v), [g.text() for g in P.guards(s_) if g.kind == 'if']) for t, v, s_ in P.stores_in(cb) if isinstance(t, ast.Name) and t.id == 'callback_param' and P.src(v) == 'param']
    r3.check(len(cont) == 1 and any("argnode.gi_name == 'GLib.DestroyNotify'" in g for g in cont[0][1]), 'any callback other than destroy-notify becomes the current callback', mt.rel, cb.lineno,
             'callback selection: %s' % cont)
    common = py.func(MT, 'MainTransformer._apply_annotations_param_ret_common')
    r3.check(any(e.kind == 'store' and e.target == 'node.nullable' and e.value == 'True' and e.gtexts() == ['node.type.is_equiv(ast.TYPE_ANY)'] for e in P.effects(common)),
             'untyped pointers are nullable', mt.rel, common.lineno, 'gpointer default nullable store changed')
    # user_data in callbacks (transformer)
    tc = py.func('transformer', 'Transformer._create_callback')
    r3.check(any(e.kind == 'store' and e.target == 'param.closure_name' and e.value == 'param.argname' and e.under("param.argname == 'user_data'", True) for e in P.effects(tc)),
             'callback typedef: gpointer user_data is the closure', tm.rel, tc.lineno, '_create_callback closure marking changed')

    # ------------------------------------------------------------------ R4 c:type kept
    r4 = ctx.rule('R4', 'the original C spelling is kept as c:type on every type created from a C type string', floor=3)
    for n in P.walk_no_nested(cf):
        if isinstance(n, ast.Return) and isinstance(n.value, ast.Call) and P.call_name(n.value) in ('ast.Type', 'ast.Array'):
            kw = dict((k.arg, P.src(k.value)) for k in n.value.keywords)
            r4.check(kw.get('ctype') == 'ctype' and kw.get('complete_ctype') == 'complete_ctype' and kw.get('is_const') == 'is_const', 'return %s(...) keeps ctype' % P.call_name(n.value), tm.rel, n.lineno,
                     '%s is built with ctype=%s complete_ctype=%s' % (P.call_name(n.value), kw.get('ctype'), kw.get('complete_ctype')), detail=kw)
    bc = [c for c in P.calls_in(cf) if P.call_name(c) == 'self._create_bare_container_type']
    r4.check(len(bc) == 1 and dict((k.arg, P.src(k.value)) for k in bc[0].keywords).get('ctype') == 'ctype', 'container types keep ctype', tm.rel, cf.lineno, 'container creation changed')
