"""C02 — undocumented APIs get the documented default ownership, types and roles."""
import ast
import re

from ..core import AnalysisError
from .. import pyfront as P
from .. import absint, gsa
from ..absint import Env, ev, truthy, Unknown

EXPLANATION = ('The C-spelling -> fundamental-type table of giscanner/ast.py is reconstructed by folding its module-level statements and '
               'checked for internal consistency (stdint, signed/unsigned spellings, GLib aliases) and for the documented semantic entries; '
               'the transfer-default functions are evaluated EXHAUSTIVELY over their finite abstract domains (direction x caller-allocates; '
               'every fundamental type x const) against the documented defaults; pointer canonicalisation peels exactly one level per step; '
               'guarded-effect queries decide the callable roles (trailing GError** -> throws, callback/user_data/destroy triple, async scope) '
               'and that the original C spelling is kept as c:type.')

MT = 'maintransformer'


def type_table(py):
    """reconstruct ast.type_names and the TYPE_* constants by interpreting the module-level statements of ast.py"""
    m = py.mod('ast')
    consts = {}     # TYPE_X -> fundamental
    lists = {}
    names = {}      # spelling -> TYPE_X

    def tname(n):
        if isinstance(n, ast.Name) and n.id in consts:
            return n.id
        if isinstance(n, ast.Subscript) and P.src(n.value) == 'type_names':
            k = py.try_fold(n.slice, m)
            return names.get(k)
        return None

    def list_of(v):
        """names of the TYPE_* constants in a list-valued expression"""
        if isinstance(v, (ast.List, ast.Tuple)) and all(isinstance(e, ast.Name) for e in v.elts):
            return [e.id for e in v.elts]
        if isinstance(v, ast.Name) and v.id in lists:
            return list(lists[v.id])
        if isinstance(v, ast.Call) and P.call_name(v) in ('list', 'tuple') and len(v.args) == 1:
            return list_of(v.args[0])
        if isinstance(v, ast.BinOp) and isinstance(v.op, ast.Add):
            a, b = list_of(v.left), list_of(v.right)
            return a + b if a is not None and b is not None else None
        return None

    def comp_pairs(v):
        """{x.target_fundamental: x for x in L} / dict((x.target_fundamental, x) for x in L): the list L"""
        if isinstance(v, ast.Call) and P.call_name(v) == 'dict' and len(v.args) == 1 and isinstance(v.args[0], (ast.GeneratorExp, ast.ListComp)) \
                and isinstance(v.args[0].elt, ast.Tuple) and len(v.args[0].elt.elts) == 2:
            k, x, gens = v.args[0].elt.elts[0], v.args[0].elt.elts[1], v.args[0].generators
        elif isinstance(v, ast.DictComp):
            k, x, gens = v.key, v.value, v.generators
        else:
            return None
        if len(gens) == 1 and not gens[0].ifs and isinstance(gens[0].target, ast.Name) and isinstance(x, ast.Name) and x.id == gens[0].target.id \
                and P.src(k) == '%s.target_fundamental' % x.id:
            return list_of(gens[0].iter)
        return None

    def add_dict(d):
        for k, v in zip(d.keys, d.values):
            kk = py.try_fold(k, m) if k is not None else None
            tn = tname(v)
            if isinstance(kk, str) and tn:
                names[kk] = tn

    for st in m.tree.body:
        if isinstance(st, ast.Assign) and len(st.targets) == 1 and isinstance(st.targets[0], ast.Name) and st.targets[0].id == 'type_names' \
                and (comp_pairs(st.value) is not None or isinstance(st.value, ast.Dict)):
            if isinstance(st.value, ast.Dict):
                add_dict(st.value)
            else:
                for c in comp_pairs(st.value):
                    names[consts[c]] = c
        elif isinstance(st, ast.Expr) and isinstance(st.value, ast.Call) and P.src(st.value.func) == 'type_names.update':
            for a in st.value.args:
                if isinstance(a, ast.Dict):
                    add_dict(a)
                elif comp_pairs(a) is not None:
                    for c in comp_pairs(a):
                        names[consts[c]] = c
            for k in st.value.keywords:
                if k.arg and tname(k.value):
                    names[k.arg] = tname(k.value)
        elif isinstance(st, ast.Assign) and len(st.targets) == 1 and isinstance(st.targets[0], ast.Name) and not (isinstance(st.value, ast.Call) and P.call_name(st.value) == 'Type') \
                and list_of(st.value) is not None and (isinstance(st.value, (ast.BinOp, ast.Tuple)) or (isinstance(st.value, ast.Call) and P.call_name(st.value) == 'tuple')):
            lists[st.targets[0].id] = list_of(st.value)
        elif isinstance(st, ast.Assign) and len(st.targets) == 1:
            t, v = st.targets[0], st.value
            if isinstance(t, ast.Name) and isinstance(v, ast.Call) and P.call_name(v) == 'Type':
                kw = dict((k.arg, py.try_fold(k.value, m)) for k in v.keywords)
                if 'target_fundamental' in kw:
                    consts[t.id] = kw['target_fundamental']
            elif isinstance(t, ast.Name) and isinstance(v, ast.List) and all(isinstance(e, ast.Name) for e in v.elts):
                lists[t.id] = [e.id for e in v.elts]
            elif isinstance(t, ast.Name) and isinstance(v, ast.Call) and P.call_name(v) == 'list' and isinstance(v.args[0], ast.Name) and v.args[0].id in lists:
                lists[t.id] = list(lists[v.args[0].id])
            elif isinstance(t, ast.Subscript) and P.src(t.value) == 'type_names':
                k = py.try_fold(t.slice, m)
                tn = tname(v)
                if isinstance(k, str) and tn:
                    names[k] = tn
        elif isinstance(st, ast.Expr) and isinstance(st.value, ast.Call) and isinstance(st.value.func, ast.Attribute) and st.value.func.attr == 'extend':
            tgt = P.src(st.value.func.value)
            a = st.value.args[0]
            if tgt in lists:
                if isinstance(a, ast.Name) and a.id in lists:
                    lists[tgt].extend(lists[a.id])
                elif isinstance(a, ast.List):
                    lists[tgt].extend(e.id for e in a.elts if isinstance(e, ast.Name))
        elif isinstance(st, ast.For) and isinstance(st.iter, ast.Name) and st.iter.id in lists:
            body = P.src(st.body[0]) if st.body else ''
            if body.startswith('type_names[%s.target_fundamental] = %s' % (st.target.id, st.target.id)):
                for c in lists[st.iter.id]:
                    names[consts[c]] = c
            elif 'INTROSPECTABLE_BASIC.remove' in body:
                pass
    return consts, lists, names


def eval_function(py, func, atoms, mod, fold_is_equiv=None, depth=0):
    """value returned by a function made of if/return statements under the given atom valuation"""
    env = Env(py, mod, atoms, None, {}, ())

    def cond(n):
        # typeval.is_equiv(X)
        if fold_is_equiv is not None:
            r = fold_is_equiv(n)
            if r is not None:
                return r
        if isinstance(n, ast.BoolOp):
            if isinstance(n.op, ast.Or):
                return any(cond(v) for v in n.values)
            return all(cond(v) for v in n.values)
        if isinstance(n, ast.UnaryOp) and isinstance(n.op, ast.Not):
            return not cond(n.operand)
        return truthy(ev(n, env))

    def run(stmts):
        for st in stmts:
            if isinstance(st, ast.Expr) and isinstance(st.value, ast.Constant):
                continue
            if isinstance(st, ast.If):
                r = run(st.body if cond(st.test) else st.orelse)
                if r is not None:
                    return r
            elif isinstance(st, ast.Return):
                return ('ret', st.value)
            elif isinstance(st, ast.Assign) and isinstance(st.targets[0], ast.Name):
                try:
                    env.locals[st.targets[0].id] = ev(st.value, env)
                except Unknown:
                    env.locals[st.targets[0].id] = absint.Opaque(P.src(st.value))
            elif isinstance(st, (ast.Raise, ast.Assert)):
                return ('raise', st)
            else:
                raise AnalysisError('unsupported statement in %s: %s' % (func.name, P.src(st)[:60]))
        return None
    r = run(func.body)
    if r is None:
        return None
    if r[0] == 'raise':
        return 'RAISE'
    if r[1] is None:
        return None
    try:
        return ev(r[1], env)
    except Unknown:
        return 'EXPR:' + P.src(r[1])


def check(ctx):
    py = ctx.py
    am = py.mod('ast')
    mt = py.mod(MT)
    tm = py.mod('transformer')
    consts, lists, names = type_table(py)
    if len(names) < 80:
        raise AnalysisError('only %d type_names entries reconstructed' % len(names))
    F = lambda spelling: consts.get(names.get(spelling))

    # ------------------------------------------------------------------ R1 type-name table
    r1 = ctx.rule('R1', 'C spelling -> fundamental type table: stdint, signedness spellings, GLib aliases, documented semantic entries', floor=45)
    for w in (8, 16, 32, 64):
        r1.check(F('int%d_t' % w) == 'gint%d' % w, 'int%d_t -> gint%d' % (w, w), am.rel, 1, 'int%d_t maps to %s' % (w, F('int%d_t' % w)), detail=F('int%d_t' % w))
        r1.check(F('uint%d_t' % w) == 'guint%d' % w, 'uint%d_t -> guint%d' % (w, w), am.rel, 1, 'uint%d_t maps to %s' % (w, F('uint%d_t' % w)), detail=F('uint%d_t' % w))
    for sp in sorted(names):
        if sp.startswith('signed ') and sp[7:] in names and sp != 'signed char':
            r1.check(F(sp) == F(sp[7:]), '"%s" = "%s"' % (sp, sp[7:]), am.rel, 1, '"%s" maps to %s but "%s" to %s' % (sp, F(sp), sp[7:], F(sp[7:])))
    UNS = {'gchar': 'guint8', 'gshort': 'gushort', 'gint': 'guint', 'glong': 'gulong', 'long long': 'unsigned long long'}
    for sp in sorted(names):
        mm = re.match(r'unsigned (char|short|int|long)( int)?$', sp)
        if mm:
            base = F(mm.group(1))
            r1.check(F(sp) == UNS.get(base), '"%s" is the unsigned partner of "%s"' % (sp, mm.group(1)), am.rel, 1, '"%s" maps to %s, "%s" to %s' % (sp, F(sp), mm.group(1), base),
                     detail=F(sp))
    for c, f in sorted(consts.items()):
        if f in names and not f.startswith('<'):
            r1.check(F(f) == f, 'fundamental name %s maps to itself' % f, am.rel, 1, 'type_names[%r] is %s' % (f, F(f)))
    SEMANTIC = {'char*': 'utf8', 'gchar*': 'utf8', 'gchararray': 'utf8', 'void*': 'gpointer', 'gconstpointer': 'gpointer', 'void': 'none', 'guchar': 'guint8',
                'goffset': 'gint64', 'gunichar2': 'guint16', 'size_t': 'gsize', 'ssize_t': 'gssize', 'intptr_t': 'gintptr', 'uintptr_t': 'guintptr',
                'int': 'gint', 'unsigned': 'guint', 'signed': 'gint', 'char': 'gchar', 'short': 'gshort', 'long': 'glong', 'float': 'gfloat', 'double': 'gdouble',
                'signed char': 'gint8', 'unsigned char': 'guint8'}
    for sp, want in sorted(SEMANTIC.items()):
        r1.check(F(sp) == want, '"%s" -> %s' % (sp, want), am.rel, 1, 'the C spelling "%s" maps to %s, documented default is %s' % (sp, F(sp), want), detail=F(sp))
    # _Bool, char** return, GStrv  (gated summary of create_type_from_ctype_string, canonicaliser kept opaque)
    cf = py.func('transformer', 'Transformer.create_type_from_ctype_string')
    CS = gsa.summarise(ctx, 'transformer', 'Transformer.create_type_from_ctype_string', opaque=('_canonicalize_ctype', '_create_bare_container_type'))

    def rets(spec):
        return gsa.returns_under(CS, gsa.decide_by(spec))
    for sp in ('_Bool', 'bool'):
        got = rets([(r"== '%s'$" % sp, True), (r"== '(_Bool|bool|utf8\*|GStrv)'$", False), (r"get\('gboolean'\) is None$", False)])
        r1.check(len(got) == 1 and got[0][2] and "'gboolean'" in got[0][0] and got[0][0].startswith('ast.Type('), '%s -> gboolean' % sp, tm.rel, cf.lineno,
                 'a C type canonicalised to %s yields %s: it is no longer turned into gboolean' % (sp, [g[0][:80] for g in got]), detail=[g[0][:80] for g in got])
    arr_a = rets([(r'^is_return$', True), (r"== 'utf8\*'$", True), (r"== '(_Bool|bool)'$", False)])
    arr_b = rets([(r'^is_return$', False), (r"== 'GStrv'$", True), (r"== '(_Bool|bool)'$", False)])
    arr_c = rets([(r'^is_return$', False), (r"== 'utf8\*'$", True), (r"== '(_Bool|bool|GStrv)'$", False)])
    isarr = lambda got: len(got) == 1 and got[0][2] and got[0][0].startswith('ast.Array(None, ') and 'TYPE_STRING' in got[0][0]
    r1.check(isarr(arr_a) and isarr(arr_b) and not any(g[0].startswith('ast.Array(None') for g in arr_c), 'returned char** and GStrv -> array of utf8', tm.rel, cf.lineno,
             'array-of-strings special case changed: returned utf8* -> %s; GStrv -> %s; non-returned utf8* -> %s' % ([g[0][:60] for g in arr_a], [g[0][:60] for g in arr_b], [g[0][:60] for g in arr_c]))

    # ------------------------------------------------------------------ R1b canonicalisation peels one pointer level at a time
    r1b = ctx.rule('R1b', 'pointer canonicalisation: alias lookup first, then strip exactly one "*" and recurse', floor=3)
    cc = py.func('transformer', 'Transformer._canonicalize_ctype')
    param = cc.args.args[1].arg
    CC = gsa.summarise(ctx, 'transformer', 'Transformer._canonicalize_ctype')
    PP = re.escape(param)
    look = r'type_names\.get\(%s\)$' % PP
    hit = gsa.returns_under(CC, gsa.decide_by([(look, True)]))
    r1b.check(len(hit) == 1 and hit[0][2] and hit[0][0] == 'ast.type_names.get(%s).target_fundamental' % param, 'whole spelling looked up before any stripping', tm.rel, cc.lineno,
              'with the whole spelling present in type_names the function returns %s' % [h[0] for h in hit], detail=[h[0] for h in hit])
    ptr = gsa.returns_under(CC, gsa.decide_by([(look, False), (r"%s\.endswith\('\*'\)$" % PP, True)]))
    r1b.check(len(ptr) == 1 and ptr[0][2] and ptr[0][0] == "self._canonicalize_ctype(%s[:-1]) + '*'" % param, 'recursion strips exactly one trailing "*"', tm.rel, cc.lineno,
              '_canonicalize_ctype of an unknown pointer spelling returns %s: with more than one level stripped at once, pointer-qualified aliases (char* -> utf8, void* -> gpointer) are no longer '
              'found for multi-level pointers such as char**' % [h[0] for h in ptr], detail=[h[0] for h in ptr])
    plain = gsa.returns_under(CC, gsa.decide_by([(look, False), (r"%s\.endswith\('\*'\)$" % PP, False)]))
    r1b.check(len(plain) == 1 and plain[0][2] and plain[0][0] == param, 'unknown non-pointer spelling returned unchanged', tm.rel, cc.lineno, 'returns: %s' % [h[0] for h in plain], detail=[h[0] for h in plain])

    # ------------------------------------------------------------------ R2 transfer defaults, exhaustive
    r2 = ctx.rule('R2', 'transfer defaults evaluated over their whole abstract domain', floor=60)
    NONE, FULL = py.fold_name(am, 'PARAM_TRANSFER_NONE'), py.fold_name(am, 'PARAM_TRANSFER_FULL')
    fp = py.func(MT, 'MainTransformer._get_transfer_default_param')
    FP = gsa.summarise(ctx, MT, 'MainTransformer._get_transfer_default_param')

    def folded(got):
        out = []
        for text, node, definite in got:
            try:
                v = py.fold(node, mt) if node is not None else None
            except P.Unfoldable:
                v = 'EXPR:' + text
            out.append(v if definite else ('maybe', v))
        return out
    for d in ('in', 'out', 'inout', None):
        for ca in (False, True):
            def dec(a, d=d, ca=ca):
                mm = re.search(r'\.direction == ast\.PARAM_DIRECTION_(\w+)$', a)
                if mm:
                    return d is not None and mm.group(1).lower() == d
                if re.search(r'\.caller_allocates$', a):
                    return ca
                return None
            got = folded(gsa.returns_under(FP, dec))
            exp = NONE if d in ('in', None) else (NONE if ca else FULL)
            r2.check(got == [exp], 'parameter direction=%s caller_allocates=%s -> transfer %s' % (d, ca, exp), mt.rel, fp.lineno,
                     'default transfer of a %s parameter (caller-allocates=%s) is %r, documented default is %r' % (d, ca, got, exp), detail=got)
    fb = py.func(MT, 'MainTransformer._get_transfer_default_returntype_basic')
    basic_doc = set(['gboolean', 'gfloat', 'gdouble', 'glong', 'gulong', 'GType', 'gint', 'guint', 'gchar', 'gshort', 'gushort', 'gsize', 'gssize', 'gintptr', 'guintptr', 'gunichar']
                    + ['gint%d' % w for w in (8, 16, 32, 64)] + ['guint%d' % w for w in (8, 16, 32, 64)])
    all_fund = sorted(set(consts.values()))

    def fundamentals_of(node):
        """set of fundamental names a list/tuple/const expression of ast.X names denotes"""
        if isinstance(node, ast.Attribute) and isinstance(node.value, ast.Name) and node.value.id == 'ast':
            if node.attr in lists:
                return set(consts[c] for c in lists[node.attr])
            if node.attr in consts:
                return {consts[node.attr]}
        if isinstance(node, (ast.Tuple, ast.List)):
            out = set()
            for e in node.elts:
                s_ = fundamentals_of(e)
                if s_ is None:
                    return None
                out |= s_
            return out
        return None
    FB = gsa.summarise(ctx, MT, 'MainTransformer._get_transfer_default_returntype_basic')
    for fund in all_fund + [None]:
        for const in (False, True):
            def dec(a, fund=fund, const=const):
                mm = re.search(r'\.is_equiv\((.*)\)$', a)
                if mm:
                    try:
                        s_ = fundamentals_of(ast.parse(mm.group(1), mode='eval').body)
                    except SyntaxError:
                        s_ = None
                    if s_ is None:
                        raise AnalysisError('cannot fold %s' % a)
                    return fund in s_
                if re.search(r'\.is_const$', a):
                    return const
                if re.search(r'\.target_fundamental$', a):
                    return bool(fund)
                return None
            got = folded(gsa.returns_under(FB, dec))
            got = got[0] if len(got) == 1 else got
            if const or fund in basic_doc or fund in ('gpointer', 'none'):
                exp = NONE
            elif fund == 'utf8':
                exp = FULL
            elif fund in ('long long', 'unsigned long long', 'long double', 'time_t', 'off_t', 'dev_t', 'gid_t', 'pid_t', 'socklen_t', 'uid_t'):
                exp = NONE        # numeric C types are basic as well
            else:
                exp = None
            r2.check(got == exp, 'return type %s%s -> transfer %s' % ('const ' if const else '', fund, exp), mt.rel, fb.lineno,
                     'a returned %s%s gets default transfer %r, documented default is %r (basic types and const values are not transferred, non-const strings are)'
                     % ('const ' if const else '', fund, got, exp), detail=got)
    r2.exhaustive = True
    # TypeContainer: const => none when no explicit transfer
    interp = absint.Interp(py, assume={})
    init = py.func('ast', 'TypeContainer.__init__')
    for is_const in (False, True):
        obj = absint.Obj('TypeContainer')
        interp2 = absint.Interp(py, assume={'typenode.is_const': is_const})
        interp2.run_init('ast', 'TypeContainer', init, {}, Env(py, am), obj, bound_values={'typenode': absint.Opaque('type'), 'nullable': False, 'not_nullable': False,
                                                                                             'transfer': None, 'direction': 'in'})
        exp = NONE if is_const else None
        r2.check(obj.attrs.get('transfer') == exp, 'TypeContainer: const type without transfer -> %s' % exp, am.rel, init.lineno, 'TypeContainer.transfer = %r' % obj.attrs.get('transfer'))
    # dispatcher
    gd = py.func(MT, 'MainTransformer._get_transfer_default')
    GD = gsa.summarise(ctx, MT, 'MainTransformer._get_transfer_default', opaque=('_get_transfer_default_param', '_get_transfer_default_return'))
    for kind, want in (('Parameter', r'^self\._get_transfer_default_param\('), ('Return', r'^self\._get_transfer_default_return\('), ('Field', r'^ast\.PARAM_TRANSFER_NONE$'),
                       ('Property', r'^ast\.PARAM_TRANSFER_NONE$'), ('<void or varargs>', r'^ast\.PARAM_TRANSFER_NONE$')):
        def dec(a, kind=kind):
            if re.search(r'\.type\.is_equiv\(ast\.TYPE_NONE\)$|isinstance\(\w+\.type, ast\.Varargs\)$', a):
                return kind.startswith('<')
            mm = re.search(r'^isinstance\(\w+, ast\.(\w+)\)$', a)
            if mm:
                return mm.group(1) == kind
            return None
        got = gsa.returns_under(GD, dec)
        r2.check(len(got) == 1 and got[0][2] and re.search(want, got[0][0]), 'default dispatch: %s -> %s' % (kind, want.strip('^$\\')), mt.rel, gd.lineno, 'for a %s the default is taken from %s' % (kind, [g[0] for g in got]),
                 detail=[g[0] for g in got])

    # toggling the direction: the default is recomputed AFTER direction and caller-allocates have their new values
    SCM = gsa.summarise(ctx, MT, 'MainTransformer._apply_annotations_param_ret_common', opaque=('_is_pointer_type', '_get_validate_parameter_name', '_resolve_toplevel', '_resolve', '_get_transfer_default',
                                                                                                 '_apply_transfer_annotation', '_adjust_container_type'))
    nn_ = re.escape(SCM.P(2))
    recompute = [e for e in gsa.find(SCM, 'store', r'^%s\.transfer$' % nn_, r'^self\._get_transfer_default\(')]
    inputs = [e for e in gsa.find(SCM, 'store', r'^%s\.(direction|caller_allocates)$' % nn_) if any(gsa.compatible(e, x) for x in recompute)]
    r2.check(bool(recompute) and len(inputs) >= 2 and all(e.seq < x.seq for e in inputs for x in recompute if gsa.compatible(e, x)), 'toggled direction: default recomputed after direction and caller-allocates are stored',
             mt.rel, recompute[0].line if recompute else SCM.func.lineno,
             'the default transfer is recomputed before %s get their new values: an (out caller-allocates) parameter is given the default of the previous direction/allocation'
             % sorted(set(e.target for e in inputs for x in recompute if e.seq > x.seq)))

    # ------------------------------------------------------------------ R3 callable roles
    r3 = ctx.rule('R3', 'throws, callback closure/destroy/scope roles, untyped pointers nullable', floor=8)
    P3 = gsa.summarise(ctx, MT, 'MainTransformer._pass3', inline_only=())
    p3n = P3.P(1)
    for hn in ('_pass3_callable_callbacks', '_pass3_callable_throws'):
        hc = [e for e in P3.effects if e.kind == 'call' and e.target == 'self.' + hn]
        r3.check(len(hc) >= 1 and gsa.equiv(gsa.cond_any(hc), gsa.atom('isinstance(%s, ast.Callable)' % p3n)) and all(e.args[:1] == [p3n] for e in hc), '%s runs for every callable' % hn, mt.rel,
                 hc[0].line if hc else P3.func.lineno, '%s is applied when %s: some callables (e.g. the compatibility copy of a moved function) keep their GError** parameter / lose their callback roles'
                 % (hn, [e.when()[:160] for e in hc]))
    th = py.func(MT, 'MainTransformer._pass3_callable_throws')
    TH = gsa.summarise(ctx, MT, 'MainTransformer._pass3_callable_throws')
    nd = re.escape(th.args.args[1].arg)
    # the parameter list may be reached through a local alias (`params = node.parameters`); removal of the last element is pop() / pop(-1) / del x[-1]
    bases = ['%s\\.parameters' % nd] + [re.escape(t.id) for t, v, st in P.stores_in(th) if isinstance(t, ast.Name) and re.match(r'^%s\.parameters$' % nd, P.src(v))]
    BASE = '(?:%s)' % '|'.join(bases)
    pop = [e for e in gsa.find(TH, 'call', r'^%s\.pop$' % BASE) if e.args in ([], ['-1'])] + gsa.find(TH, 'del', r'^%s\[-1\]$' % BASE)
    thr = gsa.find(TH, 'store', r'^%s\.throws$' % nd, r'^True$')
    GE = r"^%s\[-1\]\.type\.ctype == 'GError\*\*'$" % BASE
    ok = len(pop) == 1 and len(thr) == 1 and gsa.equiv(pop[0].cond, thr[0].cond) and gsa.needs(TH, pop[0], GE) and \
        gsa.allowed(TH, pop[0], [(GE, True), (r'^%s$' % BASE, True)])
    r3.check(ok, 'trailing GError** removed and throws set together', mt.rel, th.lineno, 'pop: %s throws: %s' % (pop, thr))
    cb = py.func(MT, 'MainTransformer._pass3_callable_callbacks')
    CB = gsa.summarise(ctx, MT, 'MainTransformer._pass3_callable_callbacks')
    DN = r"gi_name == 'GLib\.DestroyNotify'$"
    ISCB = r'^isinstance\(.*, ast\.Callback\)$'
    CUR = r'^(\w+) is None$'

    def has(target, value, must, forbid=()):
        return [e for e in gsa.find(CB, 'store', target, value) if all(gsa.needs(CB, e, m_) for m_ in must) and all(gsa.impossible(CB, e, [f_]) for f_ in forbid)]
    d1 = has(r'^\w+\.destroy_name$', r'^\w+\.argname$', [DN, ISCB], forbid=[(CUR, True)])
    d2 = has(r'^\w+\.scope$', r'^ast\.PARAM_SCOPE_NOTIFIED$', [DN, ISCB], forbid=[(CUR, True)])
    r3.check(d1 and d2 and d1[0].target.split('.')[0] == d2[0].target.split('.')[0] and d1[0].target.split('.')[0] != d1[0].value.split('.')[0],
             'destroy-notify after a callback -> destroy + notified scope', mt.rel, cb.lineno, 'destroy role stores changed: %s %s' % (d1, d2))
    c1 = has(r'^\w+\.closure_name$', r'^\w+\.argname$', [r"\.argname\.endswith\('data'\)$", r'\.type\.is_equiv\(ast\.TYPE_ANY\)$'], forbid=[(CUR, True)])
    r3.check(bool(c1) and c1[0].target.split('.')[0] != c1[0].value.split('.')[0], 'untyped *data pointer after a callback -> closure', mt.rel, cb.lineno, 'closure role store changed: %s' % gsa.find(CB, 'store', r'\.closure_name$'))
    AR = r"gi_name == 'Gio\.AsyncReadyCallback'$"
    a1 = [e for e in gsa.find(CB, 'store', r'^\w+\.scope$', r'^ast\.PARAM_SCOPE_ASYNC$') if gsa.needs(CB, e, ISCB) and gsa.allowed(CB, e, [(AR, True), (DN, False), (ISCB, True), (r'^@', True)])
          and gsa.impossible(CB, e, [(AR, False), (DN, False)])]
    r3.check(bool(a1), 'async-ready callback -> async scope', mt.rel, cb.lineno, 'async scope store changed')
    # the remembered callback stays remembered after its destroy notify (callback, destroy, user_data order)
    cur = d1[0].target.split('.')[0] if d1 else None
    loc = [e for e in CB.effects if e.kind == 'local' and e.target == cur]
    resets = [e for e in loc if e.value == 'None']
    r3.check(cur is not None and not resets, 'callback stays current after its destroy notify', mt.rel, resets[0].line if resets else cb.lineno,
             'the remembered callback is reset inside the parameter loop (%s): in the arrangement (callback, GDestroyNotify, user_data) the callback keeps its destroy but loses its closure'
             % [e.when()[:120] for e in resets])
    sel = [e for e in loc if e.value != 'None']
    want = gsa.conj(*[x for x in [gsa.atom(a_) for a_ in CB.atoms() if re.search(ISCB, a_)][:1]] + [gsa.neg(gsa.atom(a_)) for a_ in CB.atoms() if re.search(DN, a_)][:1])
    oksel = len(sel) == 1 and gsa.equiv(gsa.assign(sel[0].cond, dict([(a_, True) for a_ in gsa.atoms(sel[0].cond) if a_.startswith('@')] +
                                                                    [(a_, False) for a_ in gsa.atoms(sel[0].cond) if a_.endswith('.gi_name is None')] +
                                                                    [(a_, False) for a_ in gsa.atoms(sel[0].cond) if a_.endswith(' is None') and
                                                                     any(b_.startswith('isinstance(%s, ' % a_[:-len(' is None')]) for b_ in gsa.atoms(sel[0].cond))])), want)   # a Callback always has a gi_name; an instance is not None
    r3.check(oksel, 'any callback other than destroy-notify becomes the current callback', mt.rel, sel[0].line if sel else cb.lineno,
             'callback selection: %s' % [(e.value, e.when()[:200]) for e in sel])
    SC = gsa.summarise(ctx, MT, 'MainTransformer._apply_annotations_param_ret_common', opaque=('_is_pointer_type', '_get_validate_parameter_name', '_resolve_toplevel', '_resolve', '_get_transfer_default',
                                                                                                '_apply_transfer_annotation', '_adjust_container_type'))
    nn = re.escape(SC.P(2))
    anyp = [e for e in gsa.find(SC, 'store', r'^%s\.nullable$' % nn, r'^True$') if gsa.equiv(e.cond, gsa.atom('%s.type.is_equiv(ast.TYPE_ANY)' % SC.P(2)))]
    r3.check(bool(anyp), 'untyped pointers are nullable', mt.rel, SC.func.lineno, 'gpointer default nullable store changed: %s' % gsa.find(SC, 'store', r'^%s\.nullable$' % nn, r'^True$'))
    # user_data in callbacks (transformer)
    tc = py.func('transformer', 'Transformer._create_callback')
    TC = gsa.summarise(ctx, 'transformer', 'Transformer._create_callback', opaque=('_create_parameters', '_create_return', '_create_type_from_base'))
    ud = [e for e in gsa.find(TC, 'store', r'\.closure_name$', r'\.argname$') if gsa.needs(TC, e, r"\.argname == 'user_data'$")]
    r3.check(bool(ud), 'callback typedef: gpointer user_data is the closure', tm.rel, tc.lineno, '_create_callback closure marking changed: %s' % gsa.find(TC, 'store', r'\.closure_name$'))

    # ------------------------------------------------------------------ R4 c:type kept
    r4 = ctx.rule('R4', 'the original C spelling is kept as c:type on every type created from a C type string', floor=3)
    pn = [a_.arg for a_ in cf.args.args]
    if not all(x in pn for x in ('is_const', 'complete_ctype')) or len(pn) < 2:
        raise AnalysisError('create_type_from_ctype_string signature changed: %s' % pn)
    cparam = pn[1]
    seen = set()
    for g, n0 in CS.returns:
      for n in ([x for x in ast.walk(n0) if isinstance(x, ast.Call)] if n0 is not None else []):
        nm = P.call_name(n)
        if nm in ('ast.Type', 'ast.Array', 'self._create_bare_container_type') and gsa._unparse(n) not in seen:
            seen.add(gsa._unparse(n))
            kw = dict((k.arg, gsa._unparse(k.value)) for k in n.keywords)
            r4.check(kw.get('ctype') == cparam and kw.get('complete_ctype') == 'complete_ctype' and kw.get('is_const') == 'is_const', 'return %s(...) keeps ctype' % nm, tm.rel, cf.lineno,
                     '%s is built with ctype=%s complete_ctype=%s is_const=%s' % (nm, kw.get('ctype'), kw.get('complete_ctype'), kw.get('is_const')), detail=kw)
    r4.check(any(x.startswith('self._create_bare_container_type') for x in seen), 'container types keep ctype', tm.rel, cf.lineno, 'container creation changed')
